"""C13 — untrusted session descriptions cannot crash client or proxy
(common/util SerializeSessionDescription / DeserializeSessionDescription; proxy/lib remoteIPFromSDP)."""
import json
import vlib

AREA = "sessdesc"
TYPES = ["offer", "pranswer", "answer", "rollback"]

SDP_SAMPLE = ("v=0\r\no=- 4358805017720277108 2 IN IP4 127.0.0.1\r\ns=-\r\nt=0 0\r\na=group:BUNDLE 0\r\n"
              "m=application 9 UDP/DTLS/SCTP webrtc-datachannel\r\nc=IN IP4 0.0.0.0\r\n"
              "a=candidate:3769337065 1 udp 2122260223 192.0.2.7 56688 typ host generation 0\r\n"
              "a=ice-ufrag:aMAZ\r\na=ice-pwd:jcHb08Jjgrazp2dzjdrvPPvV\r\na=setup:actpass\r\na=mid:0\r\na=sctp-port:5000\r\n")


def hx(b):
    if isinstance(b, str):
        b = b.encode("utf-8")
    return "x" + b.hex()


# ------------------------------------------------------------------ value tokens (see coq/Run/SessdescRun.v)

def tok_parse(tok):
    """value token -> python structure: ('n',), ('b',bool), ('d',bytes), ('s',bytes), ('a',[..]), ('o',[(key,val)..])"""
    if tok == "invalid":
        return None
    atoms = tok.split(",")
    pos = [0]

    def val():
        a = atoms[pos[0]]
        pos[0] += 1
        c = a[0]
        if c == "n":
            return ("n",)
        if c in "tf":
            return ("b", c == "t")
        if c in "ds":
            return (c, bytes.fromhex(a[1:]))
        if c == "a":
            return ("a", [val() for _ in range(int(a[1:]))])
        if c == "o":
            out = []
            for _ in range(int(a[1:])):
                k = atoms[pos[0]]
                pos[0] += 1
                out.append((bytes.fromhex(k[1:]), val()))
            return ("o", out)
        raise ValueError(a)
    return val()


def member_kinds(tok):
    """(kind of the effective "type" member, kind of the effective "sdp" member) or None if not an object"""
    v = tok_parse(tok)
    if v is None or v[0] != "o":
        return None
    t = s = None
    for k, x in v[1]:
        if k == b"type":
            t = x
        if k == b"sdp":
            s = x
    return (t[0] if t else None, s[0] if s else None)


# ------------------------------------------------------------------ property on the implementation's answer

def prop(line, impl, model):
    a = line.split(" ")
    op = a[1]
    if impl.startswith("!panic") or impl == "!died":
        return "DeserializeSessionDescription panicked on a message a remote party can send (%s)" % describe(a)
    if impl.startswith("!nil"):
        return "DeserializeSessionDescription returned neither a description nor an error"
    if op == "rt" and a[2] in TYPES:
        want = "ok %s %s" % (a[2], "x" + expand(a[3]))
        if impl != want:
            return "serialise-then-deserialise does not give back the description (type %s): got %s" % (a[2], impl[:120])
    return None


def expand(spec):
    if spec[0] == "x":
        return spec[1:]
    n, s = spec[1:].split(".")
    return "".join("%02x" % ((int(s) + i) & 255) for i in range(int(n)))


def describe(a):
    if a[1] in ("deser", "deser0"):
        try:
            return "text %r" % bytes.fromhex(a[3][1:])[:200]
        except Exception:
            return a[3][:200]
    return " ".join(a[1:])[:200]


def key_of(line, impl, model):
    a = line.split(" ")
    if a[1] == "deser" and impl.startswith("!panic"):
        mk = member_kinds(a[2])
        if mk and ((mk[0] is not None and mk[0] != "s") or (mk[1] is not None and mk[1] != "s")):
            return "deserialize-nonstring-member"
        return "deserialize-panic"
    if a[1] == "rt":
        return "roundtrip" if not impl.startswith("!panic") else "roundtrip-panic"
    return a[1]


# ------------------------------------------------------------------ generators

def js(s):
    return json.dumps(s)


TYPE_VALUES = [  # (label, json text)
    ("offer", '"offer"'), ("pranswer", '"pranswer"'), ("answer", '"answer"'), ("rollback", '"rollback"'),
    ("unknown-name", '"unknown"'), ("case-variant", '"Offer"'), ("upper", '"ANSWER"'), ("empty-string", '""'),
    ("padded", '" offer"'), ("escaped-offer", '"\\u006fffer"'), ("nul-suffix", '"offer\\u0000"'),
    ("number", "1"), ("float", "1.5e3"), ("true", "true"), ("false", "false"), ("null", "null"),
    ("array", '["offer"]'), ("empty-array", "[]"), ("object", '{"type":"offer"}'), ("empty-object", "{}"),
]
SDP_VALUES = [
    ("string", '"x"'), ("empty-string", '""'), ("sdp-text", js(SDP_SAMPLE)), ("unicode", '"\\u00e9\\ud83d\\ude00 \u00e9"'),
    ("lone-surrogate", '"\\ud800"'), ("number", "0"), ("big-number", "1e999"), ("true", "true"), ("null", "null"),
    ("array", '["v=0"]'), ("object", '{"sdp":"x"}'), ("nested-deep", "[" * 40 + "]" * 40),
]


def structured(rng):
    out = []
    # full cross product of member kinds, plus each member missing
    for tl, tv in TYPE_VALUES + [("missing", None)]:
        for sl, sv in SDP_VALUES + [("missing", None)]:
            mem = []
            if tv is not None:
                mem.append('"type":' + tv)
            if sv is not None:
                mem.append('"sdp":' + sv)
            if rng.random() < 0.5:
                mem.reverse()
            if rng.random() < 0.3:
                mem.insert(rng.randrange(len(mem) + 1), '"extra":' + rng.choice(['1', '"y"', '{"type":1}', 'null']))
            out.append(("type=%s,sdp=%s" % (kind_class(tl), kind_class(sl)), "{" + ",".join(mem) + "}"))
    # duplicates: the last one counts
    for first, second in [('"offer"', "1"), ("1", '"offer"'), ('"answer"', "null"), ("null", '"answer"'), ('"bogus"', '"offer"')]:
        out.append(("dup-type", '{"type":%s,"type":%s,"sdp":"x"}' % (first, second)))
        out.append(("dup-type", '{"type":%s,"sdp":"x","type":%s}' % (first, second)))
    for first, second in [('"a"', "1"), ("1", '"a"'), ('"a"', "null"), ("[]", '"b"'), ('"a"', '"b"')]:
        out.append(("dup-sdp", '{"sdp":%s,"type":"offer","sdp":%s}' % (first, second)))
    # key spelling: map lookup is exact, no case folding
    for kt, ks in [("Type", "sdp"), ("type", "SDP"), ("TYPE", "Sdp"), ("type ", "sdp"), ("typ", "sd"), ("\\u0074ype", "\\u0073dp"),
                   ("type", "s\\u0064p"), ("t\u0443pe", "sdp"), ("", "")]:
        for tv in ['"offer"', "1"]:
            out.append(("key-variant", '{"%s":%s,"%s":"x"}' % (kt, tv, ks)))
            out.append(("key-variant", '{"%s":%s,"%s":7,"type":"answer","sdp":"y"}' % (kt, tv, ks)))
    # top level values that are not objects
    for t in ["null", "true", "false", "0", "-1.5", '"offer"', '""', "[]", '[{"type":"offer","sdp":"x"}]', '["type","sdp"]',
              " null ", "\tnull\n", "{}", " { } ", '{"type":"offer","sdp":"x"}\n', '\r\n {"sdp" : "x" , "type" : "rollback" } ']:
        out.append(("top-level", t))
    return out


def kind_class(label):
    if label in TYPES:
        return "valid-name"
    if label in ("unknown-name", "case-variant", "upper", "empty-string", "padded", "nul-suffix", "string", "sdp-text", "unicode",
                 "lone-surrogate", "escaped-offer"):
        return "string"
    if label in ("number", "float", "big-number"):
        return "number"
    if label in ("true", "false"):
        return "bool"
    if label in ("array", "empty-array", "nested-deep"):
        return "array"
    if label in ("object", "empty-object"):
        return "object"
    return label


def malformed(rng, n):
    out = []
    fixed = [b"", b" ", b"{", b"}", b"[", b"{\"type\"", b"{\"type\":", b"{\"type\":\"offer\"", b"{\"type\":\"offer\",}",
             b"{\"type\":\"offer\",\"sdp\":\"x\"} x", b"{\"type\":\"offer\",\"sdp\":\"x\"}{}", b"{'type':'offer','sdp':'x'}",
             b"{type:\"offer\",sdp:\"x\"}", b"\xef\xbb\xbf{\"type\":\"offer\",\"sdp\":\"x\"}", b"{\"type\":NaN,\"sdp\":\"x\"}",
             b"{\"type\":\"offer\",\"sdp\":\"x\"}\x00", b"\x00", b"\xff\xfe", b"nul", b"NULL", b"{\"type\":\"offer\",\"sdp\":\"\xff\"}",
             b"{\"type\":\"off\xc3er\",\"sdp\":\"x\"}", b"{\"type\":\"offer\",\"sdp\":\"a\nb\"}", b"{\"type\":01,\"sdp\":\"x\"}",
             b"{\"type\":\"offer\" \"sdp\":\"x\"}", b"// c\n{}", b"{\"type\":\"offer\",\"sdp\":\"\\x\"}", b"{\"type\":\"\\ud83d\",\"sdp\":\"\\ude00\"}",
             SDP_SAMPLE.encode(), b"v=0", b"a=candidate:1 1 udp 1 10.0.0.1 1 typ host", b"{\"\xff\":1,\"type\":2,\"sdp\":3}",
             b"{\"type\":\"offer\",\"sdp\":\"x\",\"type\":}", b"[" * 60, b"{\"a\":" * 30 + b"1" + b"}" * 30]
    for f in fixed:
        out.append(("non-json-fixed", f))
    seeds = [b'{"type":"offer","sdp":"x"}', b'{"type":1,"sdp":"x"}', b'{"sdp":null,"type":"answer"}',
             ('{"type":"answer","sdp":%s}' % js(SDP_SAMPLE)).encode(), b'{"type":"rollback","sdp":""}']
    alphabet = b'{}[]":,\\ntfu0123456789e.-+ \x00\xff' + b"typesdpofferanswer"
    for _ in range(n):
        s = bytearray(rng.choice(seeds))
        r = rng.random()
        if r < 0.25:    # truncate
            out.append(("mut-truncate", bytes(s[:rng.randrange(len(s) + 1)])))
        elif r < 0.6:   # substitute 1-3 bytes
            for _ in range(rng.randrange(1, 4)):
                s[rng.randrange(len(s))] = rng.choice(alphabet)
            out.append(("mut-substitute", bytes(s)))
        elif r < 0.8:   # delete / insert
            i = rng.randrange(len(s))
            if rng.random() < 0.5:
                del s[i]
            else:
                s.insert(i, rng.choice(alphabet))
            out.append(("mut-indel", bytes(s)))
        else:
            out.append(("random-bytes", bytes(rng.choice(alphabet) for _ in range(rng.randrange(0, 24)))))
    return out


def random_values(rng, n):
    """random JSON documents built from a value grammar (objects biased to contain type/sdp)"""
    def val(d):
        r = rng.random()
        if d > 2 or r < 0.35:
            return rng.choice(['"offer"', '"answer"', '"x"', '""', "0", "-2", "3.25", "true", "false", "null", '"pranswer"', '"rollback"'])
        if r < 0.55:
            return "[" + ",".join(val(d + 1) for _ in range(rng.randrange(0, 3))) + "]"
        keys = ['"type"', '"sdp"', '"type"', '"sdp"', '"Type"', '"x"', '""']
        return "{" + ",".join("%s:%s" % (rng.choice(keys), val(d + 1)) for _ in range(rng.randrange(0, 5))) + "}"
    return [("random-value", val(0)) for _ in range(n)]


RT_SDPS = [b"", b"x", SDP_SAMPLE.encode(), b"\"quoted\" back\\slash", b"<script>&amp;</script>", b"\x00\x01\x1f\x7f",
           "line\u2028sep\u2029 \u00e9 \U0001f600".encode(), b"\r\n\t\b\f", b"{\"type\":\"offer\",\"sdp\":\"x\"}", b"null", b"\\u0041",
           "\ufffd".encode(), b"a=candidate:1 1 udp 1 10.0.0.1 1 typ host\r\n" * 50]


def gen(ctx, exe):
    rng = ctx.rng
    thorough = ctx.tier == "thorough"
    texts = [(k, t.encode("utf-8", "surrogatepass") if isinstance(t, str) else t) for k, t in structured(rng)]
    texts += malformed(rng, 600 if not thorough else 8000)
    texts += [(k, t.encode()) for k, t in random_values(rng, 400 if not thorough else 6000)]
    # phase 1: how encoding/json reads each text (library boundary)
    jl = ["%s jparse %s" % (AREA, hx(t)) for _, t in texts]
    rc, vals, err = vlib.run_impl(exe, jl)
    if rc != 0 or len(vals) != len(jl):
        raise RuntimeError("jparse phase failed: rc=%s %s" % (rc, err[-400:]))
    lines, kinds = [], []
    for (k, t), v in zip(texts, vals):
        lines.append("%s deser %s %s" % (AREA, v, hx(t)))
        kinds.append("deser:" + k)
    ctx.extra["json_valid_texts"] = sum(1 for v in vals if v != "invalid")
    ctx.extra["json_invalid_texts"] = sum(1 for v in vals if v == "invalid")
    # round trips
    for t in TYPES + ["other"]:
        for s in RT_SDPS:
            lines.append("%s rt %s %s" % (AREA, t, hx(s))); kinds.append("rt:" + t)
            lines.append("%s ser %s %s" % (AREA, t, hx(s))); kinds.append("ser:" + t)
    for _ in range(150 if not thorough else 2000):
        n = rng.choice([0, 1, 2, 5, 17, 100, 1000])
        s = "".join(rng.choice(["a", "\"", "\\", "\n", "\r", " ", "=", "\u00e9", "\u4e2d", "\U0001f600", "\x00", "<", "\u2028", "/"]) for _ in range(n))
        t = rng.choice(TYPES)
        lines.append("%s rt %s %s" % (AREA, t, hx(s))); kinds.append("rt:" + t)
    return lines, kinds


def invalid_utf8_monitor(ctx, exe):
    """SDP strings that are not valid UTF-8 are outside the round-trip theorem (encoding/json replaces each
    offending byte by U+FFFD); they are still run: no panic, and a description comes back."""
    rng = ctx.rng
    lines = []
    for _ in range(60):
        s = bytes(rng.choice([0x61, 0x80, 0xff, 0xc3, 0xe2, 0x28, 0xf0, 0x9f, 0xed, 0xa0]) for _ in range(rng.randrange(1, 12)))
        lines.append("%s rt %s %s" % (AREA, rng.choice(TYPES), hx(s)))
    rc, res, err = vlib.run_impl(exe, lines)
    changed = 0
    for l, r in zip(lines, res + ["!died"] * (len(lines) - len(res))):
        ctx.count(l, kind="rt-invalid-utf8(monitor)")
        if not r.startswith("ok "):
            ctx.violation("roundtrip-invalid-utf8", "round trip of a non-UTF-8 SDP string did not return a description: " + r[:100],
                          dict(label="invalid-utf8", case=l, impl=r))
        elif r.split(" ")[2] != l.split(" ")[3]:
            changed += 1
    ctx.extra["invalid_utf8_roundtrips_changed_by_encoding_json"] = "%d of %d" % (changed, len(lines))


PEER_ARGS = ["-test.run", "^TestVerifPeerDriver$", "-verif.peer"]


def peer_prop(line, impl, model):
    from checks import c08
    if impl.startswith("!panic") or impl == "!died":
        return "remoteIPFromSDP panicked on an SDP text a client can send"
    if impl.startswith("x"):
        b = bytes.fromhex(impl[1:])
        if len(b) not in (4, 16):
            return "remoteIPFromSDP returned a %d-byte address" % len(b)
        if c08.bad_bytes(b):
            return "remoteIPFromSDP returned %s, which is a local / unspecified / loopback address" % c08.show_ip(b)
    elif impl != "nil":
        return "unexpected driver answer " + impl[:80]
    return None


def peer_key(line, impl, model):
    return "peer-address-panic" if impl.startswith("!panic") else "peer-address"


def peer_texts(ctx):
    """SDP texts for remoteIPFromSDP: the C08 grammar with the c= lines varied, malformed and non-SDP texts"""
    from checks import c08
    rng = ctx.rng
    thorough = ctx.tier == "thorough"
    stats = {}
    out = []

    def vary_conn(t):
        lines = t.split("\r\n")
        for i, l in enumerate(lines):
            if l.startswith("c=") and rng.random() < 0.8:
                r = rng.random()
                if r < 0.45:
                    a = rng.choice(c08.V4_POOL)
                    lines[i] = "c=IN IP4 " + a + rng.choice(["", "", "/127", "/127/3"])
                elif r < 0.8:
                    lines[i] = "c=IN IP6 " + rng.choice(c08.V6_POOL) + rng.choice(["", "", "/3"])
                elif r < 0.9:
                    lines[i] = "c=IN IP4 " + rng.choice(c08.spellings(rng, rng.choice(c08.V4_POOL)))
                else:
                    lines[i] = rng.choice(["c=IN IP4 ", "c=IN IP4 999.1.1.1", "c=IN IP6 fd00:::1", "c=IN IP4 8.8.8.8 ", "c=IN IP4 1.2.3.4x", "c=IN IP7 1.2.3.4",
                                           "c=IN IP6 2001:db8::1 x", "c=IN IP4 10.0.0.1:5", "c=IN IP4 0x8.8.8.8"])
        return "\r\n".join(lines)

    for i in range(500 if not thorough else 6000):
        t = c08.gen_sdp(rng, stats, malformed=(i % 4 == 0))
        if rng.random() < 0.5:   # no usable candidate: the c= fallback decides
            t = "\r\n".join(l for l in t.split("\r\n") if not l.startswith("a=candidate:") or rng.random() < 0.15)
        out.append(("grammar", vary_conn(t).encode()))
    base = c08.gen_sdp(rng, stats).encode()
    for _ in range(250 if not thorough else 3000):
        if rng.random() < 0.1:
            base = vary_conn(c08.gen_sdp(rng, stats, malformed=rng.random() < 0.3)).encode()
        out.append(("non-sdp/mutated", c08.non_sdp(rng, base)))
    for t in [b"c=IN IP4 8.8.8.8\r\n", b"c=IN IP4 8.8.8.8", b"x\nc=IN IP6 2001:db8::1\n", b"c=IN IP4 10.0.0.1\r\nc=IN IP4 8.8.8.8\r\n",
              b"v=0\r\no=- 1 2 IN IP4 127.0.0.1\r\ns=-\r\nc=IN IP4 203.0.113.9\r\nt=0 0\r\n",
              b"v=0\r\no=- 1 2 IN IP4 127.0.0.1\r\ns=-\r\nc=IN IP4 192.168.0.9\r\nt=0 0\r\nm=audio 9 RTP/AVP 0\r\nc=IN IP6 2001:db8::7\r\n"]:
        out.append(("conn-line-only", t))
    out += truncated_candidate_texts(rng, thorough)
    return out


CAND_FIELDS = ["3769337065", "1", "udp", "2122260223", "203.0.113.5", "56688", "typ", "host", "generation", "0"]


def truncated_candidate_texts(rng, thorough):
    """a=candidate attributes cut to every field count 0..10 (and with extra fields), as the first / middle / last
    / only candidate of a media section, between candidates the function skips (local) or would take (remote), with
    the separators a field-splitting parser and pion/ice read differently; in the first or the second media section"""
    out = []
    head = "v=0\r\no=- 1 2 IN IP4 127.0.0.1\r\ns=-\r\nt=0 0\r\n"
    local = "a=candidate:7 1 udp 1 192.168.1.%d 9 typ host\r\n"
    remote = "a=candidate:8 1 udp 1 198.51.100.%d 9 typ host\r\n"
    seps = [" ", " ", "  ", "\t"] if not thorough else [" ", "  ", "\t", " \t "]
    counts = list(range(0, len(CAND_FIELDS) + 1)) + [12, 40]
    for n in counts:
        f = (CAND_FIELDS + ["x%d" % i for i in range(40)])[:n]
        for pos in ("only", "first", "middle", "last"):
            for sep in (seps if thorough else [rng.choice(seps)]):
                vals = [sep.join(f)]
                if n and rng.random() < 0.5:
                    vals.append(sep.join(f) + rng.choice([" ", "\t", "  "]))     # trailing separator
                if n >= 5 and rng.random() < 0.5:
                    g = list(f); g[4] = rng.choice(["10.0.0.1", "fd00::1", "2001:db8::9", "foo.local", "", "999.1.1.1"]); vals.append(sep.join(g))
                for v in vals:
                    cand = "a=candidate:" + v + "\r\n"
                    other = rng.choice([local, local, remote])
                    o1, o2 = other % rng.randrange(1, 250), other % rng.randrange(1, 250)
                    body = {"only": cand, "first": cand + o1 + o2, "middle": o1 + cand + o2, "last": o1 + o2 + cand}[pos]
                    conn = rng.choice(["c=IN IP4 0.0.0.0\r\n", "c=IN IP4 203.0.113.77\r\n", ""])
                    m1 = M_APP + conn + "a=ice-ufrag:aMAZ\r\n" + body + "a=mid:0\r\n"
                    if rng.random() < 0.3:   # in the second media section, after one without usable candidates
                        m1 = "m=audio 9 UDP/TLS/RTP/SAVPF 111\r\n" + local % 3 + "a=mid:1\r\n" + m1
                    out.append(("truncated-candidate:%s-fields" % (n if n <= 10 else "extra"), (head + m1).encode()))
    return out


def peer_part(ctx, exe, batch):
    """remoteIPFromSDP (proxy/lib, unexported): in-package driver through the compiled test binary; the coarse
    op `peer` (structure as in C08) and the op `peerg` with every partial operation of the function"""
    texts = peer_texts(ctx)
    pl = ["sdpstrip peerparse %s" % hx(t) for _, t in texts]
    rc, res, err = vlib.run_impl(exe, pl, args=C13_ARGS)
    if rc != 0 or len(res) != len(pl):
        raise RuntimeError("peerparse phase failed: rc=%s %s" % (rc, err[-400:]))
    for (k, t), r in zip(texts, res):
        st, caps = r.split(" ")
        batch.add("sdpstrip peer %s %s %s" % (st, caps, hx(t)), "peer:" + k + (":unparsable" if st == "U" else ""))
    return texts


# ------------------------------------------------------------------ remoteIPFromSDP with its partial operations (op `peerg`)

C13_ARGS = ["-test.run", "^TestVerifC13Driver$", "-verif.c13"]


def contract_breach(pstruct, pcaps):
    """which clause of lib_contract (coq/Model/SessDescPeer.v) the libraries' answer violates, or None"""
    if pstruct not in ("U", "none"):
        for m in pstruct.split(";"):
            if m == "N":
                return "pion/sdp stored a nil *MediaDescription"
            for a in ([] if m == "-" else m.split(",")):
                if a.startswith("k0.nil"):
                    return "ice.UnmarshalCandidate returned neither a candidate nor an error"
    for c in ([] if pcaps == "-" else pcaps.split(",")):
        if c != "n" and not c.startswith("m3."):
            return "FindStringSubmatch returned a slice of length %s for a pattern with two groups" % c[1:].split(".")[0]
    return None


def peerg_part(ctx, exe, texts, batch):
    pl = ["sdpstrip peergparse %s" % hx(t) for _, t in texts]
    rc, res, err = vlib.run_impl(exe, pl, args=C13_ARGS)
    if rc != 0 or len(res) != len(pl):
        ctx.violation("peer-address-panic", "the libraries under remoteIPFromSDP killed the driver at input %r: %s" % (
            texts[len(res)][1][:300] if len(res) < len(texts) else None, err[-400:]), dict(label="peergparse", case=pl[len(res)] if len(res) < len(pl) else None))
        return
    breaches = 0
    seen = {"candidate-with-error": 0, "candidate-ok": 0, "submatch-nil": 0, "submatch": 0}
    for (k, t), r in zip(texts, res):
        if r.startswith("!"):
            ctx.violation("peer-address-panic", "the libraries under remoteIPFromSDP panicked on %r: %s" % (t[:300], r[:200]), dict(label="peergparse", case="sdpstrip peergparse " + hx(t)))
            continue
        st, caps = r.split(" ")
        b = contract_breach(st, caps)
        if b:
            breaches += 1
            if breaches <= 3:
                ctx.not_shown("library contract assumed by C13_peer_addr_never_panics does not hold on %r: %s" % (t[:200], b))
        seen["candidate-with-error"] += st.count("k1.")
        seen["candidate-ok"] += st.count("k0.")
        seen["submatch-nil"] += sum(1 for c in caps.split(",") if c == "n")
        seen["submatch"] += sum(1 for c in caps.split(",") if c.startswith("m"))
        batch.add("sdpstrip peerg %s %s %s" % (st, caps, hx(t)), "peerg:" + k + (":unparsable" if st == "U" else ""))
    ctx.extra["peerg_library_answers"] = dict(seen, contract_breaches=breaches)


# ------------------------------------------------------------------ callers on the untrusted path

FP = "a=fingerprint:sha-256 0A:1B:2C:3D:4E:5F:60:71:82:93:A4:B5:C6:D7:E8:F9:0A:1B:2C:3D:4E:5F:60:71:82:93:A4:B5:C6:D7:E8:F9\r\n"
SDP_MIN = "v=0\r\no=- 1 2 IN IP4 127.0.0.1\r\ns=-\r\nt=0 0\r\n"
M_APP = "m=application 9 UDP/DTLS/SCTP webrtc-datachannel\r\n"

# (label, SDP text): texts pion/sdp rejects, and texts it accepts although something every real description has is missing
HOSTILE_SDPS = [
    ("sdp-empty", ""), ("sdp-garbage", "x"), ("sdp-v-only", "v=0"), ("sdp-v-only-crlf", "v=0\r\n"), ("sdp-no-media", SDP_MIN),
    ("sdp-no-fingerprint", SDP_SAMPLE), ("sdp-conn-without-address", SDP_SAMPLE.replace("c=IN IP4 0.0.0.0", "c=IN IP4")),
    ("sdp-conn-blank-address", SDP_SAMPLE.replace("c=IN IP4 0.0.0.0", "c=IN IP4 ")), ("sdp-conn-garbage", SDP_SAMPLE.replace("c=IN IP4 0.0.0.0", "c=IN")),
    ("sdp-media-port-garbage", SDP_SAMPLE.replace("m=application 9 ", "m=application x ")), ("sdp-media-short", SDP_MIN + "m=application\r\n"),
    ("sdp-no-ufrag", SDP_MIN + M_APP + "c=IN IP4 0.0.0.0\r\n" + FP + "a=setup:active\r\na=mid:0\r\n"),
    ("sdp-empty-ufrag", SDP_MIN + M_APP + FP + "a=ice-ufrag:\r\na=ice-pwd:\r\na=mid:0\r\n"),
    ("sdp-bad-fingerprint", SDP_MIN + M_APP + "a=fingerprint:sha-256 ZZ\r\na=ice-ufrag:aMAZ\r\na=ice-pwd:jcHb08Jjgrazp2dzjdrvPPvV\r\na=mid:0\r\n"),
    ("sdp-fingerprint-no-value", SDP_MIN + M_APP + "a=fingerprint:sha-256\r\na=ice-ufrag:aMAZ\r\na=ice-pwd:jcHb08Jjgrazp2dzjdrvPPvV\r\na=mid:0\r\n"),
    ("sdp-bad-setup", SDP_MIN + M_APP + FP + "a=setup:bogus\r\na=mid:0\r\n"),
    ("sdp-candidate-garbage", SDP_MIN + M_APP + "c=IN IP4 0.0.0.0\r\na=candidate:\r\na=candidate:1 1 udp x\r\na=mid:0\r\n"),
    ("sdp-attr-before-media", "v=0\r\na=mid:0\r\n"), ("sdp-dup-origin", SDP_MIN + "o=- 1 2 IN IP4 127.0.0.1\r\n"),
    ("sdp-many-media", SDP_MIN + (M_APP + "a=mid:0\r\n") * 150), ("sdp-long-line", SDP_MIN + "a=" + "x" * 60000 + "\r\n"),
    ("sdp-lf-only", SDP_SAMPLE.replace("\r\n", "\n")), ("sdp-nul", SDP_MIN[:10] + "\x00" + SDP_MIN[10:]),
    ("sdp-group-without-mid", SDP_MIN + "a=group:BUNDLE 0 1 2\r\n" + M_APP),
    ("sdp-rtp-media-no-codecs", SDP_MIN + "m=audio 9 UDP/TLS/RTP/SAVPF\r\nc=IN IP4 0.0.0.0\r\na=mid:0\r\n" + FP),
    ("sdp-extmap-garbage", SDP_MIN + "m=video 9 UDP/TLS/RTP/SAVPF 96\r\na=extmap:x y\r\na=rtpmap:96\r\na=fmtp:96\r\na=rtcp-fb:96\r\na=ssrc:x\r\na=ssrc-group:FID\r\na=mid:0\r\n" + FP),
    ("sdp-simulcast-garbage", SDP_MIN + "m=video 9 UDP/TLS/RTP/SAVPF 96\r\na=rid:\r\na=simulcast:\r\na=msid:\r\na=mid:\r\n" + FP),
]


def hostile_inner(rng):
    """(kind, text of the inner message = what util.DeserializeSessionDescription is given)"""
    out = [(k, t.encode("utf-8", "surrogatepass") if isinstance(t, str) else t) for k, t in structured(rng)]
    out += [(k, t) for k, t in malformed(rng, 0)]
    for lbl, sdp in HOSTILE_SDPS:
        for typ in TYPES:
            out.append(("valid-json:" + lbl, ('{"type":%s,"sdp":%s}' % (js(typ), js(sdp))).encode()))
    return out


def wrap(site, inner, relay=""):
    """the well-formed outer message of a site around the inner text (None when the inner text cannot be a JSON string)"""
    try:
        s = inner.decode("utf-8")
    except UnicodeDecodeError:
        return None
    if site == "natprobe":
        return json.dumps({"Version": "1.0", "Sid": "probe", "Answer": s}).encode()
    if site == "polloffer":
        return json.dumps({"Status": "client match", "Offer": s, "NAT": "unknown", "RelayURL": relay}).encode()
    return json.dumps({"answer": s}).encode()


RAW_OUTER = [b"", b"null", b"true", b"0", b"[]", b"{}", b"\"x\"", b"{", b"not json", b"\xff\xfe", b"[{}]",
             b'{"Status":"client match"}', b'{"Status":"client match","Offer":""}', b'{"Status":"client match","Offer":null}',
             b'{"Status":"client match","Offer":5}', b'{"Status":"client match","Offer":{"type":"offer","sdp":"x"}}',
             b'{"Status":"no match"}', b'{"Status":"no match","Offer":"{\\"type\\":1,\\"sdp\\":2}"}', b'{"Status":"","Offer":"x"}',
             b'{"Status":"whatever","Offer":"x"}', b'{"status":"client match","offer":"null"}', b'{"Status":"client match","Offer":"x","RelayURL":5}',
             b'{"Status":"client match","Offer":"x","RelayURL":"%zz"}',
             b'{"Version":"1.0","Sid":"s","Answer":"null"}', b'{"Version":"1.0","Sid":"s","Answer":null}', b'{"Version":"1.0","Sid":"s","Answer":7}',
             b'{"Version":"1.0","Sid":"s"}', b'{"Version":"1.0","Sid":"","Answer":"x"}', b'{"Version":"2.0","Sid":"s","Answer":"x"}', b'{"Version":"","Sid":"s","Answer":"x"}',
             b'{"Version":"1","Sid":"s","Answer":"{}"}', b'{"Version":1.0,"Sid":"s","Answer":"x"}', b'{"Sid":"s","Answer":"x"}',
             b'{"Version":"1.0","Sid":"s","Answer":{"type":"answer","sdp":"x"}}',
             b'{"answer":"null"}', b'{"answer":null}', b'{"answer":7}', b'{"answer":""}', b'{"error":"no proxies"}', b'{"answer":"x","error":"y"}', b'{"error":7}',
             b'{"Answer":"{}","Error":""}', b'{"answer":{"type":"answer","sdp":"x"}}', b'{"answer":"{\\"type\\":\\"answer\\",\\"sdp\\":5}"}']


def callers_part(ctx, pexe, cexe, pbatch, cbatch):
    rng = ctx.rng
    thorough = ctx.tier == "thorough"
    ctx.assumptions += ["callers: model = coq/Model/SessDescCallers.v; the outer decoders of common/messages and pion's SetRemoteDescription are boundaries "
                        "(the driver reports what the outer decoder returned; descriptions pion would accept completely are not generated: the callers "
                        "would then wait 10-20 s for a data channel)",
                        "a panic on the goroutine that runs the caller is the observable `!panic`; a panic on any other goroutine kills the driver and is "
                        "reported as a driver crash at that case"]
    inner = hostile_inner(rng)

    def phase1(exe, site, bodies):
        """bodies: list of lists of body bytes -> the outer token of every case, or None"""
        pl = ["sessdesc cparse %s %s" % (site, ";".join(hx(b) for b in bs) if bs else "-") for bs in bodies]
        rc, res, err = vlib.run_impl(exe, pl, args=C13_ARGS)
        if rc != 0 or len(res) != len(pl):
            raise RuntimeError("cparse %s failed: rc=%s %s" % (site, rc, err[-400:]))
        return res

    def sample(items, n):
        items = list(items)
        if len(items) <= n:
            return items
        # keep one of every kind, fill up at random
        first, rest, seen = [], [], set()
        for it in items:
            (first if it[0] not in seen else rest).append(it)
            seen.add(it[0])
        rng.shuffle(rest)
        return (first + rest)[:max(n, len(first))]

    # ---- proxy: NAT probe answer (the probe server controls the whole body)
    np_bodies = [("wrapped:" + k, wrap("natprobe", t)) for k, t in inner] + [("raw-outer", b) for b in RAW_OUTER]
    np_bodies = [(k, b) for k, b in np_bodies if b is not None]
    np_bodies = sample(np_bodies, 90 if not thorough else 600)
    toks = phase1(pexe, "natprobe", [[b] for _, b in np_bodies])
    lines = ["sessdesc natprobe %s %s" % (tk, hx(b)) for (k, b), tk in zip(np_bodies, toks)] + ["sessdesc natprobe p x"]
    kinds = ["natprobe:" + k.split(",")[0] for k, _ in np_bodies] + ["natprobe:exchange-fails"]
    pbatch.extend(lines, kinds)

    # ---- proxy: pollOffer (every inner text; scripts of several answers) and runSession
    po = [("wrapped:" + k, [wrap("polloffer", t)]) for k, t in inner] + [("raw-outer", [b]) for b in RAW_OUTER]
    po = [(k, bs) for k, bs in po if bs[0] is not None]
    nomatch = b'{"Status":"no match"}'
    multi = [("script:no-match-then-hostile", [nomatch, wrap("polloffer", b'{"type":1,"sdp":"x"}')])]
    if thorough:
        multi += [("script:no-match-then-bad", [nomatch, b"null"]), ("script:two-no-match-then-offer", [nomatch, nomatch, wrap("polloffer", b'{"type":"offer","sdp":"x"}')])]
    po += multi
    toks = phase1(pexe, "polloffer", [bs for _, bs in po])
    lines = ["sessdesc polloffer %s %s" % (tk, ";".join(hx(b) for b in bs)) for (k, bs), tk in zip(po, toks)] + ["sessdesc polloffer - -"]
    kinds = ["polloffer:" + k.split(",")[0] for k, _ in po] + ["polloffer:shutdown"]
    pbatch.extend(lines, kinds)

    rs = [(k, bs, "1") for k, bs in sample([x for x in po if not x[0].startswith("script:")], 160 if not thorough else 1200)]
    rs += [("relay-rejected:" + k, [wrap("polloffer", t, relay="ws://relay.example/")], "0") for k, t in sample(inner, 25) if wrap("polloffer", t) is not None]
    toks = phase1(pexe, "polloffer", [bs for _, bs, _ in rs])
    lines = ["sessdesc runsession %s %s %s" % (tk, ok, ";".join(hx(b) for b in bs)) for (k, bs, ok), tk in zip(rs, toks)]
    kinds = ["runsession:" + k.split(",")[0] for k, _, _ in rs]
    pbatch.extend(lines, kinds)

    # ---- client: Negotiate (every inner text) and connect
    ng = [("wrapped:" + k, wrap("negotiate", t)) for k, t in inner] + [("raw-outer", b) for b in RAW_OUTER]
    ng = [(k, b) for k, b in ng if b is not None]
    toks = phase1(cexe, "negotiate", [[b] for _, b in ng])
    lines = ["sessdesc negotiate %s %s" % (tk, hx(b)) for (k, b), tk in zip(ng, toks)] + ["sessdesc negotiate x x"]
    kinds = ["negotiate:" + k.split(",")[0] for k, _ in ng] + ["negotiate:exchange-fails"]
    cbatch.extend(lines, kinds)

    cn = sample(ng, 90 if not thorough else 600)
    toks = phase1(cexe, "negotiate", [[b] for _, b in cn])
    lines = ["sessdesc connect %s %s" % (tk, hx(b)) for (k, b), tk in zip(cn, toks)] + ["sessdesc connect x x"]
    kinds = ["connect:" + k.split(",")[0] for k, _ in cn] + ["connect:exchange-fails"]
    cbatch.extend(lines, kinds)


CALLER = {"natprobe": ("natprobe", "proxy checkNATType (answer of the NAT probe server)"),
          "polloffer": ("polloffer", "proxy pollOffer (offer relayed by the broker)"),
          "runsession": ("polloffer", "proxy runSession (offer relayed by the broker)"),
          "negotiate": ("negotiate", "client Negotiate (answer relayed by the broker)"),
          "connect": ("negotiate", "client connect (answer relayed by the broker)")}


def caller_body(a):
    try:
        return b" | ".join(bytes.fromhex(x[1:]) for x in a[-1].split(";") if x not in ("-", "x"))[:300]
    except ValueError:
        return a[-1][:200]


def caller_prop(line, impl, model):
    a = line.split(" ")
    name, what = CALLER[a[1]]
    if impl.startswith("!panic") or impl in ("!died", "!hang"):
        how = {"!died": "terminated the process (panic outside the calling goroutine, or exit)", "!hang": "hangs"}.get(impl, "panicked")
        return "%s %s on a message a remote party can send: %r (%s)" % (what, how, caller_body(a), impl[:160])
    if impl == "!nilnil":
        return "%s returned neither a description nor an error on %r: its caller dereferences the result" % (what, caller_body(a))
    if impl == "!description-and-error":
        return "%s returned a description together with an error on %r" % (what, caller_body(a))
    return None


def caller_key(line, impl, model):
    return CALLER[line.split(" ")[1]][0] + "-caller-panic"


IGNORED_LAST = ("deser", "deser0", "peer", "peerg", "natprobe", "polloffer", "runsession", "negotiate", "connect")


def crosscheck_once(ctx, pools, n):
    """one in-Coq (vm_compute) cross-check of the extracted runner over a sample of all case lines of the run; for
    ops whose last argument is only read by the Go driver (the text / body itself) it is replaced by x00 so that
    long cases qualify too - the model output cannot depend on it (see `run` in coq/Run/S*Run.v)"""
    pairs = []
    for lines, model in pools:
        for l, m in zip(lines, model):
            a = l.split(" ")
            if a[1] in IGNORED_LAST:
                l = " ".join(a[:-1] + ["x00"])
            if len(l) < 400 and len(m) < 2000 and not m.startswith("!"):
                pairs.append((l, m))
    ctx.rng.shuffle(pairs)
    byop = {}
    for l, m in pairs:
        byop.setdefault(l.split(" ")[1], []).append((l, m))
    sample = []
    while len(sample) < n and any(byop.values()):
        for op in sorted(byop):
            if byop[op] and len(sample) < n:
                sample.append(byop[op].pop())
    if sample:
        bad = vlib.coq_crosscheck(sample)
        ctx.extra["vm_compute_crosschecked"] = ctx.extra.get("vm_compute_crosschecked", 0) + len(sample)
        for i in bad:
            ctx.not_shown("extraction cross-check: vm_compute and extracted runner differ on `%s`" % sample[i][0][:300])


def robust_run(ctx, exe, lines, args, label):
    """Run the driver on `lines`; returns (path of a file with one result line per case, notes).  When the driver
    process dies - the code under test panicked on a goroutine other than the one that runs the case, or exited -
    the results it had buffered are lost with it; the cases are then run again in blocks, and the cases of every
    block that dies one process each, so that exactly the cases that kill the process get the observable `!died`
    and every other case keeps its real result."""
    import os, tempfile
    rc, res, err = vlib.run_impl(exe, lines, args=args)
    if rc != 0 or len(res) != len(lines):
        res = []
        step = 64
        for i in range(0, len(lines), step):
            chunk = lines[i:i + step]
            rc, r, err = vlib.run_impl(exe, chunk, args=args)
            if rc == 0 and len(r) == len(chunk):
                res += r
                continue
            died = 0
            for l in chunk:
                rc1, r1, e1 = vlib.run_impl(exe, [l], args=args)
                if rc1 == 0 and len(r1) == 1:
                    res.append(r1[0])
                else:
                    died += 1
                    res.append("!died")
                    if died == 1:
                        tail = " | ".join(x.strip() for x in e1.split("\n") if x.startswith(("panic:", "fatal error:", "[signal")))[:400]
                        ctx.extra.setdefault("driver_process_exits", []).append("%s: status %s on `%s`: %s" % (label, rc1, l[:160], tail or e1[-200:]))
            if not died:
                ctx.not_shown("%s: the driver died in cases %d..%d but on none of them alone (state carried over between cases)" % (label, i, i + len(chunk) - 1))
    os.makedirs(vlib.TMP, exist_ok=True)
    fd, path = tempfile.mkstemp(prefix="c13res_", dir=vlib.TMP)
    with os.fdopen(fd, "w") as f:
        f.write("\n".join(res) + "\n")
    return path


def correspond_robust(ctx, exe, lines, kinds, args, label, prop, key_of):
    """ctx.correspond on results obtained with robust_run (`cat <file>` stands in for the driver)"""
    import os
    path = robust_run(ctx, exe, lines, args, label)
    try:
        return ctx.correspond("/bin/cat", lines, kinds, label=label, prop=prop, key_of=key_of, impl_args=[path], crosscheck=0)
    finally:
        os.remove(path)


class Batch:
    """case lines of several ops for one driver binary: one model run, one driver run, one in-Coq cross-check"""
    def __init__(self):
        self.lines, self.kinds = [], []

    def add(self, line, kind):
        self.lines.append(line); self.kinds.append(kind)

    def extend(self, lines, kinds):
        self.lines += lines; self.kinds += kinds


def any_prop(line, impl, model):
    op = line.split(" ")[1]
    return (peer_prop if op in ("peer", "peerg") else caller_prop)(line, impl, model)


def any_key(line, impl, model):
    op = line.split(" ")[1]
    return (peer_key if op in ("peer", "peerg") else caller_key)(line, impl, model)


def run(ctx):
    exe = vlib.go_build("./zz_verif/sessdesc")
    ctx.trusted += ["encoding/json text<->value (the driver reports the value Go's decoder sees, duplicates and order kept; "
                    "the model starts from that value)",
                    "round-trip at text level assumes json.Unmarshal(json.Marshal(v)) = v for valid UTF-8 strings (Section hypothesis in C13_roundtrip_text)"]
    ctx.assumptions += ["model = coq/Model/SessDesc.v (hand written) of util.Serialize/DeserializeSessionDescription",
                        "SDP strings that are not valid UTF-8 are changed by encoding/json (U+FFFD); the round-trip claim is for valid UTF-8 text",
                        "remoteIPFromSDP (proxy/lib) is modelled over the parsed SDP (coq/Model/SdpStrip.v remote_ip): pion/sdp, pion/ice, net.ParseIP "
                        "and the two c= regular expressions are library boundary (driver reports what they yield); their panic freedom is observed, not proved"]
    lines, kinds = gen(ctx, exe)
    model, _ = ctx.correspond(exe, lines, kinds, label="sessdesc", prop=prop, key_of=key_of, crosscheck=0)
    pools = [(lines, model)]
    invalid_utf8_monitor(ctx, exe)
    pexe = vlib.go_test_build("./proxy/lib", name="proxy_lib_c08c13.test")
    cexe = vlib.go_test_build("./client/lib", name="client_lib_c08c13.test")
    pbatch, cbatch = Batch(), Batch()
    texts = peer_part(ctx, pexe, pbatch)
    peerg_part(ctx, pexe, texts, pbatch)
    callers_part(ctx, pexe, cexe, pbatch, cbatch)
    model, impl = correspond_robust(ctx, pexe, pbatch.lines, pbatch.kinds, C13_ARGS, "proxy/lib", any_prop, any_key)
    pools.append((pbatch.lines, model))
    pa = [r for l, r in zip(pbatch.lines, impl) if l.startswith("sdpstrip peer ")]
    ctx.extra["peer_address_results"] = {"nil": sum(1 for r in pa if r == "nil"), "address": sum(1 for r in pa if r.startswith("x")),
                                         "from_candidate_or_conn_line": "both paths generated (candidates removed from half of the grammar texts)"}
    model, _ = correspond_robust(ctx, cexe, cbatch.lines, cbatch.kinds, C13_ARGS, "client/lib", any_prop, any_key)
    pools.append((cbatch.lines, model))
    crosscheck_once(ctx, pools, 90)


def replay(ctx, doc):
    exe = vlib.go_build("./zz_verif/sessdesc")
    bad = 0
    for v in doc.get("violations", []):
        case = v["replay"].get("case")
        if not case:
            continue
        if case.split(" ")[1] in ("peerg", "peergparse") or (case.startswith("sessdesc ") and case.split(" ")[1] in CALLER):
            a = case.split(" ")
            which = "./client/lib" if a[1] in ("negotiate", "connect") else "./proxy/lib"
            xexe = vlib.go_test_build(which, name=("client" if "client" in which else "proxy") + "_lib_c08c13.test")
            if a[1] == "peergparse":
                rc, r, err = vlib.run_impl(xexe, [case], args=C13_ARGS)
                case = "sdpstrip peerg %s %s" % (r[0], a[2]) if r and not r[0].startswith("!") else case
            m = vlib.run_model([case])[0] if " peergparse " not in case else "?"
            rc, r, err = vlib.run_impl(xexe, [case], args=C13_ARGS)
            r = r[0] if r else "!died"
            p = (peer_prop if a[0] == "sdpstrip" else caller_prop)(case, r, m)
            print("case: %s\n model: %s\n impl:  %s\n property: %s" % (case[:400], m, r[:300], p or "holds"))
            bad += 1 if p else 0
            continue
        if case.startswith("sdpstrip peer "):
            pexe = vlib.go_test_build("./proxy/lib", name="proxy_lib_c08c13.test")
            m = vlib.run_model([case])[0]
            rc, r, err = vlib.run_impl(pexe, [case], args=C13_ARGS)
            r = r[0] if r else "!died"
            p = peer_prop(case, r, m)
            print("case: %s\n model: %s\n impl:  %s\n property: %s" % (case[:300], m, r, p or "holds"))
            bad += 1 if p else 0
            continue
        m = vlib.run_model([case])[0]
        m0 = vlib.run_model([case.replace(" deser ", " deser0 ", 1)])[0] if " deser " in case else None
        rc, r, err = vlib.run_impl(exe, [case])
        r = r[0] if r else "!died"
        p = prop(case, r, m)
        print("case: %s\n input: %s\n model (repaired): %s\n model (pinned v0): %s\n impl:  %s\n property: %s" % (
            case[:300], describe(case.split(" ")), m[:300], m0, r[:300], p or "holds"))
        bad += 1 if p else 0
    return 1 if bad else 0
