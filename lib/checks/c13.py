"""C13 — untrusted session descriptions cannot crash client or proxy
(common/util SerializeSessionDescription / DeserializeSessionDescription; proxy/lib remoteIPFromSDP)."""
import json
import vlib

AREA = "sessdesc"
TYPES = ["offer", "pranswer", "answer", "rollback"]

SDP_SAMPLE = ("v=0\r\no=- 4358805017720277108 2 IN IP4 127.0.0.1\r\ns=-\r\nt=0 0\r\na=group:BUNDLE 0\r\n"
              "m=application 9 UDP/DTLS/SCTP webrtc-datachannel\r\nc=IN IP4 0.0.0.0\r\n"
              "a=candidate:3769337065 1 udp 2122260223 192.0.2.7 56688 typ host generation 0\r\n"
              "a=ice-ufrag:aMAZ\r\na=ice-pwd:jcHb08Jjgrazp2dzjdrvPPvV\r\na=setup:actpass\r\na=mid:0\r\na=sctp-port:5000\r\n")


def hx(b):
    if isinstance(b, str):
        b = b.encode("utf-8")
    return "x" + b.hex()


# ------------------------------------------------------------------ value tokens (see coq/Run/SessdescRun.v)

def tok_parse(tok):
    """value token -> python structure: ('n',), ('b',bool), ('d',bytes), ('s',bytes), ('a',[..]), ('o',[(key,val)..])"""
    if tok == "invalid":
        return None
    atoms = tok.split(",")
    pos = [0]

    def val():
        a = atoms[pos[0]]
        pos[0] += 1
        c = a[0]
        if c == "n":
            return ("n",)
        if c in "tf":
            return ("b", c == "t")
        if c in "ds":
            return (c, bytes.fromhex(a[1:]))
        if c == "a":
            return ("a", [val() for _ in range(int(a[1:]))])
        if c == "o":
            out = []
            for _ in range(int(a[1:])):
                k = atoms[pos[0]]
                pos[0] += 1
                out.append((bytes.fromhex(k[1:]), val()))
            return ("o", out)
        raise ValueError(a)
    return val()


def member_kinds(tok):
    """(kind of the effective "type" member, kind of the effective "sdp" member) or None if not an object"""
    v = tok_parse(tok)
    if v is None or v[0] != "o":
        return None
    t = s = None
    for k, x in v[1]:
        if k == b"type":
            t = x
        if k == b"sdp":
            s = x
    return (t[0] if t else None, s[0] if s else None)


# ------------------------------------------------------------------ property on the implementation's answer

def prop(line, impl, model):
    a = line.split(" ")
    op = a[1]
    if impl.startswith("!panic") or impl == "!died":
        return "DeserializeSessionDescription panicked on a message a remote party can send (%s)" % describe(a)
    if impl.startswith("!nil"):
        return "DeserializeSessionDescription returned neither a description nor an error"
    if op == "rt" and a[2] in TYPES:
        want = "ok %s %s" % (a[2], "x" + expand(a[3]))
        if impl != want:
            return "serialise-then-deserialise does not give back the description (type %s): got %s" % (a[2], impl[:120])
    return None


def expand(spec):
    if spec[0] == "x":
        return spec[1:]
    n, s = spec[1:].split(".")
    return "".join("%02x" % ((int(s) + i) & 255) for i in range(int(n)))


def describe(a):
    if a[1] in ("deser", "deser0"):
        try:
            return "text %r" % bytes.fromhex(a[3][1:])[:200]
        except Exception:
            return a[3][:200]
    return " ".join(a[1:])[:200]


def key_of(line, impl, model):
    a = line.split(" ")
    if a[1] == "deser" and impl.startswith("!panic"):
        mk = member_kinds(a[2])
        if mk and ((mk[0] is not None and mk[0] != "s") or (mk[1] is not None and mk[1] != "s")):
            return "deserialize-nonstring-member"
        return "deserialize-panic"
    if a[1] == "rt":
        return "roundtrip" if not impl.startswith("!panic") else "roundtrip-panic"
    return a[1]


# ------------------------------------------------------------------ generators

def js(s):
    return json.dumps(s)


TYPE_VALUES = [  # (label, json text)
    ("offer", '"offer"'), ("pranswer", '"pranswer"'), ("answer", '"answer"'), ("rollback", '"rollback"'),
    ("unknown-name", '"unknown"'), ("case-variant", '"Offer"'), ("upper", '"ANSWER"'), ("empty-string", '""'),
    ("padded", '" offer"'), ("escaped-offer", '"\\u006fffer"'), ("nul-suffix", '"offer\\u0000"'),
    ("number", "1"), ("float", "1.5e3"), ("true", "true"), ("false", "false"), ("null", "null"),
    ("array", '["offer"]'), ("empty-array", "[]"), ("object", '{"type":"offer"}'), ("empty-object", "{}"),
]
SDP_VALUES = [
    ("string", '"x"'), ("empty-string", '""'), ("sdp-text", js(SDP_SAMPLE)), ("unicode", '"\\u00e9\\ud83d\\ude00 \u00e9"'),
    ("lone-surrogate", '"\\ud800"'), ("number", "0"), ("big-number", "1e999"), ("true", "true"), ("null", "null"),
    ("array", '["v=0"]'), ("object", '{"sdp":"x"}'), ("nested-deep", "[" * 40 + "]" * 40),
]


def structured(rng):
    out = []
    # full cross product of member kinds, plus each member missing
    for tl, tv in TYPE_VALUES + [("missing", None)]:
        for sl, sv in SDP_VALUES + [("missing", None)]:
            mem = []
            if tv is not None:
                mem.append('"type":' + tv)
            if sv is not None:
                mem.append('"sdp":' + sv)
            if rng.random() < 0.5:
                mem.reverse()
            if rng.random() < 0.3:
                mem.insert(rng.randrange(len(mem) + 1), '"extra":' + rng.choice(['1', '"y"', '{"type":1}', 'null']))
            out.append(("type=%s,sdp=%s" % (kind_class(tl), kind_class(sl)), "{" + ",".join(mem) + "}"))
    # duplicates: the last one counts
    for first, second in [('"offer"', "1"), ("1", '"offer"'), ('"answer"', "null"), ("null", '"answer"'), ('"bogus"', '"offer"')]:
        out.append(("dup-type", '{"type":%s,"type":%s,"sdp":"x"}' % (first, second)))
        out.append(("dup-type", '{"type":%s,"sdp":"x","type":%s}' % (first, second)))
    for first, second in [('"a"', "1"), ("1", '"a"'), ('"a"', "null"), ("[]", '"b"'), ('"a"', '"b"')]:
        out.append(("dup-sdp", '{"sdp":%s,"type":"offer","sdp":%s}' % (first, second)))
    # key spelling: map lookup is exact, no case folding
    for kt, ks in [("Type", "sdp"), ("type", "SDP"), ("TYPE", "Sdp"), ("type ", "sdp"), ("typ", "sd"), ("\\u0074ype", "\\u0073dp"),
                   ("type", "s\\u0064p"), ("t\u0443pe", "sdp"), ("", "")]:
        for tv in ['"offer"', "1"]:
            out.append(("key-variant", '{"%s":%s,"%s":"x"}' % (kt, tv, ks)))
            out.append(("key-variant", '{"%s":%s,"%s":7,"type":"answer","sdp":"y"}' % (kt, tv, ks)))
    # top level values that are not objects
    for t in ["null", "true", "false", "0", "-1.5", '"offer"', '""', "[]", '[{"type":"offer","sdp":"x"}]', '["type","sdp"]',
              " null ", "\tnull\n", "{}", " { } ", '{"type":"offer","sdp":"x"}\n', '\r\n {"sdp" : "x" , "type" : "rollback" } ']:
        out.append(("top-level", t))
    return out


def kind_class(label):
    if label in TYPES:
        return "valid-name"
    if label in ("unknown-name", "case-variant", "upper", "empty-string", "padded", "nul-suffix", "string", "sdp-text", "unicode",
                 "lone-surrogate", "escaped-offer"):
        return "string"
    if label in ("number", "float", "big-number"):
        return "number"
    if label in ("true", "false"):
        return "bool"
    if label in ("array", "empty-array", "nested-deep"):
        return "array"
    if label in ("object", "empty-object"):
        return "object"
    return label


def malformed(rng, n):
    out = []
    fixed = [b"", b" ", b"{", b"}", b"[", b"{\"type\"", b"{\"type\":", b"{\"type\":\"offer\"", b"{\"type\":\"offer\",}",
             b"{\"type\":\"offer\",\"sdp\":\"x\"} x", b"{\"type\":\"offer\",\"sdp\":\"x\"}{}", b"{'type':'offer','sdp':'x'}",
             b"{type:\"offer\",sdp:\"x\"}", b"\xef\xbb\xbf{\"type\":\"offer\",\"sdp\":\"x\"}", b"{\"type\":NaN,\"sdp\":\"x\"}",
             b"{\"type\":\"offer\",\"sdp\":\"x\"}\x00", b"\x00", b"\xff\xfe", b"nul", b"NULL", b"{\"type\":\"offer\",\"sdp\":\"\xff\"}",
             b"{\"type\":\"off\xc3er\",\"sdp\":\"x\"}", b"{\"type\":\"offer\",\"sdp\":\"a\nb\"}", b"{\"type\":01,\"sdp\":\"x\"}",
             b"{\"type\":\"offer\" \"sdp\":\"x\"}", b"// c\n{}", b"{\"type\":\"offer\",\"sdp\":\"\\x\"}", b"{\"type\":\"\\ud83d\",\"sdp\":\"\\ude00\"}",
             SDP_SAMPLE.encode(), b"v=0", b"a=candidate:1 1 udp 1 10.0.0.1 1 typ host", b"{\"\xff\":1,\"type\":2,\"sdp\":3}",
             b"{\"type\":\"offer\",\"sdp\":\"x\",\"type\":}", b"[" * 60, b"{\"a\":" * 30 + b"1" + b"}" * 30]
    for f in fixed:
        out.append(("non-json-fixed", f))
    seeds = [b'{"type":"offer","sdp":"x"}', b'{"type":1,"sdp":"x"}', b'{"sdp":null,"type":"answer"}',
             ('{"type":"answer","sdp":%s}' % js(SDP_SAMPLE)).encode(), b'{"type":"rollback","sdp":""}']
    alphabet = b'{}[]":,\\ntfu0123456789e.-+ \x00\xff' + b"typesdpofferanswer"
    for _ in range(n):
        s = bytearray(rng.choice(seeds))
        r = rng.random()
        if r < 0.25:    # truncate
            out.append(("mut-truncate", bytes(s[:rng.randrange(len(s) + 1)])))
        elif r < 0.6:   # substitute 1-3 bytes
            for _ in range(rng.randrange(1, 4)):
                s[rng.randrange(len(s))] = rng.choice(alphabet)
            out.append(("mut-substitute", bytes(s)))
        elif r < 0.8:   # delete / insert
            i = rng.randrange(len(s))
            if rng.random() < 0.5:
                del s[i]
            else:
                s.insert(i, rng.choice(alphabet))
            out.append(("mut-indel", bytes(s)))
        else:
            out.append(("random-bytes", bytes(rng.choice(alphabet) for _ in range(rng.randrange(0, 24)))))
    return out


def random_values(rng, n):
    """random JSON documents built from a value grammar (objects biased to contain type/sdp)"""
    def val(d):
        r = rng.random()
        if d > 2 or r < 0.35:
            return rng.choice(['"offer"', '"answer"', '"x"', '""', "0", "-2", "3.25", "true", "false", "null", '"pranswer"', '"rollback"'])
        if r < 0.55:
            return "[" + ",".join(val(d + 1) for _ in range(rng.randrange(0, 3))) + "]"
        keys = ['"type"', '"sdp"', '"type"', '"sdp"', '"Type"', '"x"', '""']
        return "{" + ",".join("%s:%s" % (rng.choice(keys), val(d + 1)) for _ in range(rng.randrange(0, 5))) + "}"
    return [("random-value", val(0)) for _ in range(n)]


RT_SDPS = [b"", b"x", SDP_SAMPLE.encode(), b"\"quoted\" back\\slash", b"<script>&amp;</script>", b"\x00\x01\x1f\x7f",
           "line\u2028sep\u2029 \u00e9 \U0001f600".encode(), b"\r\n\t\b\f", b"{\"type\":\"offer\",\"sdp\":\"x\"}", b"null", b"\\u0041",
           "\ufffd".encode(), b"a=candidate:1 1 udp 1 10.0.0.1 1 typ host\r\n" * 50]


def gen(ctx, exe):
    rng = ctx.rng
    thorough = ctx.tier == "thorough"
    texts = [(k, t.encode("utf-8", "surrogatepass") if isinstance(t, str) else t) for k, t in structured(rng)]
    texts += malformed(rng, 600 if not thorough else 8000)
    texts += [(k, t.encode()) for k, t in random_values(rng, 400 if not thorough else 6000)]
    # phase 1: how encoding/json reads each text (library boundary)
    jl = ["%s jparse %s" % (AREA, hx(t)) for _, t in texts]
    rc, vals, err = vlib.run_impl(exe, jl)
    if rc != 0 or len(vals) != len(jl):
        raise RuntimeError("jparse phase failed: rc=%s %s" % (rc, err[-400:]))
    lines, kinds = [], []
    for (k, t), v in zip(texts, vals):
        lines.append("%s deser %s %s" % (AREA, v, hx(t)))
        kinds.append("deser:" + k)
    ctx.extra["json_valid_texts"] = sum(1 for v in vals if v != "invalid")
    ctx.extra["json_invalid_texts"] = sum(1 for v in vals if v == "invalid")
    # round trips
    for t in TYPES + ["other"]:
        for s in RT_SDPS:
            lines.append("%s rt %s %s" % (AREA, t, hx(s))); kinds.append("rt:" + t)
            lines.append("%s ser %s %s" % (AREA, t, hx(s))); kinds.append("ser:" + t)
    for _ in range(150 if not thorough else 2000):
        n = rng.choice([0, 1, 2, 5, 17, 100, 1000])
        s = "".join(rng.choice(["a", "\"", "\\", "\n", "\r", " ", "=", "\u00e9", "\u4e2d", "\U0001f600", "\x00", "<", "\u2028", "/"]) for _ in range(n))
        t = rng.choice(TYPES)
        lines.append("%s rt %s %s" % (AREA, t, hx(s))); kinds.append("rt:" + t)
    return lines, kinds


def invalid_utf8_monitor(ctx, exe):
    """SDP strings that are not valid UTF-8 are outside the round-trip theorem (encoding/json replaces each
    offending byte by U+FFFD); they are still run: no panic, and a description comes back."""
    rng = ctx.rng
    lines = []
    for _ in range(60):
        s = bytes(rng.choice([0x61, 0x80, 0xff, 0xc3, 0xe2, 0x28, 0xf0, 0x9f, 0xed, 0xa0]) for _ in range(rng.randrange(1, 12)))
        lines.append("%s rt %s %s" % (AREA, rng.choice(TYPES), hx(s)))
    rc, res, err = vlib.run_impl(exe, lines)
    changed = 0
    for l, r in zip(lines, res + ["!died"] * (len(lines) - len(res))):
        ctx.count(l, kind="rt-invalid-utf8(monitor)")
        if not r.startswith("ok "):
            ctx.violation("roundtrip-invalid-utf8", "round trip of a non-UTF-8 SDP string did not return a description: " + r[:100],
                          dict(label="invalid-utf8", case=l, impl=r))
        elif r.split(" ")[2] != l.split(" ")[3]:
            changed += 1
    ctx.extra["invalid_utf8_roundtrips_changed_by_encoding_json"] = "%d of %d" % (changed, len(lines))


PEER_ARGS = ["-test.run", "^TestVerifPeerDriver$", "-verif.peer"]


def peer_prop(line, impl, model):
    from checks import c08
    if impl.startswith("!panic") or impl == "!died":
        return "remoteIPFromSDP panicked on an SDP text a client can send"
    if impl.startswith("x"):
        b = bytes.fromhex(impl[1:])
        if len(b) not in (4, 16):
            return "remoteIPFromSDP returned a %d-byte address" % len(b)
        if c08.bad_bytes(b):
            return "remoteIPFromSDP returned %s, which is a local / unspecified / loopback address" % c08.show_ip(b)
    elif impl != "nil":
        return "unexpected driver answer " + impl[:80]
    return None


def peer_key(line, impl, model):
    return "peer-address-panic" if impl.startswith("!panic") else "peer-address"


def peer_texts(ctx):
    """SDP texts for remoteIPFromSDP: the C08 grammar with the c= lines varied, malformed and non-SDP texts"""
    from checks import c08
    rng = ctx.rng
    thorough = ctx.tier == "thorough"
    stats = {}
    out = []

    def vary_conn(t):
        lines = t.split("\r\n")
        for i, l in enumerate(lines):
            if l.startswith("c=") and rng.random() < 0.8:
                r = rng.random()
                if r < 0.45:
                    a = rng.choice(c08.V4_POOL)
                    lines[i] = "c=IN IP4 " + a + rng.choice(["", "", "/127", "/127/3"])
                elif r < 0.8:
                    lines[i] = "c=IN IP6 " + rng.choice(c08.V6_POOL) + rng.choice(["", "", "/3"])
                elif r < 0.9:
                    lines[i] = "c=IN IP4 " + rng.choice(c08.spellings(rng, rng.choice(c08.V4_POOL)))
                else:
                    lines[i] = rng.choice(["c=IN IP4 ", "c=IN IP4 999.1.1.1", "c=IN IP6 fd00:::1", "c=IN IP4 8.8.8.8 ", "c=IN IP4 1.2.3.4x", "c=IN IP7 1.2.3.4",
                                           "c=IN IP6 2001:db8::1 x", "c=IN IP4 10.0.0.1:5", "c=IN IP4 0x8.8.8.8"])
        return "\r\n".join(lines)

    for i in range(500 if not thorough else 6000):
        t = c08.gen_sdp(rng, stats, malformed=(i % 4 == 0))
        if rng.random() < 0.5:   # no usable candidate: the c= fallback decides
            t = "\r\n".join(l for l in t.split("\r\n") if not l.startswith("a=candidate:") or rng.random() < 0.15)
        out.append(("grammar", vary_conn(t).encode()))
    base = c08.gen_sdp(rng, stats).encode()
    for _ in range(250 if not thorough else 3000):
        if rng.random() < 0.1:
            base = vary_conn(c08.gen_sdp(rng, stats, malformed=rng.random() < 0.3)).encode()
        out.append(("non-sdp/mutated", c08.non_sdp(rng, base)))
    for t in [b"c=IN IP4 8.8.8.8\r\n", b"c=IN IP4 8.8.8.8", b"x\nc=IN IP6 2001:db8::1\n", b"c=IN IP4 10.0.0.1\r\nc=IN IP4 8.8.8.8\r\n",
              b"v=0\r\no=- 1 2 IN IP4 127.0.0.1\r\ns=-\r\nc=IN IP4 203.0.113.9\r\nt=0 0\r\n",
              b"v=0\r\no=- 1 2 IN IP4 127.0.0.1\r\ns=-\r\nc=IN IP4 192.168.0.9\r\nt=0 0\r\nm=audio 9 RTP/AVP 0\r\nc=IN IP6 2001:db8::7\r\n"]:
        out.append(("conn-line-only", t))
    return out


def peer_part(ctx):
    """remoteIPFromSDP (proxy/lib, unexported): in-package driver through the compiled test binary"""
    exe = vlib.go_test_build("./proxy/lib", name="proxy_lib_sessdesc.test")
    texts = peer_texts(ctx)
    pl = ["sdpstrip peerparse %s" % hx(t) for _, t in texts]
    rc, res, err = vlib.run_impl(exe, pl, args=PEER_ARGS)
    if rc != 0 or len(res) != len(pl):
        raise RuntimeError("peerparse phase failed: rc=%s %s" % (rc, err[-400:]))
    lines, kinds = [], []
    for (k, t), r in zip(texts, res):
        st, caps = r.split(" ")
        lines.append("sdpstrip peer %s %s %s" % (st, caps, hx(t)))
        kinds.append("peer:" + k + (":unparsable" if st == "U" else ""))
    model, impl = ctx.correspond(exe, lines, kinds, label="peer-address", prop=peer_prop, key_of=peer_key, impl_args=PEER_ARGS, crosscheck=20)
    ctx.extra["peer_address_results"] = {"nil": sum(1 for r in impl if r == "nil"), "address": sum(1 for r in impl if r.startswith("x")),
                                         "from_candidate_or_conn_line": "both paths generated (candidates removed from half of the grammar texts)"}


def run(ctx):
    exe = vlib.go_build("./zz_verif/sessdesc")
    ctx.trusted += ["encoding/json text<->value (the driver reports the value Go's decoder sees, duplicates and order kept; "
                    "the model starts from that value)",
                    "round-trip at text level assumes json.Unmarshal(json.Marshal(v)) = v for valid UTF-8 strings (Section hypothesis in C13_roundtrip_text)"]
    ctx.assumptions += ["model = coq/Model/SessDesc.v (hand written) of util.Serialize/DeserializeSessionDescription",
                        "SDP strings that are not valid UTF-8 are changed by encoding/json (U+FFFD); the round-trip claim is for valid UTF-8 text",
                        "remoteIPFromSDP (proxy/lib) is modelled over the parsed SDP (coq/Model/SdpStrip.v remote_ip): pion/sdp, pion/ice, net.ParseIP "
                        "and the two c= regular expressions are library boundary (driver reports what they yield); their panic freedom is observed, not proved"]
    lines, kinds = gen(ctx, exe)
    ctx.correspond(exe, lines, kinds, label="sessdesc", prop=prop, key_of=key_of)
    invalid_utf8_monitor(ctx, exe)
    peer_part(ctx)


def replay(ctx, doc):
    exe = vlib.go_build("./zz_verif/sessdesc")
    bad = 0
    for v in doc.get("violations", []):
        case = v["replay"].get("case")
        if not case:
            continue
        if case.startswith("sdpstrip peer "):
            pexe = vlib.go_test_build("./proxy/lib", name="proxy_lib_sessdesc.test")
            m = vlib.run_model([case])[0]
            rc, r, err = vlib.run_impl(pexe, [case], args=PEER_ARGS)
            r = r[0] if r else "!died"
            p = peer_prop(case, r, m)
            print("case: %s\n model: %s\n impl:  %s\n property: %s" % (case[:300], m, r, p or "holds"))
            bad += 1 if p else 0
            continue
        m = vlib.run_model([case])[0]
        m0 = vlib.run_model([case.replace(" deser ", " deser0 ", 1)])[0] if " deser " in case else None
        rc, r, err = vlib.run_impl(exe, [case])
        r = r[0] if r else "!died"
        p = prop(case, r, m)
        print("case: %s\n input: %s\n model (repaired): %s\n model (pinned v0): %s\n impl:  %s\n property: %s" % (
            case[:300], describe(case.split(" ")), m[:300], m0, r[:300], p or "holds"))
        bad += 1 if p else 0
    return 1 if bad else 0
