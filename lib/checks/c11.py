"""C11 — rendezvous requests are faithfully encoded, fronted and bounded
(common/amp path + cache URL, client/lib rendezvous, broker AMP endpoint)."""
import base64
import itertools
import vlib

AREA = "amppath"
URLCH = "ABCDEFGHIJKLMNOPQRSTUVWXYZabcdefghijklmnopqrstuvwxyz0123456789-_"


def hx(b):
    return "x" + bytes(b).hex()


def b64u(data):
    return base64.urlsafe_b64encode(bytes(data)).rstrip(b"=")


def rand_data(rng, n=None):
    if n is None:
        n = rng.choice([0, 1, 2, 3, 4, 5, 6, 7, 8, 9, 31, 32, 33, rng.randrange(0, 80), rng.randrange(0, 400)])
    mode = rng.randrange(4)
    if mode == 0:
        return bytes(rng.randrange(256) for _ in range(n))
    if mode == 1:
        return bytes(rng.choice([0x00, 0xff, 0xfb, 0xfc, 0x3e, 0x3f, 0xf8, 0x7f, 0x80]) for _ in range(n))
    if mode == 2:  # looks like a poll message
        s = b'1.0\n{"offer":"' + bytes(rng.choice(b"abcdefv=0 \\\"/+") for _ in range(n)) + b'","nat":"unknown"}'
        return s
    return bytes((i * 7 + n) & 255 for i in range(n))


def rand_pad(rng):
    mode = rng.randrange(6)
    n = rng.choice([0, 1, 2, 11, 12, 13, rng.randrange(0, 30)])
    if mode == 0:
        return bytes(rng.choice(URLCH.encode()) for _ in range(12))
    if mode == 1:
        return bytes(rng.choice(URLCH.encode()) for _ in range(n))
    if mode == 2:  # extra slashes
        return bytes(rng.choice(b"/Aa0-_/") for _ in range(n))
    if mode == 3:  # anything at all
        return bytes(rng.randrange(256) for _ in range(n))
    if mode == 4:  # looks like another encoded path
        return b"0" + b64u(rand_data(rng, 5)) + b"/" + b64u(rand_data(rng, 4))
    return b"/" * n


# ------------------------------------------------------------------ path cases

def gen_path(ctx):
    rng = ctx.rng
    thorough = ctx.tier == "thorough"
    lines, kinds = [], []

    def add(l, k):
        lines.append(AREA + " " + l)
        kinds.append(k)

    # round trip through the implementation's own encoder (random cache breaker)
    for n in list(range(0, 70)) + [255, 256, 257, 1000, 4095, 4096, 4097] + ([20000, 99999, 100000, 100001] if thorough else [20000]):
        add("rt g%d.%d" % (n, rng.randrange(256)), "path-rt")
        add("encshape g%d.%d" % (n, rng.randrange(256)), "path-encshape")
    for _ in range(300 if not thorough else 3000):
        add("rt " + hx(rand_data(rng)), "path-rt")
    # the encoder on given cache-breaker bytes (crypto/rand's Reader hands out exactly these): every byte value in every
    # position class, the characters '-' and '_' in the padding, all-equal bytes
    cbs = [bytes([v] * 9) for v in (0, 1, 0x3e, 0x3f, 0x7f, 0x80, 0xfb, 0xfe, 0xff)] + [bytes(range(k, k + 9)) for k in range(0, 247, 19)]
    cbs += [bytes(rng.randrange(256) for _ in range(9)) for _ in range(60 if not thorough else 600)]
    cbs += [bytes(rng.choice([0xfb, 0xff, 0xef, 0xbe, 0xfa]) for _ in range(9)) for _ in range(20)]
    for cb in cbs:
        add("encwith %s %s" % (hx(cb), hx(rand_data(rng))), "path-enc-given-padding")
    # decode of "0" ++ arbitrary padding ++ "/" ++ b64url(data): must give data back
    for _ in range(1500 if not thorough else 15000):
        d = rand_data(rng)
        p = b"0" + rand_pad(rng) + b"/" + b64u(d)
        add("dec %s %s" % (hx(p), hx(d)), "path-dec-anypad")
    # base64url itself, all lengths mod 3, bytes covering every 6-bit value at every position
    for n in range(0, 40):
        for a in (0, 37, 128, 250):
            add("b64 g%d.%d" % (n, a), "b64url-enc")
    for v in range(64):
        for d in (bytes([v << 2, 0, 0]), bytes([0, 0, v]), bytes([(v >> 4), (v << 4) & 255, 0]), bytes([0, v >> 2, (v << 6) & 255])):
            add("b64 " + hx(d), "b64url-enc")
    # malformed stream
    bad_tails = [b"", b"A", b"AA", b"AAA", b"AAAA", b"AAAAA", b"AA==", b"AA=", b"A+BC", b"A/BC", b"AB CD", b"AB\nCD", b"AB\r\nCDE",
                 b"\n", b"\nA", b"A\n", b"AB\n", b"QUJD\n", b"QUJDRA", b"QUJDR", b"QUJDRA\r\n\r\n", b"-_-_", b"....", b"%41%41", b"AA\x00A",
                 b"AA\xffA", b"QQ", b"QR", b"QUI", b"QUJ", b"Q\nQ", b"=", b"AAAA=", b"AAAAAA=="]
    prefixes = [b"", b"0", b"1", b"00", b"/", b"0/", b"0//", b"00/", b"0AAAA/", b"0AAAA//", b"0/AAAA/", b"1AAAA/", b"\x000/", b" 0/", b"O/",
                b"0AAAA", b"0\n/", b"0AAAA/BBBB/"]
    for pre in prefixes:
        for t in bad_tails:
            add("dec %s -" % hx(pre + t), "path-malformed")
    for _ in range(600 if not thorough else 6000):
        n = rng.randrange(0, 14)
        p = bytes(rng.choice(b"00/AAQz-_=+\n\r. 1%") if rng.random() < 0.85 else rng.randrange(256) for _ in range(n))
        add("dec %s -" % hx(p), "path-malformed-random")
    # every path over a small alphabet up to length 4 (5 in the thorough tier)
    alpha = b"01/A-=\n"
    for n in range(0, 6 if thorough else 5):
        for t in itertools.product(alpha, repeat=n):
            add("dec %s -" % hx(bytes(t)), "path-exhaustive-small")
    return lines, kinds


def unhex(tok):
    return bytes.fromhex(tok[1:])


def prop(line, impl, model):
    """The property evaluated on the implementation's own answer (failing-input search)."""
    a = line.split(" ")
    op = a[1]
    if impl.startswith("!panic") or impl == "!died":
        return "implementation panicked/died: " + impl[:200]
    if op == "rt":
        want = "ok x" + expand(a[2])
        if impl != want:
            return "DecodePath(EncodePath(data)) is not data (got %s)" % impl[:80]
    elif op == "dec" and a[3] != "-":
        if impl != "ok " + a[3]:
            return "path \"0\"+padding+\"/\"+base64url(data) does not decode to data (got %s)" % impl[:80]
    elif op == "dec":
        # a path that is not "0" ++ anything ++ "/" ++ (valid base64url) must be an error
        p = unhex(a[2])
        ok = py_decode_path(p)
        if ok is None and impl.startswith("ok"):
            return "malformed path accepted: " + impl[:80]
        if ok is not None and impl != "ok " + hx(ok):
            return "well-formed path decoded to something else or refused: " + impl[:80]
    elif op == "encshape":
        f = impl.split(" ")
        if len(f) != 4 or f[0] != "x30" or f[2] != "1" or f[3] != hx(b64u(bytes.fromhex(expand(a[2])))):
            return "EncodePath output is not \"0\" + base64url padding + \"/\" + base64url(data): " + impl[:120]
    elif op == "encwith":
        cb, d = unhex(a[2]), bytes.fromhex(expand(a[3]))
        want = hx(b"0" + b64u(cb) + b"/" + b64u(d)) + " ok " + hx(d)
        if impl != want:
            return "EncodePath with cache breaker %s gave %s, not \"0\"+base64url(breaker)+\"/\"+base64url(data) decoding to data" % (cb.hex(), impl[:120])
    elif op == "b64":
        if impl != hx(b64u(bytes.fromhex(expand(a[2])))):
            return "base64.RawURLEncoding differs from RFC 4648 base64url without padding"
    return None


def py_decode_path(p):
    """independent statement of DecodePath's contract (Python), used only to look for failing inputs"""
    if len(p) < 1 or p[0:1] != b"0" or b"/" not in p[1:]:
        return None
    t = p[1:].rsplit(b"/", 1)[1].replace(b"\n", b"").replace(b"\r", b"")
    if any(c not in URLCH.encode() for c in t) or len(t) % 4 == 1:
        return None
    return base64.urlsafe_b64decode(t + b"A" * ((4 - len(t) % 4) % 4))[: len(t) * 3 // 4]


def expand(spec):
    if spec[0] == "x":
        return spec[1:]
    n, a = spec[1:].split(".")
    return "".join("%02x" % ((int(a) + i) & 255) for i in range(int(n)))


def key_of(line, impl, model):
    a = line.split(" ")
    op = a[1]
    if op in ("rt", "encshape", "b64", "encwith"):
        return "path-roundtrip"
    if op == "dec":
        return "path-roundtrip" if a[3] != "-" else "path-malformed"
    return op


def run_path(ctx):
    exe = vlib.go_build("./zz_verif/amppath")
    lines, kinds = gen_path(ctx)
    ll, lk = gen_libmodels(ctx)
    ctx.correspond(exe, lines + ll, kinds + lk, label="amp-path-and-library-models", crosscheck=40,
                   prop=lambda l, i, m: (prop_lib if l.split(" ")[1] in LIB_OPS else prop)(l, i, m),
                   key_of=lambda l, i, m: "library-model" if l.split(" ")[1] in LIB_OPS else key_of(l, i, m))
    # phase 2: the implementation's real encoder output (random padding) through both decoders
    rng = ctx.rng
    datas = [rand_data(rng) for _ in range(200 if ctx.tier == "quick" else 2000)]
    rc, raw, err = vlib.run_impl(exe, ["%s encraw %s" % (AREA, hx(d)) for d in datas])
    if rc != 0 or len(raw) != len(datas):
        ctx.not_shown("amp-path: encraw phase failed: " + err[-300:])
        return
    l2 = ["%s dec %s %s" % (AREA, r, hx(d)) for r, d in zip(raw, datas)]
    # ... and the real random padding through the encoder model: EncodePath's output must be the model's for the 9 bytes
    # that crypto/rand produced (recovered from the path)
    real = {}
    for r, d in zip(raw, datas):
        pth = unhex(r)
        if len(pth) >= 14 and pth[:1] == b"0" and pth[13:14] == b"/":
            try:
                cb = base64.urlsafe_b64decode(pth[1:13])
            except Exception:
                continue
            l = "%s encwith %s %s" % (AREA, hx(cb), hx(d))
            real[l] = r
            l2.append(l)

    def prop2(l, i, m):
        bad = prop(l, i, m)
        if not bad and l in real and m.split(" ")[0] != real[l]:
            return "the encoder model on the real cache-breaker bytes gives %s, EncodePath produced %s" % (m.split(" ")[0][:80], real[l][:80])
        return bad
    ctx.correspond(exe, l2, ["path-dec-of-real-encoding"] * len(datas) + ["path-enc-real-random-padding"] * (len(l2) - len(datas)),
                   label="amp-path-real-encoding", prop=prop2, key_of=key_of, crosscheck=0)


# ------------------------------------------------------------------ cache URL cases

SMALL_DOMAIN_ALPHA = ["a", "-", ".", "\u00e9", "\u26a1"]
LABELS = ["a", "ab", "abc", "example", "com", "snowflake-broker", "torproject", "net", "en-us", "a-", "-a", "a--b", "xn--bcher-kva",
          "xn--57hw060o", "xn--", "xn---", "xn--a", "XN--BCHER-KVA", "b\u00fccher", "\u26a1\U0001f60a", "\u00e9", "\u00e9a", "a\u00e9",
          "\u00e9-c", "\u00e9a-b", "\U0001f60a-", "\u3002", "fa\u00df", "0", "0-", "1-2", "a" * 62, "a" * 63, "a" * 64, "\u00e9" * 30,
          "\u00e9" * 60, "-", "--", "---", "A", "Ab"]


def rand_domain(rng):
    mode = rng.randrange(10)
    if mode == 0:  # hyphens/dots around positions 3-4 after the replacements
        return "".join(rng.choice(["a", "b", "-", ".", "\u00e9", "\U0001f60a", "\u0800"]) for _ in range(rng.randrange(0, 7))) + rng.choice(["", ".com", "-x.org"])
    if mode == 1:  # long
        n = rng.choice([50, 60, 61, 62, 63, 64, 65, 70, 120, 260])
        lab = rng.choice(["a", "ab-", "\u00e9", "a."])
        return (lab * n)[:n] + rng.choice(["", ".com"])
    if mode == 2:
        return rng.choice(["127.0.0.1", "[::1]", "[2001:db8::1]", "", "localhost", "a..b", ".a", "a.", "%C3%A9.com", "%ff.com", "%e2%82.com",
                           "a%ffb-.com", "EXAMPLE.com", "\u00c9-c.com", "a\u0301-c.com"])
    k = rng.choice([1, 2, 2, 3, 3, 4, 6])
    return ".".join(rng.choice(LABELS) for _ in range(k))


def rand_pub(rng, domain=None):
    scheme = rng.choice(["https", "https", "https", "http", "http", "ftp", "HTTPS", "ws", ""])
    user = rng.choice(["", "", "", "", "", "u@", "u:p@", "@", ":@"])
    d = rand_domain(rng) if domain is None else domain
    port = rng.choice(["", "", "", "", ":443", ":80", ":8080", ":", ":0443"])
    path = rng.choice(["", "/", "/a/b", "/a/b/", "/a//b", "/a/./b", "/a/../b", "/../a", "/..", "/.", "/a%2Fb", "/a%2fb/%2E%2E/c", "/\u00e9", "/a b",
                       "/amp/client/0AAAAAAAAAAAA/QUJD", "/amp/client/0AAAAAAAAAAAA/", "/x/amp/client/0-_-_-_-_-_-_/MS4wCnt9", "/a;b,c", "/a:b@c",
                       "/%", "//a", "/a/", "/a/b/c/d/e/f/../../g", "/~a/$&+=", "/a'b(c)*!", "/[x]", "/a|b", "/a%7Cb", "/a%20b"])
    q = rng.choice(["", "", "", "?", "?q=1", "?a=b&c=d", "?q=%zz", "?a/b"])
    f = rng.choice(["", "", "", "#", "#frag", "#a%20b", "#a/b?c"])
    s = (scheme + ":" if scheme else "") + "//" + user + d + port + path + q + f
    if rng.random() < 0.03:
        s = rng.choice(["http:opaque", "/just/a/path", "https:///nohost", "", "mailto:a@b", "https://a.com:x/", "http://[::1/"])
    return s


def rand_cache(rng):
    if rng.random() < 0.5:
        return rng.choice(["https://cdn.ampproject.org/", "https://cdn.ampproject.org", "https://amp.cache/", "https://amp.cache"])
    scheme = rng.choice(["https", "http", "", "x-amp"])
    user = rng.choice(["", "", "", "u@", "u:p@", "@"])
    host = rng.choice(["cdn.ampproject.org", "amp.cache", "[::1]", "[2001:db8::2]", "127.0.0.1", "", "b\u00fccher.cache", "CACHE.example"])
    port = rng.choice(["", "", ":443", ":8443", ":"])
    path = rng.choice(["", "/", "/p", "/p/", "/p/q/", "/p//q", "/p/./q/", "/p/../q", "/..", "/%2e%2e/p", "/p%2Fq/", "/\u00e9/", "//", "/a b/"])
    q = rng.choice(["", "", "", "", "?", "?x=1"])
    f = rng.choice(["", "", "", "", "#", "#f"])
    return (scheme + ":" if scheme else "") + "//" + user + host + port + path + q + f


def rand_ct(rng):
    return rng.choice(["c", "c", "c", "c", "c", "i", "r", "", "c/d", "..", ".", "\u00e9", "c c", "C", "%", "a%2fb", "s"])


def sx(s):
    return "x" + s.encode("utf-8", "surrogatepass").hex()


def b32lower(b):
    return base64.b32encode(b).decode().lower().rstrip("=")


def spec_steps234(chars):
    """AMP basic algorithm steps 2-4 on a string of characters (positions are characters)"""
    p = chars.replace("-", "--").replace(".", "-")
    if len(p) >= 4 and p[2] == "-" and p[3] == "-":
        p = "0-" + p + "-0"
    return p


def bytes_steps234(b):
    p = b.replace(b"-", b"--").replace(b".", b"-")
    if len(p) >= 4 and p[2:4] == b"--":
        p = b"0-" + p + b"-0"
    return p


def tok_opt(t):
    return None if t == "n" else bytes.fromhex(t[1:])


def clean_segments(path):
    segs = path.split("/")
    return all(s not in ("", ".", "..") for s in segs)


def expected_prefix(ou, pre, oa, sha):
    """(prefix the AMP algorithm prescribes or None when not evaluated, True when byte- and character-indexed hyphen tests differ)"""
    fallback = b32lower(sha).encode()
    if len(fallback) != 52:
        return None, False
    if ou is None:
        return fallback, False
    try:
        chars = ou.decode("utf-8")
    except UnicodeDecodeError:
        return None, False
    if spec_steps234(chars).encode("utf-8") != pre:
        return None, False
    want = oa if (oa is not None and len(oa) <= 63) else fallback
    return want, bytes_steps234(ou) != spec_steps234(chars).encode("utf-8")


def prop_cache(line, impl, model):
    a = line.split(" ")
    if impl.startswith("!panic") or impl == "!died":
        return "implementation panicked/died: " + impl[:200]
    if impl.startswith("!"):
        return None  # harness-level marker; shows up as a disagreement
    ct = bytes.fromhex(a[4][1:])
    pf = [bytes.fromhex(t[1:]) for t in a[5].split(",")]
    cf = [tok_opt(t) for t in a[6].split(",")]
    ou, pre, oa, sha = tok_opt(a[7]), tok_opt(a[8]), tok_opt(a[9]), bytes.fromhex(a[10][1:])
    scheme, user, host, port, epath, rq, fr = pf
    must_reject = []
    if scheme not in (b"http", b"https"):
        must_reject.append("publisher scheme is not http(s)")
    if user != b"":
        must_reject.append("publisher URL has userinfo")
    if port != b"" and not ((scheme == b"http" and port == b"80") or (scheme == b"https" and port == b"443")):
        must_reject.append("publisher port is not the scheme default")
    if host == b"":
        must_reject.append("publisher host is empty")
    if cf[5] != b"" or cf[6] != b"":
        must_reject.append("cache URL has a query or fragment")
    if ct == b"":
        must_reject.append("content type is empty")
    if impl == "err":
        return None if (must_reject or model == "err") else "a well-formed publisher/cache URL pair was refused"
    if must_reject:
        return "CacheURL accepted although " + must_reject[0]
    f = impl.split(" ")
    r_scheme, r_user, r_host, r_path, r_q, r_f = f[1], f[2], bytes.fromhex(f[3][1:]), bytes.fromhex(f[4][1:]), f[5], f[6]
    # domain prefix: a single dot-free label of at most 63 bytes, the one the specification prescribes
    suffix = b"." + cf[2]
    h = r_host
    if cf[3] != b"":
        if h.startswith(b"[") and h.endswith(b"]:" + cf[3]):   # net.JoinHostPort brackets a host containing ':'
            h = h[1: -len(cf[3]) - 2]
        elif h.endswith(b":" + cf[3]):
            h = h[: -len(cf[3]) - 1]
        else:
            return "result host does not carry the cache port"
    if not h.endswith(suffix):
        return "result host is not <prefix>.<cache host>"
    prefix = h[: -len(suffix)]
    if b"." in prefix or len(prefix) > 63:
        return "domain prefix %r is not a dot-free label of at most 63 bytes" % prefix
    fallback = b32lower(sha).encode()
    if len(fallback) != 52:
        return None
    want = None
    if ou is not None:
        try:
            chars = ou.decode("utf-8")
        except UnicodeDecodeError:
            chars = None
        if chars is not None:
            if spec_steps234(chars).encode("utf-8") != pre:
                return "SELF-CHECK: model steps 2-4 differ from the character-indexed statement"
            want = oa if (oa is not None and len(oa) <= 63) else fallback
    else:
        want = fallback
    if want is not None and prefix != want:
        return "domain prefix is %r, the AMP algorithm (hyphen test on character positions 3-4) gives %r" % (prefix, want)
    if f[1] != "x" + cf[0].hex() or r_q != "x" + rq.hex() or r_f != "x" + fr.hex():
        return "scheme/query/fragment of the result are not cache scheme / publisher query / publisher fragment"
    # shape for clean paths with content type c
    cp, pp = cf[4].decode("latin1"), epath.decode("latin1")
    if ct == b"c" and cp.startswith("/") and (cp == "/" or clean_segments(cp.strip("/"))) and pp.startswith("/") and clean_segments(pp[1:]):
        # (a host name that is "." or ".." is itself a dot segment for path.Join: excluded here, covered by the model)
        esc_ok = all(chr(c).isalnum() or chr(c) in "-_.~" for c in host) and max(host) < 128 and host not in (b".", b"..")
        if esc_ok:
            wantp = cp.rstrip("/") + "/c" + ("/s" if scheme == b"https" else "") + "/" + host.decode() + pp
            if r_path.decode("latin1") != wantp:
                return "result path %r is not <cache path>/c[/s]/<host><publisher path> = %r" % (r_path, wantp)
    return None


def key_cache(line, impl, model):
    a = line.split(" ")
    ou, pre = tok_opt(a[7]), tok_opt(a[8])
    if ou is not None and max(ou, default=0) >= 128 and impl.startswith("ok") and model.startswith("ok"):
        try:
            chars = ou.decode("utf-8")
            if bytes_steps234(ou) != spec_steps234(chars).encode("utf-8") and impl.split(" ")[3] != model.split(" ")[3]:
                return "idn-hyphen-byte-index"
        except UnicodeDecodeError:
            pass
    return "cache-url"


LIB_OPS = ("clean", "join", "pesc", "punesc", "h34r", "b32", "utf8", "jhp", "resolve")


def gen_libmodels(ctx):
    """direct checks of the modelled library helpers (path.Clean/Join, url.PathEscape, []rune, base32, JoinHostPort)"""
    rng = ctx.rng
    thorough = ctx.tier == "thorough"
    lines, kinds = [], []

    def add(l, k):
        lines.append(AREA + " " + l)
        kinds.append(k)
    # every path over {a . /} up to length 7 (8): path.Clean
    for n in range(0, 9 if thorough else 8):
        for t in itertools.product(b"a./", repeat=n):
            add("clean " + hx(bytes(t)), "lib-clean-exhaustive")
    segs = [b"", b"a", b".", b"..", b"/", b"a/b", b"/a", b"a/", b"../x", b"%2e", b"c", b"s"]
    for n in range(0, 4):
        for t in itertools.product(segs, repeat=n):
            add("join " + (",".join(hx(e) for e in t) or "-"), "lib-join-exhaustive")
    for c in range(256):
        add("pesc " + hx(bytes([c, 0x41])), "lib-pathescape")
    for _ in range(300 if not thorough else 3000):
        s = bytes(rng.choice(b"%%%%0129afAFgGz/ ") for _ in range(rng.randrange(0, 9)))
        add("punesc " + hx(s), "lib-pathunescape")
    # rune positions: valid and invalid UTF-8 around the first four characters
    pieces = [b"a", b"-", b"\xc3\xa9", b"\xe2\x9a\xa1", b"\xf0\x9f\x98\x8a", b"\xc3", b"\xe2\x9a", b"\xf0\x9f\x98", b"\xff", b"\x80", b"\xc0\x80",
              b"\xe0\x80\x80", b"\xed\xa0\x80", b"\xf4\x90\x80\x80", b"\xe0\xa0\x80", b"\xed\x9f\xbf", b"\xf4\x8f\xbf\xbf", b"\xf0\x90\x80\x80", b"\xc2\x2d"]
    for t in itertools.product(pieces, repeat=2):
        for tail in (b"--", b"-", b"-a", b"a-", b"", b"---"):
            add("h34r " + hx(b"".join(t) + tail), "lib-runes")
    for _ in range(500 if not thorough else 5000):
        s = bytes(rng.choice([0x2d, 0x2d, 0x61, 0xc3, 0xa9, 0xe2, 0x9a, 0xa1, 0xf0, 0x9f, 0x98, 0x8a, 0x80, 0xbf, 0xc2, 0xe0, 0xed, 0xf4, 0xff, rng.randrange(256)])
                  for _ in range(rng.randrange(0, 8)))
        add("h34r " + hx(s), "lib-runes-random")
    for cp in [0, 0x2d, 0x7f, 0x80, 0x7ff, 0x800, 0xd7ff, 0xe000, 0xffff, 0x10000, 0x10ffff, 0xe9, 0x26a1, 0x1f60a]:
        add("utf8 %d,45,%d" % (cp, cp), "lib-utf8")
    for n in list(range(0, 12)) + [31, 32, 33]:
        for a0 in (0, 255, 0x5a, rng.randrange(256)):
            add("b32 g%d.%d" % (n, a0), "lib-base32")
    for _ in range(100):
        add("b32 " + hx(bytes(rng.randrange(256) for _ in range(32))), "lib-base32")
    for h in (b"a.b", b"::1", b"a.::1", b"", b"a:b"):
        for p_ in (b"443", b"", b"8080"):
            add("jhp %s %s" % (hx(h), hx(p_)), "lib-joinhostport")
    # url.ResolveReference as the rendezvous code uses it: every base path over {a . /} up to length 6 (7), the two
    # references of the client and references with dot segments of their own
    refs = [b"client", b"amp/client/0AAAAAAAAAAAA/QUJD", b"amp/client/0AAAAAAAAAAAA/", b"x", b".", b"..", b"./x", b"../x", b"a/../b", b"a/./b/", b"/abs/x", b"/", b"x/..", b"x/."]
    for n in range(0, 8 if thorough else 7):
        for t in itertools.product(b"a./", repeat=n):
            base = bytes(t)
            if base and base[:1] != b"/":
                continue
            for ref in (refs if n <= 4 else refs[:2]):
                add("resolve %s %s" % (hx(base), hx(ref)), "lib-resolve-exhaustive")
    for base in [b"/a%2Fb/", b"/%2e%2e/x/", b"/a/%2E/", b"/a;b/c", b"/a:b@c/", b"/~a/$&+=/", b"//", b"///", b"/a//", b"//a/b", b"/a/b/c/d/e/f/../../g/"]:
        for ref in refs:
            add("resolve %s %s" % (hx(base), hx(ref)), "lib-resolve-named")
    return lines, kinds


def prop_lib(line, impl, model):
    if impl.startswith("!panic") or impl == "!died":
        return "implementation panicked/died: " + impl[:200]
    if impl == "!parse":
        return None
    return None


def run_cache(ctx):
    exe = vlib.go_build("./zz_verif/amppath")
    rng = ctx.rng
    thorough = ctx.tier == "thorough"
    cases, kinds = [], []
    # every domain over a small alphabet (ASCII letter, hyphen, dot, 2-byte and 3-byte characters)
    for n in range(0, 6 if thorough else 5):
        for t in itertools.product(SMALL_DOMAIN_ALPHA, repeat=n):
            cases.append(("https://" + "".join(t) + "/amp/client/0AAAAAAAAAAAA/QUJD", "https://cdn.ampproject.org/", "c"))
            kinds.append("cacheurl-domain-exhaustive-small")
    for d in ["\u00e9-c.com", "\u00e9a-b.com", "en-us.example.com", "snowflake-broker.torproject.net", "snowflake-broker.azureedge.net",
              "xn--57hw060o.com", "\u26a1\U0001f60a.com", "b\u00fccher.de", "a" * 63, "a" * 64, ("a" * 30 + ".") * 9 + "com", "xn---", "xn--"]:
        for cache in ["https://cdn.ampproject.org/", "https://amp.cache:8443/p/"]:
            cases.append(("https://" + d + "/amp/client/0AAAAAAAAAAAA/QUJD", cache, "c"))
            kinds.append("cacheurl-named-domains")
    for _ in range(2500 if not thorough else 25000):
        cases.append((rand_pub(rng), rand_cache(rng), rand_ct(rng)))
        kinds.append("cacheurl-random")
    for _ in range(600 if not thorough else 6000):
        cases.append(("https://" + rand_domain(rng) + rng.choice(["/", "/amp/client/0AAAAAAAAAAAA/QUJD"]), "https://cdn.ampproject.org/", "c"))
        kinds.append("cacheurl-random-domain")
    # phase A: url.Parse accessors, ToUnicode(host), sha256(host) from the real libraries
    rc, pa, err = vlib.run_impl(exe, ["%s parse %s %s" % (AREA, sx(p), sx(c)) for p, c, _ in cases])
    if rc != 0 or len(pa) != len(cases):
        ctx.not_shown("amp-cache: parse phase failed: " + err[-300:])
        return
    keep = [i for i, r in enumerate(pa) if not r.startswith("!")]
    ctx.extra["cacheurl_unparsable_skipped"] = len(cases) - len(keep)
    # phase B: steps 2-4 of the basic algorithm by the model
    ous = [pa[i].split(" ")[2] for i in keep]
    pres = vlib.run_model(["%s pre %s" % (AREA, ou) if ou != "n" else "%s pre x" % AREA for ou in ous])
    pres = [p if ou != "n" else "n" for p, ou in zip(pres, ous)]
    # phase C: ToASCII of that
    rc, oas, err = vlib.run_impl(exe, ["%s toascii %s" % (AREA, p) for p in pres])
    if rc != 0 or len(oas) != len(keep):
        ctx.not_shown("amp-cache: toascii phase failed: " + err[-300:])
        return
    lines, ks = [], []
    for j, i in enumerate(keep):
        p, c, ct = cases[i]
        pf, cf, ou, sha = pa[i].split(" ")
        lines.append("%s cacheurl %s %s %s %s %s %s %s %s %s" % (AREA, sx(p), sx(c), sx(ct), pf, cf, ou, pres[j], oas[j], sha))
        ks.append(kinds[i])
    ctx.correspond(exe, lines, ks, label="amp-cache-url", prop=prop_cache, key_of=key_cache, crosscheck=20)


# ------------------------------------------------------------------ client rendezvous cases

LIMIT = 100000
DRV_ARGS = ("-test.run", "^TestVerifC11Driver$")


def rand_broker(rng):
    scheme = rng.choice(["https", "https", "http"])
    host = rng.choice(["snowflake-broker.torproject.net", "snowflake-broker.azureedge.net", "broker.example", "en-us.example.com",
                       "b\u00fccher.example", "\u00e9-c.com", "\u00e9a-b.com", "xn--bcher-kva.example", "192.0.2.7", "a" * 63 + ".example",
                       ("a" * 20 + ".") * 4 + "example", "localhost"])
    port = rng.choice(["", "", "", ":443", ":80", ":8080"])
    user = rng.choice([""] * 9 + ["u@"])
    path = rng.choice(["", "/", "/", "/", "/x", "/x/", "/x/y/", "/a.b/c/", "/amp/client/", "/client", "/snowflake-broker.torproject.net/",
                       # dot and empty segments, no trailing slash: what ResolveReference and path.Join do with them
                       "/x/../y/", "/./x/", "/x//y/", "//", "/x/.", "/x/..", "/a/b/../../c/d", "/..", "/../../x/", "/x/y", "/x/./", "/...//", "/x/.../y/", "/%2e%2e/x/", "/x///"])
    return scheme + "://" + user + host + port + path


def rand_front(rng):
    return rng.choice(["", "", "front.example", "cdn.sstatic.net", "www.google.com:443", "fr\u00f6nt.example", "snowflake-broker.torproject.net.front.example"])


def rand_cache_rdv(rng):
    return rng.choice([None, None, "https://cdn.ampproject.org/", "https://cdn.ampproject.org/", "https://cdn.ampproject.org", "https://amp.cache:8443/p/",
                       "http://amp.cache/p/q", "https://u:p@amp.cache/", "https://cdn.ampproject.org/?q=1", "https://cdn.ampproject.org/#f",
                       "https://amp.cache/p/../q/", "https://amp.cache/p//q", "https://amp.cache/./", "https://amp.cache/p/.", "https://amp.cache/..", "https://amp.cache//"])


def rand_status(rng):
    return rng.choice([200] * 6 + [201, 204, 206, 301, 302, 400, 403, 404, 500, 502, 503, 199, 0])


def gen_rdv(ctx):
    rng = ctx.rng
    thorough = ctx.tier == "thorough"
    https, amps = [], []
    sizes = [0, 1, 2, 100, 1500, LIMIT - 1, LIMIT, LIMIT + 1, LIMIT + 2, 2 * LIMIT]
    grid_brokers = ["https://snowflake-broker.torproject.net/", "http://broker.example:8080/x/"] if thorough else ["https://snowflake-broker.torproject.net/x/"]
    for broker in grid_brokers:
        for front in ["", "front.example"]:
            for n in sizes:
                for st in (200, 404):
                    https.append((broker, front, rand_data(rng), st, "g%d.%d" % (n, rng.randrange(256)), "http-limit-grid"))
    for _ in range(400 if not thorough else 4000):
        n = rng.choice([0, 1, 5, 50, 300, 2000] * 3 + [LIMIT - 1, LIMIT, LIMIT + 1])
        resp = hx(rand_data(rng, n)) if n <= 300 else "g%d.%d" % (n, rng.randrange(256))
        https.append((rand_broker(rng), rand_front(rng), rand_data(rng), rand_status(rng), resp, "http-random"))
    for broker in grid_brokers:
        for cache in [None, "https://cdn.ampproject.org/"]:
            for front in ["", "front.example"]:
                for bodysize in [0, LIMIT - 1, LIMIT, LIMIT + 1, 2 * LIMIT]:
                    for st, loc in ((200, 0), (200, 1), (404, 0)):
                        amps.append((broker, cache, front, rand_data(rng), st, loc, "g%d.%d" % (rng.choice([0, 1, 700]), rng.randrange(256)), bodysize, "amp-limit-grid", rand_cb(rng)))
                # a response whose armor alone exceeds / just fits the limit
                for n in ((60000, 70000, 80000, 150000) if thorough else (70000, 80000)):
                    amps.append((broker, cache, front, rand_data(rng), 200, 0, "g%d.%d" % (n, rng.randrange(256)), 0, "amp-large-response", rand_cb(rng)))
    for _ in range(400 if not thorough else 4000):
        n = rng.choice([0, 1, 5, 50, 300, 2000])
        resp = hx(rand_data(rng, n)) if n <= 300 else "g%d.%d" % (n, rng.randrange(256))
        amps.append((rand_broker(rng), rand_cache_rdv(rng), rand_front(rng), rand_data(rng), rand_status(rng), 1 if rng.random() < 0.1 else 0,
                     resp, rng.choice([0, 0, 0, 5000, LIMIT, LIMIT + 1]), "amp-random", rand_cb(rng)))
    return https, amps


def rand_cb(rng):
    """the 9 cache-breaker bytes crypto/rand hands to EncodePath in this case"""
    m = rng.randrange(5)
    if m == 0:
        return bytes([rng.choice([0, 0xff, 0xfb, 0x3e])] * 9)
    if m == 1:
        return bytes(rng.choice([0xfb, 0xff, 0xef, 0xbe, 0xfa]) for _ in range(9))    # '-' and '_' in the padding
    return bytes(rng.randrange(256) for _ in range(9))


def rdv_fields(impl):
    """-> (reqfields or None/'many', res)"""
    req, res = impl.split(" ", 1)
    req = req[4:]
    if req in ("none", "many"):
        return req, res
    return [None if t == "n" else bytes.fromhex(t[1:]) for t in req.split(",")], res


def prop_rdv(line, impl, model):
    a = line.split(" ")
    op = a[1]
    if impl.startswith("!panic") or impl == "!died":
        return "implementation panicked/died: " + impl[:200]
    if impl.startswith("!"):
        return None
    req, res = rdv_fields(impl)
    if op == "http":
        front, data, status, resp, bf = unhex(a[3]), bytes.fromhex(expand(a[4])), int(a[5]), a[6], a[7]
        cache = None
        loc = 0
        served_len = len(expand(resp)) // 2
    else:
        front, data, status, loc, resp = unhex(a[4]), bytes.fromhex(expand(a[5])), int(a[6]), int(a[7]), a[8]
        served_len = max(int(a[9]), int(a[10]))
        bf = a[11]
        cache = None if a[12] == "n" else [tok_opt(t) for t in a[12].split(",")]
    b = [bytes.fromhex(t[1:]) for t in bf.split(",")]
    bhost = b[2]
    if req == "many":
        return "more than one request for one exchange"
    if req == "none":
        if op == "http" or cache is None:
            return "no request was made"
        return None if res == "res=err" else "no request but a result"
    method, scheme, urlhost, hosthdr, path, query, body = req
    enc = b"0" + b64u(unhex(a[17])) + b"/" + b64u(data) if op == "amp" else b""
    bp = b[5]
    plain = all(sg not in (b".", b"..") for sg in bp.split(b"/"))       # no dot segments in the broker path
    if any(sg in (b".", b"..") for sg in path.split(b"/")):
        return "request path %r still has a dot segment" % path
    if op == "amp" and cache is None and data != b"":
        want = (bp[: bp.rfind(b"/") + 1] or b"/") + b"amp/client/" + enc
        if plain and path != want:
            return "AMP rendezvous path is %r, the broker URL's directory + amp/client/<encoded poll> is %r" % (path, want)
        if not path.endswith(b"/amp/client/" + enc):
            return "AMP rendezvous path %r does not end in /amp/client/<encoded poll>" % path
    if op == "http":
        if method != b"POST" or body != data:
            return "HTTP rendezvous did not POST the poll as the body"
        want = (bp[: bp.rfind(b"/") + 1] or b"/") + b"client"
        if plain and path != want:
            return "HTTP rendezvous path is %r, the broker URL's directory + \"client\" is %r" % (path, want)
        if not path.endswith(b"/client"):
            return "HTTP rendezvous path %r does not end in /client" % path
    else:
        if method != b"GET" or body is not None:
            return "AMP rendezvous is not a body-less GET"
        # an empty poll ends in "/", which path.Join in CacheURL removes (by design, see cache_test.go; theorem
        # C11_amp_cache_empty_poll): exactly that, nothing more, may be missing
        tail = b"amp/client/" + (enc[:-1] if (data == b"" and cache is not None) else enc)
        if not path.endswith(tail):
            return "AMP rendezvous path does not end in amp/client/0<padding>/<base64url(poll)> for the padding crypto/rand produced"
    named = bhost if cache is None else None
    if front != b"":
        if urlhost != front:
            return "front domain configured but the request connects to %r" % urlhost
        if named is not None and hosthdr != named:
            return "front domain configured but the Host header is %r, not the broker %r" % (hosthdr, named)
        if cache is not None and not hosthdr.split(b":")[0].rstrip(b"]").endswith(b"." + cache[2]):
            return "front domain configured but the Host header %r is not the AMP cache subdomain" % hosthdr
    else:
        if urlhost != hosthdr:
            return "no front: URL host and Host header differ"
        if named is not None and urlhost != named:
            return "no front: request does not go to the broker host"
    if cache is not None and b":" not in cache[2]:
        want, _ = expected_prefix(tok_opt(a[13]), tok_opt(a[14]), tok_opt(a[15]), bytes.fromhex(a[16][1:]))
        hh = hosthdr[: -len(cache[3]) - 1] if cache[3] != b"" else hosthdr
        if want is not None and hh != want + b"." + cache[2]:
            return "AMP cache host is %r, the AMP algorithm (hyphen test on character positions 3-4) gives prefix %r" % (hh, want)
    # response handling
    must_err = status != 200 or served_len > LIMIT or loc == 1
    if must_err and res != "res=err":
        return "status %d / body of %d bytes%s was not reported as an error: %s" % (status, served_len, " / Location header" if loc else "", res)
    if res.startswith("res=ok") and "same=1" not in res:
        return "exchange returned data that is not the served response (truncated or altered): " + res
    if not must_err and res == "res=err":
        return "a 200 response of %d bytes (limit %d) was refused" % (served_len, LIMIT)
    return None


def key_rdv(line, impl, model):
    a = line.split(" ")
    if a[1] == "amp" and a[12] != "n":
        _, divergent = expected_prefix(tok_opt(a[13]), tok_opt(a[14]), tok_opt(a[15]), bytes.fromhex(a[16][1:]))
        try:
            if divergent and rdv_fields(impl)[0][3] != rdv_fields(model)[0][3]:
                return "idn-hyphen-byte-index"
        except Exception:
            pass
    try:
        req, res = rdv_fields(impl)
        mreq, mres = rdv_fields(model)
        if res != mres:
            return "rendezvous-response-limit"
    except Exception:
        pass
    return "rendezvous-request-shape"


def run_rdv(ctx):
    import os
    exe = vlib.go_test_build("./client/lib", name="client_lib_c11.test")
    os.environ["VERIF_DRIVER"] = "c11"
    ctx.trusted.append("recording http.RoundTripper in harness/overlay/client/lib/zz_verif_c11_test.go stands for the HTTP transport "
                       "(connects to req.URL.Host, sends req.Host as the Host header)")
    rc, lim, err = vlib.run_impl(exe, [AREA + " limit"], args=DRV_ARGS)
    if rc != 0 or lim != [str(LIMIT)]:
        ctx.not_shown("client readLimit is %r, the model and the property say %d" % (lim, LIMIT))
    https, amps = gen_rdv(ctx)
    # phase A: url.Parse accessors, ToUnicode/sha256 of the broker host; armored lengths
    qa = ["%s bparse %s n" % (AREA, sx(b)) for b, _, _, _, _, _ in https]
    qa += ["%s bparse %s %s" % (AREA, sx(t[0]), sx(t[1]) if t[1] else "n") for t in amps]
    qa += ["%s armorlen %s" % (AREA, t[6]) for t in amps]
    rc, ra, err = vlib.run_impl(exe, qa, args=DRV_ARGS)
    if rc != 0 or len(ra) != len(qa):
        ctx.not_shown("rendezvous: parse phase failed: " + err[-300:])
        return
    pa_http, pa_amp, alens = ra[:len(https)], ra[len(https):len(https) + len(amps)], ra[len(https) + len(amps):]
    lines, kinds = [], []
    for (b, f, d, st, resp, k), r in zip(https, pa_http):
        if r.startswith("!"):
            continue
        lines.append("%s http %s %s %s %d %s %s" % (AREA, sx(b), sx(f), hx(d), st, resp, r.split(" ")[0]))
        kinds.append(k)
    # phase B/C: steps 2-4 by the model, ToASCII by the library
    ous = [r.split(" ")[2] if not r.startswith("!") else "n" for r in pa_amp]
    pres = vlib.run_model(["%s pre %s" % (AREA, ou if ou != "n" else "x") for ou in ous])
    pres = [p if ou != "n" else "n" for p, ou in zip(pres, ous)]
    rc, oas, err = vlib.run_impl(exe, ["%s toascii %s" % (AREA, p) for p in pres], args=DRV_ARGS)
    if rc != 0 or len(oas) != len(amps):
        ctx.not_shown("rendezvous: toascii phase failed: " + err[-300:])
        return
    for t, r, al, pre, oa in zip(amps, pa_amp, alens, pres, oas):
        if r.startswith("!"):
            continue
        b, c, f, d, st, loc, resp, size, k, cb = t
        bf, cf, ou, sha = r.split(" ")
        lines.append("%s amp %s %s %s %s %d %d %s %d %s %s %s %s %s %s %s %s" % (
            AREA, sx(b), sx(c) if c else "n", sx(f), hx(d), st, loc, resp, size, al, bf, cf, ou, pre, oa, sha, hx(cb)))
        kinds.append(k)
    ctx.correspond(exe, lines, kinds, label="client-rendezvous", prop=prop_rdv, key_of=key_rdv, impl_args=DRV_ARGS, crosscheck=12)
    import time
    t0 = time.time()
    run_seq(ctx, exe)
    ctx.extra.setdefault("stage_seconds", {})["client-rendezvous-histories"] = round(time.time() - t0, 1)


# ------------------------------------------------------------------ one rendezvous object, many Exchanges

def gen_seq(ctx):
    """histories on ONE httpRendezvous / ampCacheRendezvous (the client polls once per snowflake through the same object)
    -> list of (method 'h'|'a', broker, cache|None, front, [event], kind); event = (poll, cb, status|'e', loc, resp token, bodysize)"""
    rng = ctx.rng
    thorough = ctx.tier == "thorough"

    def ok_ev(method, poll=None):
        n = rng.choice([0, 1, 5, 50, 300])
        return (poll if poll is not None else rand_data(rng), rand_cb(rng), 200, 0, hx(rand_data(rng, n)), 0)

    def bad_ev(method, what):
        poll, cb = rand_data(rng), rand_cb(rng)
        small = hx(rand_data(rng, rng.choice([0, 3, 40])))
        if what == "non200":
            return (poll, cb, rng.choice([404, 500, 502, 301, 204, 0]), 0, small, 0)
        if what == "txerr":
            return (poll, cb, "e", 0, small, 0)
        if what == "location":
            return (poll, cb, 200, 1, small, 0)
        if method == "h":   # oversize
            return (poll, cb, 200, 0, "g%d.%d" % (rng.choice([LIMIT + 1, LIMIT + 2, 2 * LIMIT]), rng.randrange(256)), 0)
        return (poll, cb, 200, 0, small, rng.choice([LIMIT + 1, LIMIT + 2, 2 * LIMIT]))

    out = []
    methods = [("h", None), ("a", None), ("a", "https://cdn.ampproject.org/")]
    brokers = ["https://snowflake-broker.torproject.net/", "http://broker.example:8080/x/y"] + (["https://b\u00fccher.example/a/../b/"] if thorough else [])
    for broker in brokers:
        for method, cache in methods:
            for front in ["", "front.example"]:
                out.append((method, broker, cache, front, [ok_ev(method) for _ in range(4)], "seq-all-ok"))
                for what in ("non200", "txerr", "oversize") + (("location",) if method == "a" else ()):
                    out.append((method, broker, cache, front, [ok_ev(method), bad_ev(method, what), ok_ev(method), ok_ev(method)], "seq-error-in-between-" + what))
                first = ok_ev(method)
                out.append((method, broker, cache, front, [first, ok_ev(method), first, bad_ev(method, "txerr"), first], "seq-same-poll-again"))
    for _ in range(60 if not thorough else 900):
        method, cache = rng.choice([("h", None), ("h", None), ("a", None), ("a", rand_cache_rdv(rng)), ("a", rand_cache_rdv(rng))])
        evs = []
        for _ in range(rng.randrange(3, 8)):
            r = rng.random()
            if evs and r < 0.15:
                evs.append(rng.choice(evs))
            elif r < 0.55:
                evs.append(ok_ev(method, poll=rng.choice(evs)[0] if evs and rng.random() < 0.2 else None))
            elif r < 0.6 and sum(1 for e in evs if e[5] > LIMIT or str(e[4]).startswith("g")) < 1:
                evs.append(bad_ev(method, "oversize"))
            else:
                evs.append(bad_ev(method, rng.choice(["non200", "txerr"] + (["location"] if method == "a" else []))))
        out.append((method, rand_broker(rng), cache, rand_front(rng), evs, "seq-random-history-" + ("http" if method == "h" else "amp-cache" if cache else "amp")))
    return out


def seq_events(line):
    return [e.split(":") for e in line.split(" ")[12].split(";")]


def seq_single(line, i):
    """the one-Exchange case (op http / amp) of event i of a seq line"""
    a = line.split(" ")
    m, broker, cache, front, bf, cf, ou, pre, oa, sha = a[2:12]
    poll, cb, st, loc, resp, size, alen = seq_events(line)[i]
    st = "0" if st == "e" else st
    if m == "h":
        return "%s http %s %s %s %s %s %s" % (AREA, broker, front, poll, st, resp, bf)
    return "%s amp %s %s %s %s %s %s %s %s %s %s %s %s %s %s %s %s" % (AREA, broker, cache, front, poll, st, loc, resp, size, alen, bf, cf, ou, pre, oa, sha, cb)


def seq_parts(out):
    """-> [(single-exchange answer, first)] or None"""
    res = []
    for part in out.split(" | "):
        i = part.rfind(" first=")
        if i < 0:
            return None
        res.append((part[:i], part[i + 7:]))
    return res


def seq_judge(line, impl):
    """-> None or (index, message, history-dependent?)"""
    evs = seq_events(line)
    parts = seq_parts(impl)
    if parts is None or len(parts) != len(evs):
        return (0, "a history of %d Exchanges on one rendezvous object answered with: %s" % (len(evs), impl[:300]), True)
    for i, (single, first) in enumerate(parts):
        where = "Exchange %d of %d on ONE rendezvous object (method %s, front %r): " % (
            i + 1, len(evs), {"h": "HTTP", "a": "AMP"}[line.split(" ")[2]], unhex(line.split(" ")[5]).decode("utf-8", "replace"))
        if first != "same":
            return (i, where + "the request differs from the one a NEW object makes for the same poll: reused object sent %s, new object %s"
                    % (show_req(single.split(" ")[0][4:]), show_req(first)), True)
        for j in range(i):
            if evs[j] == evs[i] and parts[j][0] != single:
                return (i, where + "same poll, same transport reply as Exchange %d, different outcome: %s then %s" % (j + 1, parts[j][0][:200], single[:200]), True)
        bad = prop_rdv(seq_single(line, i), single, None)
        if bad:
            return (i, where + bad, False)
    return None


def show_req(t):
    if t in ("none", "many"):
        return t
    try:
        f = [None if x == "n" else bytes.fromhex(x[1:]) for x in t.split(",")]
        return "%s %s://%s%s Host: %s" % (f[0].decode(), f[1].decode(), f[2].decode("utf-8", "replace"), f[4][:60].decode("latin1"), f[3].decode("utf-8", "replace"))
    except Exception:
        return t[:200]


def prop_seq(line, impl, model):
    if impl.startswith("!panic") or impl == "!died":
        return "implementation panicked/died: " + impl[:200]
    if impl.startswith("!"):
        return None
    j = seq_judge(line, impl)
    return j[1] if j else None


def key_seq(line, impl, model):
    j = seq_judge(line, impl) if not impl.startswith("!") else None
    if j is None:
        return "rendezvous-request-shape"
    if j[2]:
        return "rendezvous-request-depends-on-history"
    mp = seq_parts(model)
    return key_rdv(seq_single(line, j[0]), seq_parts(impl)[j[0]][0], mp[j[0]][0] if mp and len(mp) > j[0] else "")


def run_seq(ctx, exe):
    ctx.assumptions.append("histories on one rendezvous object are sequential: one Exchange at a time on ONE httpRendezvous / ampCacheRendezvous, "
                           "each followed by the same Exchange on a new object with the same configuration")
    specs = gen_seq(ctx)
    qa = ["%s bparse %s %s" % (AREA, sx(t[1]), sx(t[2]) if t[2] else "n") for t in specs]
    resps = sorted({e[4] for t in specs if t[0] == "a" for e in t[4]})
    qa += ["%s armorlen %s" % (AREA, r) for r in resps]
    rc, ra, err = vlib.run_impl(exe, qa, args=DRV_ARGS)
    if rc != 0 or len(ra) != len(qa):
        ctx.not_shown("rendezvous histories: parse phase failed: " + err[-300:])
        return
    alen = dict(zip(resps, ra[len(specs):]))
    pa = ra[:len(specs)]
    ous = [r.split(" ")[2] if not r.startswith("!") else "n" for r in pa]
    pres = vlib.run_model(["%s pre %s" % (AREA, ou if ou != "n" else "x") for ou in ous])
    pres = [p if ou != "n" else "n" for p, ou in zip(pres, ous)]
    rc, oas, err = vlib.run_impl(exe, ["%s toascii %s" % (AREA, p) for p in pres], args=DRV_ARGS)
    if rc != 0 or len(oas) != len(specs):
        ctx.not_shown("rendezvous histories: toascii phase failed: " + err[-300:])
        return
    lines, kinds = [], []
    for (m, b, c, f, evs, k), r, pre, oa in zip(specs, pa, pres, oas):
        if r.startswith("!"):
            continue
        bf, cf, ou, sha = r.split(" ")
        ev = ";".join("%s:%s:%s:%d:%s:%d:%s" % (hx(p), hx(cb), st, loc, resp, size, alen[resp] if m == "a" else "0") for p, cb, st, loc, resp, size in evs)
        lines.append("%s seq %s %s %s %s %s %s %s %s %s %s %s" % (AREA, m, sx(b), sx(c) if c else "n", sx(f), bf, cf, ou, pre, oa, sha, ev))
        kinds.append(k)
    ctx.correspond(exe, lines, kinds, label="client-rendezvous-histories", prop=prop_seq, key_of=key_seq, impl_args=DRV_ARGS, crosscheck=6)
    ctx.extra["exchanges_in_histories"] = sum(len(seq_events(l)) for l in lines)


# ------------------------------------------------------------------ broker: AMP endpoint vs POST endpoint

BRIDGE_FP = "2B280B23E1107BB62ABFC40DDCC8824814F80A72"


def rand_poll(rng):
    """a client poll message (never '{'-leading: that is the legacy format the AMP endpoint does not take)"""
    import json
    mode = rng.randrange(12)
    nat = rng.choice(["unknown", "restricted", "unrestricted", "unknown", "restricted", "unrestricted", "", "bogus"])
    offer = json.dumps({"type": "offer", "sdp": "".join(rng.choice("abcv=0 \n/+-_\"\\") for _ in range(rng.choice([0, 1, 10, 200, 3000])))})
    if mode <= 6:
        fp = rng.choice(["", "", BRIDGE_FP, BRIDGE_FP.lower()])
        return b"1.0\n" + json.dumps({"offer": offer, "nat": nat, "fingerprint": fp}).encode()
    if mode == 7:  # unknown bridge / bad fingerprint
        fp = rng.choice(["00" * 20, "zz", "2B28", BRIDGE_FP[:-2] + "73"])
        return b"1.0\n" + json.dumps({"offer": offer, "nat": nat, "fingerprint": fp}).encode()
    if mode == 8:
        return rng.choice([b"", b"1.0", b"1.0\n", b"2.0\n{}", b"1.0\n{}", b"1.0\nnot json", b"\n", b"x", b"1.0\n{\"offer\":\"\"}", b" {", b"1.0\n[1]"])
    if mode == 9:
        return bytes(rng.choice([0, 10, 13, 0x7b, 0xff, 0x31, rng.randrange(256)]) for _ in range(rng.randrange(1, 40))).lstrip(b"{") or b"x"
    return b"1.0\n" + json.dumps({"offer": offer, "nat": nat}).encode()


def rand_legacy_poll(rng):
    """a poll body that starts with '{': the POST endpoint's legacy format, an ordinary (undecodable) poll for the AMP endpoint"""
    import json
    return rng.choice([b"{", b"{}", b'{"type":"offer","sdp":"x"}', b"{" + bytes(rng.randrange(256) for _ in range(rng.randrange(0, 30))),
                       json.dumps({"type": "offer", "sdp": "v=0 " * rng.choice([1, 50, 2000])}).encode(), b'{"offer":"o","nat":"unknown"}', b"{1.0\n{}"])


def rand_big_poll(rng):
    """polls around and beyond the POST body limit of 100000 bytes"""
    import json
    n = rng.choice([99990, 100000, 100001, 100002, 100500, 150000])
    mode = rng.randrange(3)
    if mode == 0:
        head = b'1.0\n{"offer":"'
        tail = b'","nat":"unknown"}'
        return head + b"o" * (n - len(head) - len(tail)) + tail
    if mode == 1:
        return b"{" + b"q" * (n - 1)
    return bytes((i * 31 + n) & 255 for i in range(n)).lstrip(b"{") or b"x"


def gen_broker(ctx):
    rng = ctx.rng
    cases = []
    n = 250 if ctx.tier == "quick" else 2500
    for _ in range(n):
        scen = rng.choice(["noproxy", "proxy", "proxy"])
        answer = ('{"type":"answer","sdp":"%d"}' % rng.randrange(10**6)).encode()
        body = rand_poll(rng)
        r = rng.random()
        if r < 0.7:
            path = b"/amp/client/0" + rand_pad(rng) + b"/" + b64u(body)
            kind = "broker-twin-wellformed"
        elif r < 0.9:
            path = b"/amp/client/" + rng.choice([b"", b"0", b"1AAAA/" + b64u(body), b"0AAAA", b"0AAAA/" + b64u(body) + b"=", b"0AAAA/!" + b64u(body),
                                                 b"0AAAA/A", b"/0/" + b64u(body), b"00", b"0/" + b64u(body)[:-1] if len(b64u(body)) % 4 == 2 else b"0/A"])
            kind = "broker-twin-malformed-path"
        else:
            path = rng.choice([b"/amp/client", b"/amp/clien/0A/QQ", b"/client", b"", b"/amp/client0/QQ"])
            kind = "broker-twin-wrong-route"
        cases.append((scen, answer, body, path, kind))
    # polls the equality theorem excludes: legacy-looking ('{'-leading) and beyond the POST limit, through BOTH endpoints
    for _ in range(60 if ctx.tier == "quick" else 600):
        scen = rng.choice(["noproxy", "proxy", "proxy"])
        answer = ('{"type":"answer","sdp":"%d"}' % rng.randrange(10**6)).encode()
        body = rand_legacy_poll(rng)
        cases.append((scen, answer, body, b"/amp/client/0" + rand_pad(rng) + b"/" + b64u(body), "broker-twin-legacy-looking"))
    for _ in range(14 if ctx.tier == "quick" else 80):
        scen = rng.choice(["noproxy", "proxy"])
        answer = b'{"type":"answer","sdp":"big"}'
        body = rand_big_poll(rng)
        cases.append((scen, answer, body, b"/amp/client/0AAAA/" + b64u(body), "broker-twin-around-limit"))
    return cases


def prop_broker(line, impl, model):
    """broker2: both endpoints for one poll, on the outcome of IPC.ClientOffers observed by a direct call"""
    a = line.split(" ")
    if impl.startswith("!panic") or impl == "!died":
        return "implementation panicked/died: " + impl[:200]
    if impl.startswith("!"):
        return None
    body, path, ipc, shim, errresp = unhex(a[4]), unhex(a[5]), a[6], a[7], a[8]
    post, ampr = [t.split("=", 1)[1] for t in impl.split(" ")]
    ipc_reply = ("200," + ipc.split(",")[1]) if ipc.startswith("ok,") else "500,x"
    # POST side
    if len(body) > LIMIT:
        if post != "400,x":
            return "POST /client answered %s to a body of %d bytes (limit %d), not 400" % (post[:60], len(body), LIMIT)
    elif body[:1] != b"{":
        if post != ipc_reply:
            return "POST /client answered %s (%d hex chars), IPC.ClientOffers gave %s (%d) for the same poll" % (post[:60] + ".." + post[-12:], len(post), ipc_reply[:60] + ".." + ipc_reply[-12:], len(ipc_reply))
    # AMP side
    if not path.startswith(b"/amp/client/"):
        return None if ampr.startswith("500") else "a path outside /amp/client/ was served: " + ampr[:80]
    dec = py_decode_path(path[len(b"/amp/client/"):])
    if dec is None:
        return None if ampr == errresp else "undecodable path not answered with the armored decode-error response: " + ampr[:120]
    if dec != body:
        return None
    if ampr != ipc_reply:
        return "AMP endpoint answered %s, IPC.ClientOffers gave %s for the same poll" % (ampr[:100], ipc_reply[:100])
    if len(body) <= LIMIT and body[:1] != b"{" and ampr.split(",")[0] == "200" and ampr != post:
        return "AMP endpoint answered %s, the POST endpoint %s for the same poll" % (ampr[:100], post[:100])
    return None


def run_broker(ctx):
    import os
    exe = vlib.go_test_build("./broker", name="broker_c11.test")
    os.environ["VERIF_DRIVER"] = "c11"
    ctx.trusted.append("twin broker contexts with scripted proxies in harness/overlay/broker/zz_verif_c11_test.go "
                       "(AddSnowflake + an answering goroutine) stand for brokers in the same state (POST endpoint, AMP endpoint, direct IPC call)")
    cases = gen_broker(ctx)
    q = ["%s brokeripc %s %s %s" % (AREA, s, hx(an), hx(b)) for s, an, b, _, _ in cases] + [AREA + " brokererr"]
    rc, ra, err = vlib.run_impl(exe, q, args=DRV_ARGS)
    if rc != 0 or len(ra) != len(q):
        ctx.not_shown("broker: IPC phase failed: " + err[-300:])
        return
    errresp = ra[-1]
    if not errresp.startswith("200,x"):
        ctx.not_shown("broker: reference response for an undecodable AMP path is not a 200 with armor: " + errresp[:100])
        return
    lines, kinds = [], []
    for (s, an, b, path, k), r in zip(cases, ra):
        ipc, shim = r.split(" ")
        lines.append("%s broker2 %s %s %s %s %s %s %s" % (AREA, s, hx(an), hx(b), hx(path), ipc, shim, errresp))
        kinds.append(k)
    ctx.correspond(exe, lines, kinds, label="broker-amp-vs-post", prop=prop_broker, key_of=lambda *a: "amp-vs-post", impl_args=DRV_ARGS, crosscheck=10)


def run(ctx):
    ctx.assumptions += ["models = coq/Model/{B64Url,AmpPath}.v (hand written); tie = correspondence on generated cases"]
    ctx.assumptions += ["idna.ToUnicode / idna.ToASCII / sha256 / url.Parse are library boundaries: their outputs are supplied per case by the Go driver "
                        "(which re-verifies them against the real libraries on the final case line)"]
    import time
    st = ctx.extra.setdefault("stage_seconds", {})
    for name, f in (("path", run_path), ("cache-url", run_cache), ("client-rendezvous", run_rdv), ("broker", run_broker)):
        t0 = time.time()
        f(ctx)
        st[name] = round(time.time() - t0, 1)


def replay(ctx, doc):
    import os
    os.environ["VERIF_DRIVER"] = "c11"
    bad = 0
    for v in doc.get("violations", []):
        case = v["replay"].get("case")
        if not case:
            continue
        op = case.split(" ")[1]
        if op in ("http", "amp", "seq"):
            exe, args, pr = vlib.go_test_build("./client/lib", name="client_lib_c11.test"), DRV_ARGS, prop_seq if op == "seq" else prop_rdv
        elif op in ("broker", "broker2"):
            exe, args, pr = vlib.go_test_build("./broker", name="broker_c11.test"), DRV_ARGS, prop_broker
        else:
            exe, args = vlib.go_build("./zz_verif/amppath"), ()
            pr = prop_cache if op.startswith("cacheurl") else prop_lib if op in LIB_OPS else prop
        m = vlib.run_model([case])[0]
        rc, r, err = vlib.run_impl(exe, [case], args=args)
        r = r[0] if r else "!died"
        p = pr(case, r, m)
        print("case: %s\n model: %s\n impl:  %s\n property: %s" % (case[:300], m[:300], r[:300], p or "holds"))
        bad += 1 if p else 0
    return 1 if bad else 0
