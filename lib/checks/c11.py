"""C11 — rendezvous requests are faithfully encoded, fronted and bounded
(common/amp path + cache URL, client/lib rendezvous, broker AMP endpoint)."""
import base64
import itertools
import vlib

AREA = "amppath"
URLCH = "ABCDEFGHIJKLMNOPQRSTUVWXYZabcdefghijklmnopqrstuvwxyz0123456789-_"


def hx(b):
    return "x" + bytes(b).hex()


def b64u(data):
    return base64.urlsafe_b64encode(bytes(data)).rstrip(b"=")


def rand_data(rng, n=None):
    if n is None:
        n = rng.choice([0, 1, 2, 3, 4, 5, 6, 7, 8, 9, 31, 32, 33, rng.randrange(0, 80), rng.randrange(0, 400)])
    mode = rng.randrange(4)
    if mode == 0:
        return bytes(rng.randrange(256) for _ in range(n))
    if mode == 1:
        return bytes(rng.choice([0x00, 0xff, 0xfb, 0xfc, 0x3e, 0x3f, 0xf8, 0x7f, 0x80]) for _ in range(n))
    if mode == 2:  # looks like a poll message
        s = b'1.0\n{"offer":"' + bytes(rng.choice(b"abcdefv=0 \\\"/+") for _ in range(n)) + b'","nat":"unknown"}'
        return s
    return bytes((i * 7 + n) & 255 for i in range(n))


def rand_pad(rng):
    mode = rng.randrange(6)
    n = rng.choice([0, 1, 2, 11, 12, 13, rng.randrange(0, 30)])
    if mode == 0:
        return bytes(rng.choice(URLCH.encode()) for _ in range(12))
    if mode == 1:
        return bytes(rng.choice(URLCH.encode()) for _ in range(n))
    if mode == 2:  # extra slashes
        return bytes(rng.choice(b"/Aa0-_/") for _ in range(n))
    if mode == 3:  # anything at all
        return bytes(rng.randrange(256) for _ in range(n))
    if mode == 4:  # looks like another encoded path
        return b"0" + b64u(rand_data(rng, 5)) + b"/" + b64u(rand_data(rng, 4))
    return b"/" * n


# ------------------------------------------------------------------ path cases

def gen_path(ctx):
    rng = ctx.rng
    thorough = ctx.tier == "thorough"
    lines, kinds = [], []

    def add(l, k):
        lines.append(AREA + " " + l)
        kinds.append(k)

    # round trip through the implementation's own encoder (random cache breaker)
    for n in list(range(0, 70)) + [255, 256, 257, 1000, 4095, 4096, 4097] + ([20000, 99999, 100000, 100001] if thorough else [20000]):
        add("rt g%d.%d" % (n, rng.randrange(256)), "path-rt")
        add("encshape g%d.%d" % (n, rng.randrange(256)), "path-encshape")
    for _ in range(300 if not thorough else 3000):
        add("rt " + hx(rand_data(rng)), "path-rt")
    # decode of "0" ++ arbitrary padding ++ "/" ++ b64url(data): must give data back
    for _ in range(1500 if not thorough else 15000):
        d = rand_data(rng)
        p = b"0" + rand_pad(rng) + b"/" + b64u(d)
        add("dec %s %s" % (hx(p), hx(d)), "path-dec-anypad")
    # base64url itself, all lengths mod 3, bytes covering every 6-bit value at every position
    for n in range(0, 40):
        for a in (0, 37, 128, 250):
            add("b64 g%d.%d" % (n, a), "b64url-enc")
    for v in range(64):
        for d in (bytes([v << 2, 0, 0]), bytes([0, 0, v]), bytes([(v >> 4), (v << 4) & 255, 0]), bytes([0, v >> 2, (v << 6) & 255])):
            add("b64 " + hx(d), "b64url-enc")
    # malformed stream
    bad_tails = [b"", b"A", b"AA", b"AAA", b"AAAA", b"AAAAA", b"AA==", b"AA=", b"A+BC", b"A/BC", b"AB CD", b"AB\nCD", b"AB\r\nCDE",
                 b"\n", b"\nA", b"A\n", b"AB\n", b"QUJD\n", b"QUJDRA", b"QUJDR", b"QUJDRA\r\n\r\n", b"-_-_", b"....", b"%41%41", b"AA\x00A",
                 b"AA\xffA", b"QQ", b"QR", b"QUI", b"QUJ", b"Q\nQ", b"=", b"AAAA=", b"AAAAAA=="]
    prefixes = [b"", b"0", b"1", b"00", b"/", b"0/", b"0//", b"00/", b"0AAAA/", b"0AAAA//", b"0/AAAA/", b"1AAAA/", b"\x000/", b" 0/", b"O/",
                b"0AAAA", b"0\n/", b"0AAAA/BBBB/"]
    for pre in prefixes:
        for t in bad_tails:
            add("dec %s -" % hx(pre + t), "path-malformed")
    for _ in range(600 if not thorough else 6000):
        n = rng.randrange(0, 14)
        p = bytes(rng.choice(b"00/AAQz-_=+\n\r. 1%") if rng.random() < 0.85 else rng.randrange(256) for _ in range(n))
        add("dec %s -" % hx(p), "path-malformed-random")
    # every path over a small alphabet up to length 4 (5 in the thorough tier)
    alpha = b"01/A-=\n"
    for n in range(0, 6 if thorough else 5):
        for t in itertools.product(alpha, repeat=n):
            add("dec %s -" % hx(bytes(t)), "path-exhaustive-small")
    return lines, kinds


def unhex(tok):
    return bytes.fromhex(tok[1:])


def prop(line, impl, model):
    """The property evaluated on the implementation's own answer (failing-input search)."""
    a = line.split(" ")
    op = a[1]
    if impl.startswith("!panic") or impl == "!died":
        return "implementation panicked/died: " + impl[:200]
    if op == "rt":
        want = "ok x" + expand(a[2])
        if impl != want:
            return "DecodePath(EncodePath(data)) is not data (got %s)" % impl[:80]
    elif op == "dec" and a[3] != "-":
        if impl != "ok " + a[3]:
            return "path \"0\"+padding+\"/\"+base64url(data) does not decode to data (got %s)" % impl[:80]
    elif op == "dec":
        # a path that is not "0" ++ anything ++ "/" ++ (valid base64url) must be an error
        p = unhex(a[2])
        ok = py_decode_path(p)
        if ok is None and impl.startswith("ok"):
            return "malformed path accepted: " + impl[:80]
        if ok is not None and impl != "ok " + hx(ok):
            return "well-formed path decoded to something else or refused: " + impl[:80]
    elif op == "encshape":
        f = impl.split(" ")
        if len(f) != 4 or f[0] != "x30" or f[2] != "1" or f[3] != hx(b64u(bytes.fromhex(expand(a[2])))):
            return "EncodePath output is not \"0\" + base64url padding + \"/\" + base64url(data): " + impl[:120]
    elif op == "b64":
        if impl != hx(b64u(bytes.fromhex(expand(a[2])))):
            return "base64.RawURLEncoding differs from RFC 4648 base64url without padding"
    return None


def py_decode_path(p):
    """independent statement of DecodePath's contract (Python), used only to look for failing inputs"""
    if len(p) < 1 or p[0:1] != b"0" or b"/" not in p[1:]:
        return None
    t = p[1:].rsplit(b"/", 1)[1].replace(b"\n", b"").replace(b"\r", b"")
    if any(c not in URLCH.encode() for c in t) or len(t) % 4 == 1:
        return None
    return base64.urlsafe_b64decode(t + b"A" * ((4 - len(t) % 4) % 4))[: len(t) * 3 // 4]


def expand(spec):
    if spec[0] == "x":
        return spec[1:]
    n, a = spec[1:].split(".")
    return "".join("%02x" % ((int(a) + i) & 255) for i in range(int(n)))


def key_of(line, impl, model):
    a = line.split(" ")
    op = a[1]
    if op in ("rt", "encshape", "b64"):
        return "path-roundtrip"
    if op == "dec":
        return "path-roundtrip" if a[3] != "-" else "path-malformed"
    return op


def run_path(ctx):
    exe = vlib.go_build("./zz_verif/amppath")
    lines, kinds = gen_path(ctx)
    ctx.correspond(exe, lines, kinds, label="amp-path", prop=prop, key_of=key_of)
    # phase 2: the implementation's real encoder output (random padding) through both decoders
    rng = ctx.rng
    datas = [rand_data(rng) for _ in range(200 if ctx.tier == "quick" else 2000)]
    rc, raw, err = vlib.run_impl(exe, ["%s encraw %s" % (AREA, hx(d)) for d in datas])
    if rc != 0 or len(raw) != len(datas):
        ctx.not_shown("amp-path: encraw phase failed: " + err[-300:])
        return
    l2 = ["%s dec %s %s" % (AREA, r, hx(d)) for r, d in zip(raw, datas)]
    ctx.correspond(exe, l2, ["path-dec-of-real-encoding"] * len(l2), label="amp-path-real-encoding", prop=prop, key_of=key_of, crosscheck=10)


def run(ctx):
    ctx.assumptions += ["models = coq/Model/{B64Url,AmpPath}.v (hand written); tie = correspondence on generated cases"]
    run_path(ctx)


def replay(ctx, doc):
    exe = vlib.go_build("./zz_verif/amppath")
    bad = 0
    for v in doc.get("violations", []):
        case = v["replay"].get("case")
        if not case:
            continue
        m = vlib.run_model([case])[0]
        rc, r, err = vlib.run_impl(exe, [case])
        r = r[0] if r else "!died"
        p = prop(case, r, m)
        print("case: %s\n model: %s\n impl:  %s\n property: %s" % (case[:300], m[:300], r[:300], p or "holds"))
        bad += 1 if p else 0
    return 1 if bad else 0
