"""C14 — every HTTP request to the broker gets a well-formed response; legacy == versioned."""
import json
import os
import threading
import vlib
from checks import brokerlib, c14live

CID = "C14"
FP = brokerlib.DEFAULT_FP


def hx(b):
    return "x" + b.hex()


def http_req(method, path, body=b"", headers=None, chunked=False, version="1.1"):
    h = {"Host": "broker.example"}
    h.update(headers or {})
    if chunked:
        h["Transfer-Encoding"] = "chunked"
        payload = b""
        i = 0
        while i < len(body):
            part = body[i:i + 7000]
            payload += ("%x\r\n" % len(part)).encode() + part + b"\r\n"
            i += 7000
        payload += b"0\r\n\r\n"
    else:
        if body or method in ("POST", "PUT"):
            h["Content-Length"] = str(len(body))
        payload = body
    head = ("%s %s HTTP/%s\r\n" % (method, path, version)).encode()
    for k, v in h.items():
        head += k.encode() + b": " + v + b"\r\n" if isinstance(v, bytes) else ("%s: %s\r\n" % (k, v)).encode()
    return head + b"\r\n" + payload


def client_body(offer, nat=None, fp=None, version="1.0"):
    d = {"offer": offer}
    if nat is not None:
        d["nat"] = nat
    if fp is not None:
        d["fingerprint"] = fp
    return (version + "\n" + json.dumps(d)).encode()


def gen(ctx):
    rng = ctx.rng
    cases = []   # (kind, line, info)

    def add(kind, raw, twin="none", twinbody=b"", nat=b"", info=None):
        cases.append((kind, "brokerhttp req %s %s %s %s" % (hx(raw), twin, hx(twinbody), hx(nat)), info or {}))

    nat_values = [None, "", "unknown", "restricted", "unrestricted", "bogus", "Restricted", "x" * 300, "unrestricted "]
    # legacy client requests and their versioned twins (empty broker: no proxies / errors are immediate)
    for nat in nat_values:
        for offer in ['{"type":"offer","sdp":"x"}', "{", "{}", '{"a":"\\u00e9"}', "{" + "y" * 2000]:
            hdr = {} if nat is None else {"Snowflake-NAT-Type": nat}
            twin = client_body(offer, nat=("" if nat is None else nat.strip(" \t")))  # net/http trims optional whitespace around field values
            add("client-legacy", http_req("POST", "/client", offer.encode(), hdr), "client", twin, info=dict(ep="client", legacy=1))
            add("client-versioned-twin", http_req("POST", "/client", twin), "client", twin, info=dict(ep="client", legacy=0))
    # versioned client requests: decode errors, fingerprints
    bodies = [client_body("o"), client_body("o", nat="restricted"), client_body("o", fp=FP), client_body("o", fp="C" * 40),
              client_body("o", fp="zz"), client_body("o", fp="AB" * 19), client_body("", nat="unknown"), client_body("o", version="2.0"),
              client_body("o", version="1.1"), b"1.0\n", b"1.0", b"", b"\n", b"1.0\nnotjson", b"1.0\n[]", b"1.0\nnull", b"\xff\xfe\x00",
              client_body("o", nat="bogus"), b"1.0\n" + json.dumps({"offer": 5}).encode()]
    for b in bodies:
        add("client-versioned", http_req("POST", "/client", b), "client", b, info=dict(ep="client", legacy=0))
        add("client-versioned-chunked", http_req("POST", "/client", b, chunked=True), "client", b, info=dict(ep="client", legacy=0))
    # AMP endpoint: valid path, padded path, bad paths
    import base64
    for b in bodies[:8]:
        enc = base64.urlsafe_b64encode(b).decode().rstrip("=")
        for path, dec_ok in [("0/" + enc, 1), ("0abc/" + enc, 1), ("1/" + enc, 0), (enc, 0), ("0/" + enc + "!", 0), ("", 0), ("0/", 1)]:
            add("amp", http_req("GET", "/amp/client/" + path), "client" if dec_ok else "none", (b"" if path == "0/" else b) if dec_ok else b"",
                info=dict(ep="amp", pathdec=dec_ok, empty=(path == "0/")))
    # proxy polls: invalid bodies (valid ones would wait 10 s: covered by the scenario driver)
    pbodies = [b"", b"{}", b"notjson", json.dumps({"Sid": "s", "Version": "2.0"}).encode(), json.dumps({"Sid": "", "Version": "1.0"}).encode(),
               json.dumps({"Sid": "s", "Version": "1.0", "NAT": "bogus"}).encode(), b"[1,2,3]", b"\x00" * 10,
               json.dumps({"Sid": "s", "Version": "1.3", "Type": "standalone", "NAT": "unknown", "Clients": "many"}).encode()]
    for b in pbodies:
        add("proxy-invalid", http_req("POST", "/proxy", b), "proxy", b, info=dict(ep="proxy"))
    # well-formed polls whose accepted relay pattern does not cover the broker's allowed pattern: answered at once
    # (200, "incorrect relay pattern"); they are spread over the batch so that later requests run after them
    for i, pat in enumerate(["example.com$", "^snowflake.torproject.net.evil$", "^x$", "torproject.org$"]):
        b = json.dumps({"Sid": "rej%d" % i, "Version": "1.3", "Type": "standalone", "NAT": "unknown", "Clients": 0,
                        "AcceptedRelayPattern": pat}).encode()
        add("proxy-rejected-pattern", http_req("POST", "/proxy", b), "proxy", b, info=dict(ep="proxy"))
    abodies = [b"", b"{}", json.dumps({"Version": "1.0", "Sid": "nosuch", "Answer": "a"}).encode(),
               json.dumps({"Version": "1.0", "Sid": "s", "Answer": ""}).encode(), json.dumps({"Version": "3.0", "Sid": "s", "Answer": "a"}).encode(),
               json.dumps({"Version": "1.0", "Sid": "", "Answer": "a"}).encode(), b"garbage", json.dumps({"Version": "1.0", "Sid": 5, "Answer": "a"}).encode()]
    for b in abodies:
        add("answer", http_req("POST", "/answer", b), "answer", b, info=dict(ep="answer"))
    # body sizes around the 100000 byte limit, all POST endpoints
    for ep, twin in [("/client", "client"), ("/proxy", "proxy"), ("/answer", "answer")]:
        for n in [99999, 100000, 100001, 250000] + ([1000000] if ctx.tier == "thorough" else []):
            b = b"1.0\n" + b"z" * (n - 4)
            add("size-limit", http_req("POST", ep, b), twin if n <= 100000 else "none", b if n <= 100000 else b"",
                info=dict(ep=twin, toolarge=(n > 100000)))
            add("size-limit-chunked", http_req("POST", ep, b, chunked=True), twin if n <= 100000 else "none", b if n <= 100000 else b"",
                info=dict(ep=twin, toolarge=(n > 100000)))
        legacy_big = b"{" + b"q" * 100000
        add("size-limit-legacy", http_req("POST", "/client", legacy_big), "none", info=dict(ep="client", toolarge=True))
    # methods x endpoints (monitors only) incl. CORS preflight
    for ep in ["/proxy", "/client", "/answer", "/amp/client/0/abc", "/debug", "/metrics", "/prometheus", "/robots.txt", "/", "/nosuch", "/amp/client", "/client/extra", "/proxy?x=1"]:
        for m in ["GET", "POST", "OPTIONS", "HEAD", "PUT", "DELETE", "PATCH", "FOO"]:
            add("method-sweep", http_req(m, ep, b"x=1" if m in ("POST", "PUT", "PATCH") else b""), info=dict(options=(m == "OPTIONS"), ep_raw=ep))
    # random / mutated bodies
    n = 150 if ctx.tier == "quick" else 1500
    base = [client_body("o", nat="restricted", fp=FP), b'{"type":"offer"}', json.dumps({"Sid": "s", "Version": "1.0"}).encode()]
    for _ in range(n):
        b = bytearray(rng.choice(base))
        for _k in range(rng.randrange(0, 4)):
            if b:
                b[rng.randrange(len(b))] = rng.randrange(256)
        if rng.random() < 0.2:
            b = bytearray(rng.randbytes(rng.randrange(0, 64)))
        ep, twin = rng.choice([("/client", "client"), ("/answer", "answer")])
        b = bytes(b)
        if ep == "/client" and b[:1] == b"{":
            add("mutated-legacy", http_req("POST", ep, b, {"Snowflake-NAT-Type": rng.choice(["", "unknown", "zz"])}), "none", info=dict(ep="client"))
        else:
            add("mutated", http_req("POST", ep, b), twin, b, info=dict(ep=twin, legacy=0))
    return cases


def start_live(ctx, test_exe):
    """the broker binary over TCP and the concurrent soak, next to the rest of the check (they mostly wait)"""
    box = dict(viol=[], notshown=[], stats={})

    def work():
        try:
            bin_exe = vlib.go_build("./broker", name="broker")
        except vlib.GoBuildError as e:
            box["notshown"].append("live: `go build ./broker` failed: " + str(e)[-800:])
            return
        jobs = [lambda: c14live.run_binary(bin_exe, os.path.join(vlib.GOB, "c14live-%d" % os.getpid())),
                lambda: c14live.run_soak(test_exe, os.path.join(vlib.GOB, "c14soak-%d" % os.getpid()), 3000 if ctx.tier == "quick" else 8000)]
        if ctx.tier == "thorough":
            jobs += [lambda: c14live.run_soak(test_exe, os.path.join(vlib.GOB, "c14soak-%d-%d" % (os.getpid(), k)), 8000) for k in range(3)]
        ths = []
        res = [None] * len(jobs)

        def one(k):
            try:
                res[k] = jobs[k]()
            except Exception as e:   # machinery trouble is reported, never swallowed
                res[k] = ([], ["live: machinery error %r" % (e,)], {})
        for k in range(len(jobs)):
            t = threading.Thread(target=one, args=(k,), daemon=True)
            t.start()
            ths.append(t)
            if k >= 1:
                t.join()            # soaks one after the other; the binary scenario (mostly waiting) runs beside them
        for t in ths:
            t.join()
        for r in res:
            v, n, st = r
            box["viol"] += v
            box["notshown"] += n
            for k_, v_ in st.items():
                box["stats"][k_] = box["stats"].get(k_, 0) + v_ if k_.startswith("soak_") else v_
    th = threading.Thread(target=work, daemon=True)
    th.start()
    return th, box


def finish_live(ctx, th, box):
    th.join(400)
    if th.is_alive():
        ctx.not_shown("live: the broker binary / soak jobs did not finish within 400 s")
        return
    for key, what, rep in box["viol"]:
        ctx.violation(key, what, rep)
        ctx.count("live " + key + " " + what[:80], kind="live")
    for n in box["notshown"]:
        ctx.not_shown(n)
    st = box["stats"]
    for name in ("idle-poll", "client-v-silent", "client-l-silent", "client-a-silent"):
        ctx.count("live-binary " + name, kind="live-binary-slow-response")
    ctx.count("live-binary immediate x%d" % st.get("live_requests", 0), kind="live-binary")
    ctx.count("soak matches=%s debug=%s" % (st.get("soak_matches"), st.get("soak_debug")), kind="soak")
    ctx.extra["live"] = st


def run(ctx):
    exe = vlib.go_test_build("./broker", name="broker.test")
    live_th, live_box = start_live(ctx, exe)
    try:
        run_rest(ctx, exe)
    finally:
        finish_live(ctx, live_th, live_box)


def run_rest(ctx, exe):
    env = dict(os.environ, VERIF_DRIVER="brokerhttp")
    ctx.assumptions += ["model = coq/Model/BrokerHttp.v (handlers as total functions of read result and IPC outcome); IPC outcome per case observed by a direct IPC call on the versioned twin body",
                        "net/http framing, MaxBytesReader and the AMP armor are library code: monitored (complete response, connection reusable, server alive), not modelled"]
    ctx.trusted.append("harness/overlay/broker/zz_verif_http_test.go (raw TCP client, real net/http server with the routes of main())")
    ctx.trusted.append("lib/checks/c14live.py (python http.client against the broker binary started from main()); harness/overlay/broker/zz_verif_soak_test.go")
    cases = gen(ctx)
    cases.sort(key=lambda c: 0 if c[0] == "proxy-rejected-pattern" else 1)   # stable: the rejected polls go first
    lines = [c[1] for c in cases]
    rc, out, err = vlib.run_impl(exe, lines, args=["-test.run", "^TestVerifHttpDriver$"], env=env, timeout=900)
    if rc != 0 or len(out) != len(lines):
        ctx.violation("driver-crash", "broker http driver died rc=%s (a request may have crashed the process): %s" % (rc, err[-800:]),
                      dict(label="http", stderr=err[-3000:]))
        return
    mlines, minfo = [], []
    for (kind, line, info), o in zip(cases, out):
        ctx.count(line[:400], kind=kind)
        d = brokerlib.parse_obs(o)
        rep = dict(label="http", kind=kind, case=line[:6000], impl=o[:1500])
        if o.startswith("!"):
            ctx.violation("request-" + o.split(" ")[0].strip("!"), "request made the driver fail: " + o[:200], rep)
            continue
        if d.get("srv") != "alive":
            ctx.violation("server-dead", "broker stopped answering after the request batch", rep)
        if d.get("reuse") in ("noresponse", "badbody"):
            ctx.violation("no-wellformed-response", "request got no complete well-formed HTTP response (%s) [%s]" % (d.get("reuse"), kind), rep)
            continue
        if d.get("reuse") in ("closed",) or d.get("reuse", "").startswith("bad"):
            ctx.violation("connection-mishandled", "connection not usable for a following request (%s) [%s]" % (d.get("reuse"), kind), rep)
        if int(d.get("ms", "0")) > 8000:
            ctx.violation("slow-response", "immediate-outcome request took %s ms [%s]" % (d.get("ms"), kind), rep)
        st = int(d.get("status", "0"))
        if not (100 <= st <= 599):
            ctx.violation("bad-status", "status %d" % st, rep)
        if info.get("toolarge") and st != 400 and not info.get("options"):
            ctx.violation("oversize-body-accepted", "body beyond the 100000 byte limit answered with %d, not 400 [%s]" % (st, kind), rep)
        # model prediction for the handler-level cases
        ep = info.get("ep")
        if ep in ("client", "proxy", "answer", "amp") and (d.get("ipc", "-") != "-" or info.get("toolarge") or (ep == "amp" and not info.get("pathdec"))):
            ml = "brokerhttp predict h1 %s 0 %s %d %s %s %s 1 %d" % (
                ep, "toolarge" if info.get("toolarge") else "ok", info.get("legacy", 0),
                d.get("ipc") if d.get("ipc", "-") != "-" else "other", d.get("resp", "x"), d.get("dec", "none"), info.get("pathdec", 1))
            mlines.append(ml)
            minfo.append((kind, line, o, d, info))
    if mlines:
        mout = vlib.run_model(mlines)
        for (kind, line, o, d, info), ml, mo in zip(minfo, mlines, mout):
            md = brokerlib.parse_obs(mo)
            st = d.get("status")
            same = (md.get("status") == st)
            # bodies are compared where the handler's body is a function of the IPC response
            if same and info.get("ep") in ("client", "proxy", "answer") and st == "200":
                same = (md.get("body") == d.get("body")) or len(d.get("body", "")) >= 8192
            if mo == "panic" or not same:
                rep = dict(label="http", kind=kind, case=line[:6000], impl=o[:1500], model=mo[:600])
                if info.get("legacy") and st != md.get("status"):
                    ctx.violation("legacy-not-equivalent", "legacy request answered %s but its versioned equivalent maps to %s [%s]" % (st, md.get("status"), kind), rep)
                else:
                    ctx.not_shown("correspondence http: handler model and implementation disagree on %s: impl=%s model=%s" % (kind, o[:200], mo[:200]))
        sample = [(l, m) for l, m in zip(mlines, mout) if len(l) < 500][:25]
        for i in vlib.coq_crosscheck(sample):
            ctx.not_shown("extraction cross-check differs on " + sample[i][0][:300])
        ctx.extra["vm_compute_crosschecked"] = len(sample)
        ctx.extra["handler_predictions"] = len(mlines)
    # legacy == versioned through real matches, timeouts and answers: the scenario driver with client modes l / v / a
    scens = [s for s in brokerlib.scenarios(ctx.rng, ctx.tier) if s.kind in ("match-answer", "client-timeout-late-answer", "no-proxies", "incompatible-pool", "early-answer-then-match")]
    # explicit legacy / versioned / AMP twins whose answers contain characters a careless legacy path could mangle
    twins = []
    for j, ans in enumerate(["a%d%s%25-x", "%", "100%%", "{v=0%0d%0a}", "plain"]):
        for mode in ("l", "v", "a"):
            sc = brokerlib.Scen("twin%d%s" % (j, mode), "legacy-versioned-twin")
            sid = "twsid%d%s" % (j, mode)
            sc.poll(0, sid, "unrestricted")
            sc.client(300, "restricted", "{tw%d%s}" % (j, mode), mode=mode)
            sc.answer(150, sid, ans, after_poll=0)
            twins.append((sc, ans))
    scens += [t[0] for t in twins]
    before = len(ctx.unproven)
    brokerlib.run_scenarios(ctx, scens, {"C14", "C04"}, "http-scenarios")
    # a disagreement on a twin scenario means the endpoint did not return the posted answer verbatim: that is C14's clause
    for u in ctx.unproven[before:]:
        if "scenario twin" in u and "'C0'" in u:
            ctx.violation("legacy-not-equivalent", "a client endpoint did not return the posted answer byte for byte: " + u[u.find("scenario twin"):][:300],
                          dict(label="http-scenarios", detail=u[:1500]))


def replay(ctx, doc):
    exe = vlib.go_test_build("./broker", name="broker.test")
    env = dict(os.environ, VERIF_DRIVER="brokerhttp")
    bad = 0
    for v in doc.get("violations", []):
        case = v["replay"].get("case")
        if not case or not case.startswith("brokerhttp"):
            continue
        rc, out, err = vlib.run_impl(exe, [case], args=["-test.run", "^TestVerifHttpDriver$"], env=env)
        print("case: %s\n impl: %s" % (case[:300], out[0] if out else "!died rc=%s %s" % (rc, err[-300:])))
        bad += 1
    return 1 if bad else 0
