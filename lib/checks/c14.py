"""C14 — every HTTP request to the broker gets a well-formed response; legacy == versioned."""
import json
import os
import re
import threading
import vlib
from checks import brokerlib, c14live

CID = "C14"
FP = brokerlib.DEFAULT_FP


def hx(b):
    return "x" + b.hex()


class Raw(bytes):
    """a raw request that remembers what it was built from (for the model's request record)"""
    meta = None


def http_req(method, path, body=b"", headers=None, chunked=False, version="1.1"):
    hl = [("Host", "broker.example")]
    hl += list(headers.items()) if isinstance(headers, dict) else list(headers or [])
    if chunked:
        hl.append(("Transfer-Encoding", "chunked"))
        payload = b""
        i = 0
        while i < len(body):
            part = body[i:i + 7000]
            payload += ("%x\r\n" % len(part)).encode() + part + b"\r\n"
            i += 7000
        payload += b"0\r\n\r\n"
    else:
        if body or method in ("POST", "PUT"):
            hl.append(("Content-Length", str(len(body))))
        payload = body
    head = ("%s %s HTTP/%s\r\n" % (method, path, version)).encode()
    for k, v in hl:
        head += (k if isinstance(k, bytes) else k.encode()) + b":" + (v if isinstance(v, bytes) else v.encode()) + b"\r\n"
    r = Raw(head + b"\r\n" + payload)
    r.meta = dict(method=method, path=path, hdrs=[((k if isinstance(k, bytes) else k.encode()), (v if isinstance(v, bytes) else v.encode())) for k, v in hl], body=body)
    return r


TOKEN = set(b"!#$%&'*+-.^_`|~0123456789abcdefghijklmnopqrstuvwxyzABCDEFGHIJKLMNOPQRSTUVWXYZ")


def py_canon(k):
    """textproto.CanonicalMIMEHeaderKey, independently"""
    if any(c not in TOKEN for c in k):
        return k
    out, upper = bytearray(), True
    for c in k:
        ch = bytes([c])
        ch = ch.upper() if upper else ch.lower()
        out += ch
        upper = ch == b"-"
    return bytes(out)


def py_header_get(hdrs, key):
    for k, v in hdrs:
        if py_canon(k) == py_canon(key):
            return v.strip(b" \t")
    return b""


def clean_path(p):
    """paths the model's route function is for: what ServeMux neither redirects nor unescapes"""
    if not p.startswith("/") or "%" in p or "#" in p or " " in p:
        return False
    segs = p[1:].split("/")
    return all(sg not in ("", ".", "..") for sg in segs[:-1]) and segs[-1] not in (".", "..")


def payload_tok(b):
    if len(b) > 64:
        a = b[0]
        if b == bytes((a + i) & 255 for i in range(len(b))):
            return "g%d.%d" % (len(b), a)
    return hx(b)


def gbytes(n, a):
    return bytes((a + i) & 255 for i in range(n))


ERRRESP = b'{"error":"cannot decode URL path"}'
METRICS_CONTENT = b"snowflake-stats-end 2026-01-01 00:00:00 (86400 s)\nsnowflake-ips \nsnowflake-idle-count 0\n"
KNOWN_TYPES = [b"standalone", b"badge", b"webext", b"iptproxy"]


def kv_tok(pairs):
    return ",".join("%s:%s" % (hx(k), hx(v)) for k, v in pairs) or "-"


def serve_line(via, method, path, hdrs, body, ipc="other", resp="x", dec="none", snow=(), metrics=METRICS_CONTENT):
    return "brokerhttp serve %s %s %s %s %s %s %s %s %s %s %s x50" % (
        via, hx(method.encode()), hx(path.encode("latin1")), kv_tok(hdrs), payload_tok(body), ipc, resp, dec, hx(ERRRESP), kv_tok(snow),
        "n" if metrics is None else hx(metrics))


def norm_debug(body):
    """the per-type lines of /debug come out of a Go map iteration: put them in the model's order"""
    lines = body.split(b"\n")
    head, types, rest = lines[:1], [], []
    for l in lines[1:]:
        (types if (l.startswith(b"\t") and l.endswith(b"") and b" proxies: " in l and not l.startswith(b"\tunknown proxies")) else rest).append(l)
    order = {t: i for i, t in enumerate(KNOWN_TYPES)}
    types.sort(key=lambda l: order.get(l[1:].split(b" ")[0], 99))
    return b"\n".join(head + types + rest)


def client_body(offer, nat=None, fp=None, version="1.0"):
    d = {"offer": offer}
    if nat is not None:
        d["nat"] = nat
    if fp is not None:
        d["fingerprint"] = fp
    return (version + "\n" + json.dumps(d)).encode()


READ_LIMIT = 100000


def at_limit_specs(ctx):
    """legacy bodies (all within the read limit) whose versioned encoding lands on both sides of the limit:
    (1) offers without a character to escape, sized so that the encoding (offer + version line, field names, NAT type, default
        fingerprint: 82 bytes + the NAT type) is 99 999 .. 100 0xx bytes; (2) quote / backslash / control-character heavy offers of
        50-60 KB which JSON escaping grows up to two- and sixfold; (3) offers cycling through all byte values (invalid UTF-8 becomes
        \ufffd). -> (body, NAT header value or None)"""
    rng = ctx.rng
    specs = []
    for nat, sizes in [(None, [99917, 99918, 99919, 99920, 99950, 100000]), ("restricted", [99908, 99909]), ("unknown", [99911, 99912])]:
        for n in sizes:
            specs.append((b"{" + b"y" * (n - 1), nat))
    heavy = [b'"' * 55000, b"\\" * 52000, b"\x01" * 50000, b'\\"' * 29000, b"\n\t" * 27000]
    alphabet = [b'"', b"\\", b"\n", b"\r", b"\t", b"\x01", b"\x1f", b"<", b">", b"&", b"\x08", b"\x0c"]
    for dens in [0.1, 0.2, 0.3, 0.45, 0.6, 0.75, 0.9] * (1 if ctx.tier == "quick" else 6):
        n = rng.randrange(50000, 60001)
        heavy.append(b"".join(rng.choice(alphabet) if rng.random() < dens else b"a" for _ in range(n)))
    for h in heavy:
        specs.append((b"{" + h, rng.choice([None, "restricted", "unknown", "unrestricted"])))
    for n in [20000, 30000, 40000, 100000]:
        specs.append((gbytes(n, 123), rng.choice([None, "restricted"])))
    return specs


def gen(ctx, twinenc=None):
    rng = ctx.rng
    cases = []   # (kind, line, info)

    def add(kind, raw, twin="none", twinbody=b"", nat=b"", info=None):
        info = dict(info or {})
        m = getattr(raw, "meta", None)
        if m is not None and clean_path(m["path"].split("?")[0]) and m["method"] != "CONNECT":
            info["rq"] = m
        cases.append((kind, "brokerhttp req %s %s %s %s" % (hx(raw), twin, hx(twinbody), hx(nat)), info))

    def other(kind, line, info):
        cases.append((kind, "brokerhttp " + line, info))

    nat_values = [None, "", "unknown", "restricted", "unrestricted", "bogus", "Restricted", "x" * 300, "unrestricted "]
    # legacy client requests and their versioned twins (empty broker: no proxies / errors are immediate)
    for nat in nat_values:
        for offer in ['{"type":"offer","sdp":"x"}', "{", "{}", '{"a":"\\u00e9"}', "{" + "y" * 2000]:
            hdr = {} if nat is None else {"Snowflake-NAT-Type": nat}
            twin = client_body(offer, nat=("" if nat is None else nat.strip(" \t")))  # net/http trims optional whitespace around field values
            add("client-legacy", http_req("POST", "/client", offer.encode(), hdr), "client", twin, info=dict(ep="client", legacy=1))
            add("client-versioned-twin", http_req("POST", "/client", twin), "client", twin, info=dict(ep="client", legacy=0))
    # the NAT type header under every spelling / duplication / white space the server accepts
    spellings = ["Snowflake-NAT-Type", "Snowflake-Nat-Type", "snowflake-nat-type", "SNOWFLAKE-NAT-TYPE", "sNOWFLAKE-nAT-tYPE", "Snowflake_NAT_Type",
                 "Snowflake-NAT-Typ", "Snowflake-NAT-Types", "X-Snowflake-NAT-Type", "Snowflake-NAT--Type"]
    for sp in spellings:
        for val in ["restricted", "bogus", "", " unrestricted\t", "\tunknown"]:
            hdr = [(sp, val)]
            offer = '{"type":"offer","sdp":"h"}'
            natv = py_header_get([(k.encode(), v.encode()) for k, v in hdr], b"Snowflake-NAT-Type").decode()
            twin = client_body(offer, nat=natv)
            add("nat-header-spelling", http_req("POST", "/client", offer.encode(), hdr), "client", twin, info=dict(ep="client", legacy=1))
    for hdr in [[("Snowflake-NAT-Type", "bogus"), ("Snowflake-NAT-Type", "restricted")], [("snowflake-nat-type", "restricted"), ("Snowflake-NAT-Type", "bogus")],
                [("Snowflake-NAT-Type", ""), ("Snowflake-NAT-Type", "bogus")], [("X-Other", "1"), ("SNOWFLAKE-NAT-TYPE", " bogus "), ("Snowflake-Nat-Type", "unknown")],
                [("Snowflake-NAT-Type", "restricted,unrestricted")], [("Snowflake-NAT-Type", "un known")]]:
        offer = '{"type":"offer","sdp":"d"}'
        natv = py_header_get([(k.encode(), v.encode()) for k, v in hdr], b"Snowflake-NAT-Type").decode()
        add("nat-header-duplicates", http_req("POST", "/client", offer.encode(), hdr), "client", client_body(offer, nat=natv), info=dict(ep="client", legacy=1))
    # versioned client requests: decode errors, fingerprints
    bodies = [client_body("o"), client_body("o", nat="restricted"), client_body("o", fp=FP), client_body("o", fp="C" * 40),
              client_body("o", fp="zz"), client_body("o", fp="AB" * 19), client_body("", nat="unknown"), client_body("o", version="2.0"),
              client_body("o", version="1.1"), b"1.0\n", b"1.0", b"", b"\n", b"1.0\nnotjson", b"1.0\n[]", b"1.0\nnull", b"\xff\xfe\x00",
              client_body("o", nat="bogus"), b"1.0\n" + json.dumps({"offer": 5}).encode()]
    for b in bodies:
        add("client-versioned", http_req("POST", "/client", b), "client", b, info=dict(ep="client", legacy=0))
        add("client-versioned-chunked", http_req("POST", "/client", b, chunked=True), "client", b, info=dict(ep="client", legacy=0))
    # AMP endpoint: valid path, padded path, bad paths
    import base64
    for b in bodies[:8]:
        enc = base64.urlsafe_b64encode(b).decode().rstrip("=")
        for path, dec_ok in [("0/" + enc, 1), ("0abc/" + enc, 1), ("1/" + enc, 0), (enc, 0), ("0/" + enc + "!", 0), ("", 0), ("0/", 1)]:
            add("amp", http_req("GET", "/amp/client/" + path), "client" if dec_ok else "none", (b"" if path == "0/" else b) if dec_ok else b"",
                info=dict(ep="amp", pathdec=dec_ok, empty=(path == "0/")))
    # proxy polls: invalid bodies (valid ones would wait 10 s: covered by the scenario driver)
    pbodies = [b"", b"{}", b"notjson", json.dumps({"Sid": "s", "Version": "2.0"}).encode(), json.dumps({"Sid": "", "Version": "1.0"}).encode(),
               json.dumps({"Sid": "s", "Version": "1.0", "NAT": "bogus"}).encode(), b"[1,2,3]", b"\x00" * 10,
               json.dumps({"Sid": "s", "Version": "1.3", "Type": "standalone", "NAT": "unknown", "Clients": "many"}).encode()]
    for b in pbodies:
        add("proxy-invalid", http_req("POST", "/proxy", b), "proxy", b, info=dict(ep="proxy"))
    # well-formed polls whose accepted relay pattern does not cover the broker's allowed pattern: answered at once
    # (200, "incorrect relay pattern"); they are spread over the batch so that later requests run after them
    for i, pat in enumerate(["example.com$", "^snowflake.torproject.net.evil$", "^x$", "torproject.org$"]):
        b = json.dumps({"Sid": "rej%d" % i, "Version": "1.3", "Type": "standalone", "NAT": "unknown", "Clients": 0,
                        "AcceptedRelayPattern": pat}).encode()
        add("proxy-rejected-pattern", http_req("POST", "/proxy", b), "proxy", b, info=dict(ep="proxy"))
    abodies = [b"", b"{}", json.dumps({"Version": "1.0", "Sid": "nosuch", "Answer": "a"}).encode(),
               json.dumps({"Version": "1.0", "Sid": "s", "Answer": ""}).encode(), json.dumps({"Version": "3.0", "Sid": "s", "Answer": "a"}).encode(),
               json.dumps({"Version": "1.0", "Sid": "", "Answer": "a"}).encode(), b"garbage", json.dumps({"Version": "1.0", "Sid": 5, "Answer": "a"}).encode()]
    for b in abodies:
        add("answer", http_req("POST", "/answer", b), "answer", b, info=dict(ep="answer"))
    # Version strings from a small grammar x otherwise valid bodies, on /proxy, /answer, /client: no version string, however
    # malformed (no dot, empty minor, non-numeric parts, leading zero / space, very long), may cost the response. All
    # outcomes are immediate: the polls carry a relay pattern the broker rejects (answered at once when the version is
    # accepted), the answers name an unknown session, the clients find no proxy.
    versions = ["", "1", "1.", "1.0", "1.3", "1.10", "2", "2.0", "1.x", "01.0", " 1.0", "1.0 ", ".", ".1", "1..", "1.0.0", "1.-1", "-1.0", "1e0",
                "1." + "9" * 3000, "1" + "0" * 3000, "\u0661.0", "1\u00000", "1.0\n"]
    for v in versions:
        for extra in ([{}] if ctx.tier == "quick" else [{}, {"Extra": 1}]):
            b = json.dumps(dict({"Sid": "vg", "Version": v, "Type": "standalone", "NAT": "unknown", "Clients": 0, "AcceptedRelayPattern": "^x$"}, **extra)).encode()
            add("version-grammar-proxy", http_req("POST", "/proxy", b), "proxy", b, info=dict(ep="proxy"))
            b = json.dumps(dict({"Version": v, "Sid": "nosuch-vg", "Answer": "a"}, **extra)).encode()
            add("version-grammar-answer", http_req("POST", "/answer", b), "answer", b, info=dict(ep="answer"))
        if "\n" not in v[:-1] or v.endswith("\n"):
            b = client_body("o", nat="restricted", fp=FP, version=v)
            add("version-grammar-client", http_req("POST", "/client", b), "client", b, info=dict(ep="client", legacy=0))
    for vjson in [b"1", b"1.0", b"null", b"[\"1.0\"]", b"{}", b"true"]:       # a Version member that is not a JSON string
        b = b'{"Sid":"vg","Version":' + vjson + b',"Type":"standalone","NAT":"unknown","Clients":0,"AcceptedRelayPattern":"^x$"}'
        add("version-grammar-proxy", http_req("POST", "/proxy", b), "proxy", b, info=dict(ep="proxy"))
        b = b'{"Version":' + vjson + b',"Sid":"nosuch-vg","Answer":"a"}'
        add("version-grammar-answer", http_req("POST", "/answer", b), "answer", b, info=dict(ep="answer"))
    for b in [json.dumps({"Sid": "vg", "Type": "standalone", "NAT": "unknown", "Clients": 0}).encode(), json.dumps({"Sid": "nosuch-vg", "Answer": "a"}).encode()]:
        add("version-grammar-proxy", http_req("POST", "/proxy", b), "proxy", b, info=dict(ep="proxy"))      # no Version member at all
        add("version-grammar-answer", http_req("POST", "/answer", b), "answer", b, info=dict(ep="answer"))
    # body sizes around the 100000 byte limit, all POST endpoints
    for ep, twin in [("/client", "client"), ("/proxy", "proxy"), ("/answer", "answer")]:
        for n in [99999, 100000, 100001, 250000] + ([1000000] if ctx.tier == "thorough" else []):
            b = gbytes(n, 49)
            add("size-limit", http_req("POST", ep, b), twin if n <= 100000 else "none", b if n <= 100000 else b"",
                info=dict(ep=twin, toolarge=(n > 100000)))
            add("size-limit-chunked", http_req("POST", ep, b, chunked=True), twin if n <= 100000 else "none", b if n <= 100000 else b"",
                info=dict(ep=twin, toolarge=(n > 100000)))
        legacy_big = gbytes(100001, 123)
        add("size-limit-legacy", http_req("POST", "/client", legacy_big), "none", info=dict(ep="client", toolarge=True))
        add("size-limit-options", http_req("OPTIONS", ep, gbytes(100001, 49)), "none", info=dict(options=True))
    # methods x endpoints (monitors only) incl. CORS preflight
    for ep in ["/proxy", "/client", "/answer", "/amp/client/0/abc", "/debug", "/metrics", "/prometheus", "/robots.txt", "/", "/nosuch", "/amp/client", "/client/extra", "/proxy?x=1"]:
        for m in ["GET", "POST", "OPTIONS", "HEAD", "PUT", "DELETE", "PATCH", "FOO"]:
            add("method-sweep", http_req(m, ep, b"x=1" if m in ("POST", "PUT", "PATCH") else b""), info=dict(options=(m == "OPTIONS"), ep_raw=ep))
    # random / mutated bodies
    n = 150 if ctx.tier == "quick" else 1500
    base = [client_body("o", nat="restricted", fp=FP), b'{"type":"offer"}', json.dumps({"Sid": "s", "Version": "1.0"}).encode()]
    for _ in range(n):
        b = bytearray(rng.choice(base))
        for _k in range(rng.randrange(0, 4)):
            if b:
                b[rng.randrange(len(b))] = rng.randrange(256)
        if rng.random() < 0.2:
            b = bytearray(rng.randbytes(rng.randrange(0, 64)))
        ep, twin = rng.choice([("/client", "client"), ("/answer", "answer")])
        b = bytes(b)
        if ep == "/client" and b[:1] == b"{":
            add("mutated-legacy", http_req("POST", ep, b, {"Snowflake-NAT-Type": rng.choice(["", "unknown", "zz"])}), "none", info=dict(ep="client"))
        else:
            add("mutated", http_req("POST", ep, b), twin, b, info=dict(ep=twin, legacy=0))
    # the legacy shim at the size limit (C14_legacy_twin / C14_legacy_twin_over_limit): the legacy request and, as a request of
    # its own, the versioned body the broker shims it into (obtained from the implementation's own encoder: op twinenc)
    if twinenc is not None:
        specs = at_limit_specs(ctx)
        twins = twinenc([(body, (nat or "").encode()) for body, nat in specs])
        for j, ((body, nat), twin) in enumerate(zip(specs, twins)):
            over = len(twin) > READ_LIMIT
            hdr = {} if nat is None else {"Snowflake-NAT-Type": nat}
            add("legacy-at-limit-" + ("over" if over else "within"), http_req("POST", "/client", body, hdr), "client", twin,
                info=dict(ep="client", legacy=1, pair=j, side="l", over=over, twin=twin))
            add("versioned-twin-" + ("over-limit" if over else "within-limit"), http_req("POST", "/client", twin), "none" if over else "client",
                b"" if over else twin, info=dict(ep="client", legacy=0, toolarge=over, pair=j, side="t", over=over))
    gen_refined(ctx, add, other)
    return cases


def gen_refined(ctx, add, other):
    """cases for the refined model: preflights with bodies, the AMP handler on paths the mux does not let through, /metrics on other
    files, /debug on brokers with registered proxies, header lookup, request histories"""
    rng = ctx.rng
    thorough = ctx.tier == "thorough"
    import base64
    b64 = lambda b: base64.urlsafe_b64encode(b).decode().rstrip("=")
    # OPTIONS on every route, with and without bodies, valid and not
    for ep in ["/proxy", "/client", "/answer", "/amp/client/0/" + b64(client_body("o")), "/amp/client/!", "/debug", "/metrics", "/prometheus", "/robots.txt", "/nosuch", "/amp/client"]:
        for body in [b"", b"{}", client_body("o"), b"\xff" * 40]:
            add("options-sweep", http_req("OPTIONS", ep, body, [("Origin", "https://snowflake.torproject.org"), ("Access-Control-Request-Method", "POST")]), info=dict(options=True))
        add("options-lowercase", http_req("options", ep, b""), info={})
        add("head-sweep", http_req("HEAD", ep, b""), info={})
    # the AMP handler called directly with URL paths outside its route (the mux never lets these through)
    poll = client_body("o")
    for path in ["", "/", "/amp/client", "/amp/clientx/0/" + b64(poll), "/AMP/CLIENT/0/" + b64(poll), "amp/client/0/" + b64(poll), "/x/amp/client/0/" + b64(poll),
                 "/client", "/amp/client\x00/0/x", "/amp/", "/amp/client/", "/amp/client/0/" + b64(poll), "/amp/client/0//" + b64(poll), "/amp/client//0/" + b64(poll),
                 "/amp/client/0/!", "/amp/client/1/" + b64(poll), "/amp/client/0abc/x/y/" + b64(poll)]:
        for method in ["GET", "OPTIONS", "POST"]:
            ok = path.startswith("/amp/client/")
            dec = None
            if ok:
                from checks import c11
                dec = c11.py_decode_path(path[len("/amp/client/"):].encode("latin1"))
            other("amp-direct", "direct amp %s %s x n %s %s" % (hx(method.encode()), hx(path.encode("latin1")), "client" if dec is not None else "none", hx(dec or b"")),
                  dict(op="direct", via="amp", method=method, path=path, body=b"", metrics=METRICS_CONTENT, prefix_ok=ok))
    # /metrics on no file, an unreadable name, an empty file, contents of several sizes
    for content in [None, b"", b"x", METRICS_CONTENT, b"\x00\xff" * 50, gbytes(70000, 65)] + ([gbytes(1000000, 65)] if thorough else []):
        for method in ["GET", "OPTIONS", "POST"]:
            other("metrics-direct", "direct metrics %s %s x %s none x" % (hx(method.encode()), hx(b"/metrics"), "n" if content is None else payload_tok(content)),
                  dict(op="direct", via="metrics", method=method, path="/metrics", body=b"", metrics=content))
    # /debug as a function of the registered proxies
    types = [b"standalone", b"badge", b"webext", b"iptproxy", b"unknown", b"strange", b"", b"Standalone"]
    nats = [b"restricted", b"unrestricted", b"unknown", b"", b"bogus"]
    views = [[], [(b"standalone", b"restricted")], [(t, n) for t in types for n in nats]]
    for _ in range(40 if not thorough else 400):
        views.append([(rng.choice(types), rng.choice(nats)) for _ in range(rng.choice([1, 2, 3, 5, 9, 10, 11, 40, 120]))])
    for v in views:
        other("debug-view", "debugview " + kv_tok(v), dict(op="debugview", view=v))
    # Header.Get under spellings and duplicates
    for _ in range(60 if not thorough else 600):
        names = [b"Snowflake-NAT-Type", b"snowflake-nat-type", b"SNOWFLAKE-NAT-TYPE", b"Snowflake-Nat-Type", b"snowflake_nat_type", b"X-A", b"a", b"A-b-C", b"a--b", b"-a", b"A1-b2"]
        hd = [(rng.choice(names), rng.choice([b"v1", b" v2", b"v3 \t", b"", b"\t", b"a b", b"restricted"])) for _ in range(rng.randrange(0, 5))]
        other("header-get", "hdrget %s %s" % (kv_tok(hd), hx(rng.choice(names))), dict(op="hdrget"))
    # histories: the same good requests with and without malformed ones in between, on a fresh broker each
    for k in range(12 if not thorough else 120):
        gen_history(ctx, other, k)
    # answers posted again and again for a poll that is still waiting (a proxy retrying /answer; no client was matched):
    # every one of them gets a complete response, and so do the requests that follow
    for k, (n, nat) in enumerate([(2, "unrestricted"), (3, "restricted"), (4, "unknown")] + ([(6, ""), (2, "restricted")] if thorough else [])):
        sid = "dupans-%d" % k
        view = [(sid, "standalone", nat or "unknown")]
        evs = [dict(ev="P:%s:%s:%s" % (hx(sid.encode()), hx(b"standalone"), hx(nat.encode())), cls="good", view=list(view))]
        for j in range(n):
            raw = http_req("POST", "/answer", json.dumps({"Version": "1.0", "Sid": sid, "Answer": "a%d" % j}).encode())
            evs.append(dict(ev="R:" + raw.hex(), cls="good", rq=raw.meta, view=list(view)))
        raw = http_req("GET", "/debug")
        evs.append(dict(ev="R:" + raw.hex(), cls="probe", rq=raw.meta, view=list(view)))
        other("history-repeated-answer", "seq " + ";".join(e["ev"] for e in evs), dict(op="seq", hist=5000 + k, variant="full", events=evs))
    # repeated session ids over TCP: the same /proxy request again while the first is pending / matched / just answered;
    # every one of them must get a complete response within the protocol's 10 s wait (plus slack)
    k = 0
    for mode in ("pending", "matched", "expired"):
        for nat in (["unrestricted", "restricted"] if not thorough else ["unrestricted", "restricted", "unknown", ""]):
            if not thorough and (mode, nat) in (("expired", "restricted"),):
                continue
            k += 1
            other("repeated-session-id", "duppoll %s %s %s" % (mode, hx(("dup-%s-%d" % (mode, k)).encode()), hx(nat.encode())),
                  dict(op="duppoll", mode=mode, nat=nat))


def gen_history(ctx, other, k):
    rng = ctx.rng
    import base64
    b64 = lambda b: base64.urlsafe_b64encode(b).decode().rstrip("=")
    view = []          # (sid, ptype as stored, nat as stored), in registration order
    events = []        # dict(ev=token, cls=good|probe|noipc|rejected, expect=..., rq=meta)
    nsid = [0]

    def reg():
        nsid[0] += 1
        sid = "h%d-%d" % (k, nsid[0])
        ptype = rng.choice(["standalone", "badge", "webext", "iptproxy", "strange", ""])
        nat = rng.choice(["restricted", "unrestricted", "unknown", ""])
        view.append((sid, (ptype if ptype.encode() in KNOWN_TYPES else "unknown"), nat or "unknown"))
        events.append(dict(ev="P:%s:%s:%s" % (hx(sid.encode()), hx(ptype.encode()), hx(nat.encode())), cls="good", view=list(view)))

    def rq(cls, raw, **kw):
        events.append(dict(ev="R:" + raw.hex(), cls=cls, rq=raw.meta, view=list(view), **kw))

    def good_client():
        nat = rng.choice(["unknown", "restricted", "unrestricted"])
        pool = [v for v in view if (v[2] != "unrestricted") == (nat == "unrestricted")]
        offer = "offer-%d-%d" % (k, len(events))
        mode = rng.choice(["v", "v", "l", "a"])
        if mode == "v":
            raw = http_req("POST", "/client", client_body(offer, nat=nat))
        elif mode == "l":
            offer = "{" + offer + "}"
            raw = http_req("POST", "/client", offer.encode(), [("snowflake-nat-type", nat)])
        else:
            raw = http_req("GET", "/amp/client/0" + rng.choice(["", "AAAA", "x-_"]) + "/" + b64(client_body(offer, nat=nat)))
        if len(pool) == 1:
            view.remove(pool[0])
            rq("good", raw, expect=("answer", mode, "ANS:" + offer))
        elif len(pool) == 0:
            rq("good", raw, expect=("noproxies", mode, None))
        # (several eligible proxies: which one is taken is the matching order, C02's matter - not generated here)

    def probe():
        rq("probe", http_req("GET", rng.choice(["/debug", "/debug", "/debug", "/metrics", "/robots.txt"])))

    def noipc():
        c = rng.randrange(9)
        raw = [lambda: http_req("OPTIONS", rng.choice(["/proxy", "/client", "/answer", "/amp/client/0/QQ", "/debug"]), rng.choice([b"", client_body("o")])),
               lambda: http_req("POST", rng.choice(["/proxy", "/client", "/answer"]), gbytes(100001 + rng.randrange(3), rng.choice([49, 123]))),
               lambda: http_req("GET", "/amp/client/" + rng.choice(["", "1/QQ", "0", "0/!", "0AAAA/A", "00"])),
               lambda: http_req(rng.choice(["GET", "POST", "DELETE"]), rng.choice(["/", "/nosuch", "/client/x", "/proxy/", "/amp"]), b""),
               lambda: http_req("HEAD", rng.choice(["/debug", "/robots.txt", "/nosuch"])),
               lambda: http_req("GET", "/prometheus"),
               lambda: http_req("POST", "/robots.txt", b"x=1"),
               lambda: http_req("GET", "/amp/client"),
               lambda: http_req("FOO", "/debug")][c]()
        rq("noipc", raw)

    def rejected():
        raw = rng.choice([lambda: http_req("POST", "/proxy", rng.choice([b"", b"notjson", b'{"Sid":"","Version":"1.0"}', b'{"Sid":"s","Version":"9.0"}', b'{"Sid":"s","Version":"1.0","NAT":"bogus"}'])),
                          lambda: http_req("POST", "/answer", rng.choice([b"", b"{}", b'{"Version":"1.0","Sid":"","Answer":"a"}', b"\xff"])),
                          lambda: http_req("POST", "/client", rng.choice([b"", b"1.0", b"2.0\n{}", b"1.0\n{}", b"\x00", client_body("o", nat="bogus"), client_body("o", fp="zz")])),
                          lambda: http_req("POST", "/client", b"{legacy}", [("Snowflake-NAT-Type", "bogus")]),
                          lambda: http_req("GET", "/amp/client/0/" + b64(rng.choice([b"", b"junk", b"1.0\n{}"])))])()
        rq("rejected", raw)

    n = rng.choice([6, 10, 16])
    for _ in range(n):
        r = rng.random()
        if r < 0.22:
            reg()
        elif r < 0.42:
            good_client()
        elif r < 0.6:
            probe()
        elif r < 0.85:
            noipc()
        else:
            rejected()
        if rng.random() < 0.5:
            probe()
    events.append(dict(ev="R:" + http_req("GET", "/debug").hex(), cls="probe", rq=http_req("GET", "/debug").meta, view=list(view)))
    full = events
    no_noipc = [e for e in events if e["cls"] != "noipc"]
    no_bad = [e for e in events if e["cls"] not in ("noipc", "rejected")]
    for variant, evs in (("full", full), ("without-noipc", no_noipc), ("without-malformed", no_bad)):
        other("history-" + variant, "seq " + ";".join(e["ev"] for e in evs), dict(op="seq", hist=k, variant=variant, events=evs))


PROM_SAMPLE = re.compile(rb"^[a-zA-Z_:][a-zA-Z0-9_:]*(\{.*\})? \S+( -?\d+)?$")


def prom_exposition(body):
    """text exposition format (possibly of an empty registry; the driver cuts long bodies: the last line may be partial)"""
    lines = body.split(b"\n")
    if len(body) >= 4096:
        lines = lines[:-1]
    return all(l == b"" or l.startswith(b"# HELP ") or l.startswith(b"# TYPE ") or PROM_SAMPLE.match(l) for l in lines)


def unhexb(tok):
    return bytes.fromhex(tok[1:]) if tok.startswith("x") else None


def eval_refined(ctx, slines, sinfo):
    if not slines:
        return []
    mout = vlib.run_model(slines)
    ndis = 0
    for (kind, line, o, info), ml, mo in zip(sinfo, slines, mout):
        op = info["op"]
        rep = dict(label="http-refined", kind=kind, case=line[:6000], impl=o[:1500], model=mo[:800], model_case=ml[:3000])
        if mo == "!badcase":
            raise RuntimeError("model rejected case line: " + ml[:300])
        bad = None
        key = None
        if mo == "panic":
            bad = "the model of the repaired handlers panics on this request"
        elif op == "debugview":
            got = unhexb(o.split(" srv=")[0])
            if got is None or norm_debug(got) != unhexb(mo):
                bad = "/debug body is not the tally of the registered proxies: impl=%r model=%r" % (got, unhexb(mo))
                key = "debug-body-not-state"
        elif op == "hdrget":
            if o.split(" srv=")[0] != mo:
                bad = "Header.Get model differs: impl=%s model=%s" % (o[:80], mo[:80])
        else:
            md = brokerlib.parse_obs(mo)
            if op == "seqreq":
                f = o[2:].split(",")
                d = dict(status=f[0], cors=f[1], body=f[2])
            else:
                d = brokerlib.parse_obs(o)
            m = info.get("rq") or dict(method=info.get("method"), path=info.get("path"))
            path = m["path"].split("?")[0]
            options = m["method"] == "OPTIONS"
            predictable = not (op == "req" and md.get("ipc") == "1" and not info.get("have_ipc"))
            if op == "req" and d.get("nat", "!") != "!" and d.get("nat") != md.get("nat"):
                bad, key = "Snowflake-NAT-Type lookup: net/http gives %s, the model %s" % (d.get("nat"), md.get("nat")), "legacy-not-equivalent"
            elif predictable:
                gb, mb = unhexb(d.get("body", "x")), unhexb(md.get("body", "x"))
                if path == "/debug" and d.get("status") == "200" and m["method"] not in ("OPTIONS", "HEAD"):
                    gb = norm_debug(gb)
                if path == "/prometheus":
                    if d.get("status") == "200" and m["method"] != "HEAD" and not prom_exposition(gb):
                        bad, key = "/prometheus body is not a metrics exposition: %r" % gb[:120], "no-wellformed-response"
                    gb = mb = b""
                if md.get("status") == "301":
                    gb = mb = b""        # the mux's redirect page is net/http's
                if d.get("status") != md.get("status"):
                    bad = "status %s, model %s" % (d.get("status"), md.get("status"))
                    if op == "direct" and info.get("via") == "amp" and not info.get("prefix_ok") and not options:
                        key = "amp-wrong-prefix-served"
                    elif options:
                        key = "preflight-not-empty-200"
                    elif info.get("legacy"):
                        key = "legacy-over-limit-not-per-ipc" if info.get("over") else "legacy-not-equivalent"
                elif d.get("cors") != md.get("cors"):
                    bad = "CORS headers %s, model %s" % (d.get("cors"), md.get("cors"))
                elif gb[:4096] != mb[:4096]:
                    bad = "body %r, model %r" % (gb[:120], mb[:120])
                    if options:
                        key = "preflight-not-empty-200"
        if bad:
            if key:
                ctx.violation(key, "%s [%s]" % (bad, kind), rep)
            else:
                ndis += 1
                if ndis <= 5:
                    ctx.not_shown("correspondence http-refined: model and implementation disagree on %s `%s`: %s" % (kind, ml[:300], bad[:300]))
    sample = [(l, m) for l, m in zip(slines, mout) if len(l) < 500]
    ctx.rng.shuffle(sample)
    ctx.extra["refined_predictions"] = len(slines)
    return sample[:20]


def eval_twin_pairs(ctx, pairs):
    """C14_legacy_twin and C14_legacy_twin_over_limit on the implementation: the model runs both requests of a pair with the encoder
    being the implementation's encoding of this very request (op twinpair), so the size hypothesis is the real one. Within the limit
    the legacy answer must be the image of the twin's; beyond it the legacy request is answered per IPC and the twin 400."""
    todo = [(j, pr) for j, pr in sorted(pairs.items()) if "l" in pr and "t" in pr and pr["l"][0].get("ipc", "-") not in ("-", "blocked")]
    if not todo:
        return
    lines = []
    for j, pr in todo:
        d, info, line, o = pr["l"]
        m = info["rq"]
        lines.append("brokerhttp twinpair %s %s %s %s %s %s" % (kv_tok(m["hdrs"]), payload_tok(m["body"]), payload_tok(info["twin"]),
                                                          d.get("ipc"), d.get("resp", "x"), d.get("dec", "none")))
    mout = vlib.run_model(lines)
    n_over = n_within = 0
    for (j, pr), ml, mo in zip(todo, lines, mout):
        if mo.startswith("!"):
            raise RuntimeError("model rejected case line: " + ml[:300])
        md = brokerlib.parse_obs(mo)
        (dl, il, linel, ol), (dt, it, linet, ot) = pr["l"], pr["t"]
        over = md.get("over") == "1"
        n_over += over
        n_within += not over
        ctx.count(ml[:400], kind="legacy-twin-pair-" + ("over-limit" if over else "within-limit"))
        rep = dict(label="http-twin-pair", case=linel[:6000], case_twin=linet[:6000], impl=ol[:800], impl_twin=ot[:800], model=mo[:800], model_case=ml[:3000])
        if over != il["over"]:
            ctx.not_shown("twin pair %d: the model takes the twin (%d bytes) to be %s the read limit, the generator the opposite" % (j, len(il["twin"]), "beyond" if over else "within"))
            continue

        def differs(d, side):
            if d.get("status") != md.get(side + "status"):
                return "status %s, model %s" % (d.get("status"), md.get(side + "status"))
            gb, mb = unhexb(d.get("body", "x")), unhexb(md.get(side + "body", "x"))
            if gb[:4096] != mb[:4096]:
                return "body %r, model %r" % (gb[:100], mb[:100])
            return None
        bl, bt = differs(dl, "l"), differs(dt, "t")
        if over:
            if bl:
                ctx.violation("legacy-over-limit-not-per-ipc", "a legacy request within the read limit (%d bytes) whose shimmed body exceeds it (%d bytes) is answered per IPC "
                              "(C14_legacy_twin_over_limit): %s" % (len(il["rq"]["body"]), len(il["twin"]), bl), rep)
            if bt:
                ctx.violation("oversize-body-accepted", "the shimmed body of a legacy request (%d bytes) POSTed directly is beyond the limit and must be a 400: %s" % (len(il["twin"]), bt), rep)
        elif bl or bt:
            ctx.violation("legacy-not-equivalent", "legacy request (%d bytes) and its versioned twin (%d bytes, within the limit): legacy %s; twin %s" % (
                len(il["rq"]["body"]), len(il["twin"]), bl or "as the model", bt or "as the model"), rep)
    if not n_over or not n_within:
        ctx.not_shown("legacy shim at the size limit: the generated pairs do not straddle the read limit any more (%d beyond, %d within)" % (n_over, n_within))
    ctx.extra["twin_pairs"] = dict(over_limit=n_over, within_limit=n_within)


POLL_WAIT_MS = 10000
POLL_SLACK_MS = 4000


def eval_duppoll(ctx, info, o, rep):
    """every request of a repeated-session-id case got a complete, well-formed response within the protocol's wait:
    the polls 200 with a decodable poll response, the client (mode matched) 200"""
    d = brokerlib.parse_obs(o)
    polls = [p.split(":") for p in d.get("polls", "").split(",") if p]
    want = {"pending": 3, "matched": 2, "expired": 2}[info["mode"]]
    if len(polls) != want:
        ctx.not_shown("repeated session id (%s): driver reported %d polls, wanted %d: %s" % (info["mode"], len(polls), want, o[:200]))
        return
    for n, (st, cls, ms) in enumerate(polls):
        what = "repeated session id (%s, NAT %r): /proxy request #%d under the same Sid" % (info["mode"], info["nat"], n + 1)
        if st == "0":
            ctx.violation("no-wellformed-response", "%s got no complete HTTP response within 16 s (the protocol's wait is 10 s)" % what, rep)
        elif st != "200" or cls not in ("nomatch", "match"):
            ctx.violation("bad-status", "%s answered %s (%s)" % (what, st, cls), rep)
        elif int(ms) > POLL_WAIT_MS + POLL_SLACK_MS:
            ctx.violation("slow-response", "%s answered after %s ms" % (what, ms), rep)
    if info["mode"] == "matched":
        c = d.get("client", "-").split(":")
        if c[0] in ("-", "0"):
            ctx.violation("no-wellformed-response", "repeated session id (matched): the waiting client got no complete HTTP response within 16 s", rep)
        elif c[0] != "200":
            ctx.violation("bad-status", "repeated session id (matched): the waiting client was answered %s" % c[0], rep)
        if polls[0][1] != "match":
            ctx.not_shown("repeated session id (matched): the first poll was not handed the client's offer (%s)" % o[:200])


def eval_histories(ctx, hist):
    """the clause: a request cannot mishandle later ones. Responses of the kept requests must be the same with and without the
    dropped ones in between (theorem C14_history_unaffected for the requests that reach no IPC call; observed for the rejected ones)"""
    for k, variants in sorted(hist.items()):
        full = variants.get("full")
        if not full:
            continue
        evs, res, line = full
        rep0 = dict(label="http-history", case=line[:20000])
        for e, r in zip(evs, res):
            if e["ev"].startswith("P:") and r != "P=ok":
                ctx.not_shown("history %d: a proxy poll was not registered within 10 s" % k)
            if r == "R=noresponse":
                ctx.violation("no-wellformed-response", "history %d: a request got no complete response [%s %s]" % (k, e["rq"]["method"], e["rq"]["path"]), rep0)
            exp = e.get("expect")
            if exp and r.startswith("R=") and r != "R=noresponse":
                st, _, body = r[2:].split(",")
                body = unhexb(body)
                what, mode, ans = exp
                ok = True
                if what == "answer":
                    ok = st == "200" and ans.encode() in body.replace(b"\\", b"")
                elif mode == "l":
                    ok = st == "503"
                else:
                    ok = st == "200" and b"no snowflake proxies currently available" in body
                if not ok:
                    ctx.violation("history-response-mismatch", "history %d: client poll (%s) expected %s, got %s %r" % (k, mode, what, st, body[:100]), rep0)
        base = {id(e): r for e, r in zip(evs, res)}
        for variant in ("without-noipc", "without-malformed"):
            if variant not in variants:
                continue
            evs2, res2, line2 = variants[variant]
            for e, r in zip(evs2, res2):
                want = base[id(e)]
                if e["ev"].startswith("R:"):
                    m = e["rq"]
                    if m["path"] == "/debug" and r.startswith("R=200") and want.startswith("R=200"):
                        r = norm_debug(unhexb(r.split(",")[2])).hex()
                        want = norm_debug(unhexb(want.split(",")[2])).hex()
                if r != want:
                    show = lambda t: (bytes.fromhex(t).decode("latin1") if re.fullmatch(r"[0-9a-f]*", t) and len(t) % 2 == 0 else t)
                    want, r = repr(show(want))[:200], repr(show(r))[:200]
                    ctx.violation("malformed-request-affects-later",
                                  "history %d: the response to %s differs when the %s requests before it are left out: with them %s, without %s" % (
                                      k, e["ev"][:60] if e["ev"].startswith("P:") else "%s %s" % (e["rq"]["method"], e["rq"]["path"]),
                                      "IPC-free" if variant == "without-noipc" else "malformed", want[:200], r[:200]),
                                  dict(label="http-history", case=line[:20000], case_without=line2[:20000]))
                    break


def start_live(ctx, test_exe):
    """the broker binary over TCP and the concurrent soak, next to the rest of the check (they mostly wait)"""
    box = dict(viol=[], notshown=[], stats={})

    def work():
        try:
            bin_exe = vlib.go_build("./broker", name="broker")
        except vlib.GoBuildError as e:
            box["notshown"].append("live: `go build ./broker` failed: " + str(e)[-800:])
            return
        jobs = [lambda: c14live.run_binary(bin_exe, os.path.join(vlib.GOB, "c14live-%d" % os.getpid())),
                lambda: c14live.run_soak(test_exe, os.path.join(vlib.GOB, "c14soak-%d" % os.getpid()), 3000 if ctx.tier == "quick" else 8000)]
        if ctx.tier == "thorough":
            jobs += [lambda: c14live.run_soak(test_exe, os.path.join(vlib.GOB, "c14soak-%d-%d" % (os.getpid(), k)), 8000) for k in range(3)]
        ths = []
        res = [None] * len(jobs)

        def one(k):
            try:
                res[k] = jobs[k]()
            except Exception as e:   # machinery trouble is reported, never swallowed
                res[k] = ([], ["live: machinery error %r" % (e,)], {})
        for k in range(len(jobs)):
            t = threading.Thread(target=one, args=(k,), daemon=True)
            t.start()
            ths.append(t)
            if k >= 1:
                t.join()            # soaks one after the other; the binary scenario (mostly waiting) runs beside them
        for t in ths:
            t.join()
        for r in res:
            v, n, st = r
            box["viol"] += v
            box["notshown"] += n
            for k_, v_ in st.items():
                box["stats"][k_] = box["stats"].get(k_, 0) + v_ if k_.startswith("soak_") else v_
    th = threading.Thread(target=work, daemon=True)
    th.start()
    return th, box


def finish_live(ctx, th, box):
    th.join(400)
    if th.is_alive():
        ctx.not_shown("live: the broker binary / soak jobs did not finish within 400 s")
        return
    for key, what, rep in box["viol"]:
        ctx.violation(key, what, rep)
        ctx.count("live " + key + " " + what[:80], kind="live")
    for n in box["notshown"]:
        ctx.not_shown(n)
    st = box["stats"]
    for name in ("idle-poll", "idle-poll-repeat", "client-v-silent", "client-l-silent", "client-a-silent"):
        ctx.count("live-binary " + name, kind="live-binary-slow-response")
    ctx.count("live-binary immediate x%d" % st.get("live_requests", 0), kind="live-binary")
    ctx.count("soak matches=%s debug=%s" % (st.get("soak_matches"), st.get("soak_debug")), kind="soak")
    ctx.extra["live"] = st


def run(ctx):
    exe = vlib.go_test_build("./broker", name="broker.test")
    live_th, live_box = start_live(ctx, exe)
    try:
        run_rest(ctx, exe)
    finally:
        finish_live(ctx, live_th, live_box)


def run_rest(ctx, exe):
    os.makedirs(vlib.TMP, exist_ok=True)
    env = dict(os.environ, VERIF_DRIVER="brokerhttp", VERIF_TMP_DIR=vlib.TMP)
    ctx.assumptions += ["model = coq/Model/BrokerHttp.v (handlers as total functions of read result and IPC outcome; refined: request record, response writer, partial operations, routes, "
                        "/debug /metrics /prometheus /robots.txt, broker state through IPC only); IPC outcome per case observed by a direct IPC call on the versioned twin body",
                        "sequential model: overlapping requests (soak, child process) and the http.Server of main() (broker binary over TCP) are observed, not proved; "
                        "both run with the distinct-IP journal configured as main() does for -ip-count-log/-ip-count-mask/-ip-count-interval (off by default): the soak's polls come from "
                        "distinct loopback source addresses and in barrier-released waves with forged peer addresses, the binary gets a burst of 48 polls from distinct addresses; "
                        "ServeMux path cleaning / escapes and the /prometheus text are library code (status and content class only)",
                        "net/http framing, MaxBytesReader and the AMP armor are library code: monitored (complete response, connection reusable, server alive), not modelled"]
    ctx.trusted.append("harness/overlay/broker/zz_verif_http_test.go (raw TCP client, real net/http server with the routes of main())")
    ctx.trusted.append("lib/checks/c14live.py (python http.client against the broker binary started from main()); harness/overlay/broker/zz_verif_soak_test.go")
    def twinenc(items):
        rc_, out_, err_ = vlib.run_impl(exe, ["brokerhttp twinenc %s %s" % (payload_tok(b), hx(n)) for b, n in items],
                                        args=["-test.run", "^TestVerifHttpDriver$"], env=env, timeout=300)
        if rc_ != 0 or len(out_) != len(items) or not all(o.startswith("len=") for o in out_):
            raise RuntimeError("driver op twinenc failed rc=%s: %s %s" % (rc_, out_[:2], err_[-400:]))
        return [unhexb(o.split(" srv=")[0].split(" twin=")[1]) for o in out_]
    cases = gen(ctx, twinenc)
    # stable: the rejected polls go first; the repeated-session-id cases (10-20 s of waiting each) start at once, beside the rest
    cases.sort(key=lambda c: 0 if c[0] == "proxy-rejected-pattern" else 1 if c[0] == "repeated-session-id" else 2)
    lines = [c[1] for c in cases]
    # the raw-HTTP driver (its repeated-session-id cases wait 10-20 s) runs beside the scenario driver (whose scenarios
    # wait for the same protocol timers): both mostly sleep
    hbox = [None]

    def http_work():
        hbox[0] = vlib.run_impl(exe, lines, args=["-test.run", "^TestVerifHttpDriver$"], env=env, timeout=900)
    hth = threading.Thread(target=http_work, daemon=True)
    hth.start()
    nv0 = len(ctx.violations)
    try:
        run_scenario_part(ctx)
    finally:
        hth.join()
    scen_viol = ctx.violations[nv0:]      # reported after the HTTP-level findings (the replay file keeps the first 20)
    del ctx.violations[nv0:]
    rc, out, err = hbox[0] if hbox[0] is not None else (1, [], "http driver thread died")
    if rc != 0 or len(out) != len(lines):
        ctx.violation("driver-crash", "broker http driver died rc=%s (a request may have crashed the process): %s" % (rc, err[-800:]),
                      dict(label="http", stderr=err[-3000:]))
        ctx.violations.extend(scen_viol)
        return
    mlines, minfo = [], []
    slines, sinfo = [], []       # refined model: serve lines
    hist = {}                    # history number -> variant -> (events, results)
    pairs = {}                   # pair number -> side l|t -> (observation, info, line, output)
    for (kind, line, info), o in zip(cases, out):
        ctx.count(line[:400], kind=kind)
        op = line.split(" ")[1]
        rep = dict(label="http", kind=kind, case=line[:6000], impl=o[:1500])
        if o.split(" srv=")[0].startswith("!"):
            ctx.violation("request-" + o.split(" ")[0].strip("!"), "request made the driver fail: " + o[:200], rep)
            continue
        if op == "debugview":
            slines.append(line)
            sinfo.append((kind, line, o, info))
            continue
        if op == "hdrget":
            slines.append(line)
            sinfo.append((kind, line, o, info))
            continue
        if op == "duppoll":
            eval_duppoll(ctx, info, o.split(" srv=")[0], rep)
            continue
        if op == "seq":
            res = o.split(" srv=")[0].split(";")
            evs = info["events"]
            if len(res) != len(evs):
                ctx.not_shown("history driver returned %d results for %d events" % (len(res), len(evs)))
                continue
            hist.setdefault(info["hist"], {})[info["variant"]] = (evs, res, line)
            continue
        d = brokerlib.parse_obs(o)
        if op == "direct":
            ipc = d.get("ipc") if d.get("ipc", "-") not in ("-", "blocked") else "other"
            slines.append(serve_line(info["via"], info["method"], info["path"], [], info["body"], ipc, d.get("resp", "x"), d.get("dec", "none"), metrics=info["metrics"]))
            sinfo.append((kind, line, o, info))
            continue
        if d.get("srv") != "alive":
            ctx.violation("server-dead", "broker stopped answering after the request batch", rep)
        if d.get("reuse") in ("noresponse", "badbody"):
            ctx.violation("no-wellformed-response", "request got no complete well-formed HTTP response (%s) [%s]" % (d.get("reuse"), kind), rep)
            continue
        if d.get("reuse") in ("closed",) or d.get("reuse", "").startswith("bad"):
            ctx.violation("connection-mishandled", "connection not usable for a following request (%s) [%s]" % (d.get("reuse"), kind), rep)
        if int(d.get("ms", "0")) > 8000:
            ctx.violation("slow-response", "immediate-outcome request took %s ms [%s]" % (d.get("ms"), kind), rep)
        if "pair" in info and info.get("rq") is not None:
            pairs.setdefault(info["pair"], {})[info["side"]] = (d, info, line, o)
        st = int(d.get("status", "0"))
        if not (100 <= st <= 599):
            ctx.violation("bad-status", "status %d" % st, rep)
        if info.get("toolarge") and st != 400 and not info.get("options"):
            ctx.violation("oversize-body-accepted", "body beyond the 100000 byte limit answered with %d, not 400 [%s]" % (st, kind), rep)
        # model prediction for the handler-level cases
        ep = info.get("ep")
        if ep in ("client", "proxy", "answer", "amp") and (d.get("ipc", "-") != "-" or info.get("toolarge") or (ep == "amp" and not info.get("pathdec"))):
            ml = "brokerhttp predict h1 %s 0 %s %d %s %s %s 1 %d" % (
                ep, "toolarge" if info.get("toolarge") else "ok", info.get("legacy", 0),
                d.get("ipc") if d.get("ipc", "-") != "-" else "other", d.get("resp", "x"), d.get("dec", "none"), info.get("pathdec", 1))
            mlines.append(ml)
            minfo.append((kind, line, o, d, info))
        # the refined model: the whole request (method, path, header lines, body) through routes and handlers
        m = info.get("rq")
        if m is not None and d.get("ipc") != "blocked":
            ipc = d.get("ipc") if d.get("ipc", "-") != "-" else "other"
            slines.append(serve_line("mux", m["method"], m["path"].split("?")[0], m["hdrs"], m["body"], ipc, d.get("resp", "x"), d.get("dec", "none")))
            sinfo.append((kind, line, o, dict(info, op="req", have_ipc=(d.get("ipc", "-") != "-"))))
    # histories: model lines for the requests whose response is a function of the view alone
    for k, variants in sorted(hist.items()):
        for variant, (evs, res, line) in sorted(variants.items()):
            for e, r in zip(evs, res):
                if e["ev"].startswith("R:") and e["cls"] in ("probe", "noipc") and r != "R=noresponse":
                    m = e["rq"]
                    if clean_path(m["path"]):
                        slines.append(serve_line("mux", m["method"], m["path"], m["hdrs"], m["body"], snow=[(v[1].encode(), v[2].encode()) for v in e["view"]]))
                        sinfo.append(("history-" + variant, line, r, dict(op="seqreq", rq=m)))
    refined_sample = eval_refined(ctx, slines, sinfo)
    eval_twin_pairs(ctx, pairs)
    eval_histories(ctx, hist)
    ctx.violations.extend(scen_viol)


def run_scenario_part(ctx):
    # legacy == versioned through real matches, timeouts and answers: the scenario driver with client modes l / v / a
    scens = [s for s in brokerlib.scenarios(ctx.rng, ctx.tier) if s.kind in ("match-answer", "client-timeout-late-answer", "no-proxies", "incompatible-pool", "early-answer-then-match",
                                                                          "duplicate-sid", "duplicate-sid-herd")]
    # explicit legacy / versioned / AMP twins whose answers contain characters a careless legacy path could mangle
    twins = []
    for j, ans in enumerate(["a%d%s%25-x", "%", "100%%", "{v=0%0d%0a}", "plain"]):
        for mode in ("l", "v", "a"):
            sc = brokerlib.Scen("twin%d%s" % (j, mode), "legacy-versioned-twin")
            sid = "twsid%d%s" % (j, mode)
            sc.poll(0, sid, "unrestricted")
            sc.client(300, "restricted", "{tw%d%s}" % (j, mode), mode=mode)
            sc.answer(150, sid, ans, after_poll=0)
            twins.append((sc, ans))
    scens += [t[0] for t in twins]
    before = len(ctx.unproven)
    brokerlib.run_scenarios(ctx, scens, {"C14", "C04"}, "http-scenarios")
    # a disagreement on a twin scenario means the endpoint did not return the posted answer verbatim: that is C14's clause
    for u in ctx.unproven[before:]:
        if "scenario twin" in u and "'C0'" in u:
            ctx.violation("legacy-not-equivalent", "a client endpoint did not return the posted answer byte for byte: " + u[u.find("scenario twin"):][:300],
                          dict(label="http-scenarios", detail=u[:1500]))


def replay(ctx, doc):
    exe = vlib.go_test_build("./broker", name="broker.test")
    os.makedirs(vlib.TMP, exist_ok=True)
    env = dict(os.environ, VERIF_DRIVER="brokerhttp", VERIF_TMP_DIR=vlib.TMP)
    bad = 0
    labels = set(v["replay"].get("label") for v in doc.get("violations", []))
    if "live-binary" in labels:
        viol, notshown, stats = c14live.run_binary(vlib.go_build("./broker", name="broker"), os.path.join(vlib.GOB, "c14live-%d" % os.getpid()))
        print("broker binary over TCP again: %d violations %s %s" % (len(viol), [(k, w[:160]) for k, w, _ in viol[:4]], notshown[:2]))
        bad += len(viol)
    if "soak" in labels:
        viol, notshown, stats = c14live.run_soak(exe, os.path.join(vlib.GOB, "c14soak-%d" % os.getpid()), 5000)
        print("soak again: %d violations %s %s" % (len(viol), [(k, w[:200]) for k, w, _ in viol[:2]], stats))
        bad += len(viol)
    for v in doc.get("violations", []):
        case = v["replay"].get("case")
        if not case or not case.startswith("brokerhttp"):
            continue
        rc, out, err = vlib.run_impl(exe, [case], args=["-test.run", "^TestVerifHttpDriver$"], env=env)
        print("case: %s\n impl: %s" % (case[:300], out[0] if out else "!died rc=%s %s" % (rc, err[-300:])))
        bad += 1
    return 1 if bad else 0
