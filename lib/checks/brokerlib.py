"""Shared scenario machinery for the broker properties C02, C03, C04 (and used by C14).

A scenario is a timed script of proxy polls, client polls (versioned POST, legacy POST, AMP GET),
proxy answers and lock holds, run against a fresh BrokerContext of the CURRENT /repo tree by
harness/overlay/broker/zz_verif_broker_test.go. For scenarios whose events are well separated in time
(or whose order is forced through the matching lock) the label sequence of the Coq model
(coq/Model/Broker.v, version V1) is derived and the extracted model must predict exactly the observed
responses and final registration counts. For herds (no forced order) only the property predicates
are evaluated on the observed history."""
import os
import re
import vlib

DEFAULT_FP = "2B280B23E1107BB62ABFC40DDCC8824814F80A72"
DEFAULT_URL = "wss://snowflake.torproject.net/"
NATS = {"unrestricted": "u", "restricted": "r", "unknown": "k", "": "k"}
TMO = 10000
ONE_P_KINDS = ("delivery-herd", "late-answer-accepted-then-more", "client-timeout-late-answer", "early-answer-poll-expires",
               "timeout-boundary-herd")


class Scen:
    def __init__(self, name, kind, bridges=None, herd=False, watchdog=None, labels=None, barrier=None, sequenced=False):
        self.name = name
        self.kind = kind
        self.bridges = bridges                # full list installed with InstallBridgeListProfile (None: built-in default only)
        self.events = []                      # dicts
        self.herd = herd
        self.watchdog = watchdog
        self.forced_labels = labels           # explicit label derivation function (for lock-forced schedules)
        self.barrier = barrier                # delivery barrier: number of client handlers whose first Write waits for the others
        self.sequenced = sequenced            # sequenced mode although the labels are forced (lock events + well-separated rest)
        self.np = self.nc = self.na = self.nl = self.ni = 0

    def poll(self, t, sid, nat, clients=0, ptype="standalone", ver=None):
        """ver: None = body from the stock encoder; otherwise a hand-built body with this Version string
        ("!" suffix: no AcceptedRelayPattern field, "~": no NAT field when the NAT is empty)"""
        k = self.np; self.np += 1
        self.events.append(dict(kind="P", k=k, t=t, sid=sid, nat=nat, clients=clients, ptype=ptype, ver=ver))
        return k

    def client(self, t, nat, offer, fp="-", mode="v"):
        k = self.nc; self.nc += 1
        self.events.append(dict(kind="C", k=k, t=t, nat=nat, fp=fp, offer=offer, mode=mode))
        return k

    def ghost_client(self, t, nat, offer, mode="v"):
        """a client request whose NAT value is NOT one of the names the protocol allows (another spelling of one): the broker
        must answer it with an error and nothing else may happen; the model never sees it (kind G: every label builder
        and predicate over clients ignores it), the driver sends it like any client (numbered with the clients)"""
        k = self.nc; self.nc += 1
        self.events.append(dict(kind="G", k=k, t=t, nat=nat, fp="-", offer=offer, mode=mode))
        return k

    def answer(self, t, sid, ans, after_poll=None):
        k = self.na; self.na += 1
        self.events.append(dict(kind="A", k=k, t=t, sid=sid, ans=ans, after=after_poll))
        return k

    def install(self, t, bridges):
        """InstallBridgeListProfile in the middle of the scenario (replaces the whole list)"""
        k = self.ni; self.ni += 1
        self.events.append(dict(kind="I", k=k, t=t, bridges=list(bridges)))
        return k

    def install_file(self, t, text, jlines):
        """InstallBridgeListProfile of a bridge-list FILE given as text (the real line loader). jlines: the JSON-value
        description of the lines (see bridge_file_cases). The list expected to be in force afterwards is computed from the
        text (text_load); a file that does not load leaves the list in force before."""
        k = self.ni; self.ni += 1
        m = text_load(text)
        br = sorted(m.items()) if m is not None else sorted(self.lists_from(t)[0].items())
        self.events.append(dict(kind="I", k=k, t=t, bridges=br, raw=text, jlines=jlines, loads=m is not None))
        return k

    def hammer(self, t, workers, dur):
        self.events.append(dict(kind="H", k=0, t=t, workers=workers, dur=dur))

    def lists_from(self, t):
        """the list current at time t and every list installed later"""
        cur = self.bridge_list()
        later = []
        for e in sorted((e for e in self.events if e["kind"] == "I"), key=lambda e: e["t"]):
            if e["t"] <= t:
                cur = e["bridges"]
            else:
                later.append(e["bridges"])
        return [dict(cur)] + [dict(b) for b in later]

    def lock(self, t, dur):
        k = self.nl; self.nl += 1
        self.events.append(dict(kind="L", k=k, t=t, dur=dur))

    def bridge_list(self):
        return list(self.bridges) if self.bridges is not None else [(DEFAULT_FP, DEFAULT_URL)]

    def line(self):
        ev = []
        for e in self.events:
            if e["kind"] == "P":
                ev.append("P%d:%s:%s:%s:%d%s@%d" % (e["k"], e["sid"], e["nat"], e["ptype"], e["clients"],
                                                   (":" + e["ver"]) if e.get("ver") else "", e["t"]))
            elif e["kind"] in ("C", "G"):
                ev.append("C%d:%s:%s:%s:%s@%d" % (e["k"], e["nat"], e["fp"], e["offer"], e["mode"], e["t"]))
            elif e["kind"] == "A":
                when = "P%d+%d" % (e["after"], e["t"]) if e["after"] is not None else str(e["t"])
                ev.append("A%d:%s:%s@%s" % (e["k"], e["sid"], e["ans"], when))
            elif e["kind"] == "L":
                ev.append("L%d:%d@%d" % (e["k"], e["dur"], e["t"]))
            elif e["kind"] == "I" and "raw" in e:
                ev.append("J%d:%s@%d" % (e["k"], e["raw"].encode().hex(), e["t"]))
            elif e["kind"] == "I":
                ev.append("I%d:%s@%d" % (e["k"], ";".join("%s=%s" % b for b in e["bridges"]) or "-", e["t"]))
            elif e["kind"] == "H":
                ev.append("H%d:%d:%d@%d" % (e["k"], e["workers"], e["dur"], e["t"]))
        if self.watchdog:
            ev.append("W0:%d@0" % self.watchdog)
        if self.barrier:
            ev.append("D0:%d@0" % self.barrier)
        if (not self.herd and not self.forced_labels) or self.sequenced:
            ev.append("Q0:1@0")   # sequenced mode: well-separated events cannot be reordered by a loaded machine
        br = ",".join("%s=%s" % b for b in self.bridges) if self.bridges is not None else "-"
        return "broker scen %s %s" % (br, ",".join(ev))


def esc_answer(b):
    """bytes/str of an answer -> the scenario-line form (mirror of vbEscAnswer in the Go driver)"""
    if isinstance(b, str):
        b = b.encode("latin-1")
    plain = not b.startswith(b"~") and all(0x20 < c < 0x7f and c not in b",:@" for c in b)
    return b.decode("latin-1") if plain else "~" + b.hex()


def unesc_answer(s):
    if s.startswith("~"):
        try:
            return bytes.fromhex(s[1:])
        except ValueError:
            pass
    return s.encode("latin-1", "replace")


def heap_layout(counts):
    """slice order of a binary min-heap after pushing the (distinct) counts one by one (container/heap.Push: append, sift up)"""
    h = []
    for c in counts:
        h.append(c)
        j = len(h) - 1
        while j > 0 and h[(j - 1) // 2] > h[j]:
            h[(j - 1) // 2], h[j] = h[j], h[(j - 1) // 2]
            j = (j - 1) // 2
    return h


def removal_class(counts, victim):
    """what taking `victim` out of the heap built from `counts` needs: 'last' (it is the last element), 'up' (the last
    element, moved to its place, is smaller than the parent there: sift-up), 'down' (larger than a child there), 'none'"""
    h = heap_layout(counts)
    i, n = h.index(victim), len(h) - 1
    if i == n:
        return "last"
    x = h[n]
    if i > 0 and h[(i - 1) // 2] > x:
        return "up"
    kids = [h[k] for k in (2 * i + 1, 2 * i + 2) if k < n]
    return "down" if any(k < x for k in kids) else "none"


def parse_obs(line):
    d = {}
    for tok in line.split(" "):
        if "=" in tok:
            k, v = tok.split("=", 1)
            d[k] = v
    return d


class Tags:
    """strings <-> integer tags for the model"""
    def __init__(self):
        # tag 0 is the model's default_fp / default_url (Model/Broker.v): the defaulting itself is done by the model
        # tag 1 is the empty string (Model/BrokerBridgeList.v EMPTY: the address of a record without webSocketAddress)
        self.m = {DEFAULT_FP: 0, DEFAULT_URL: 0, "": 1}
        self.r = {0: DEFAULT_URL, 1: ""}

    def __call__(self, s):
        if s not in self.m:
            self.m[s] = len(self.m)
            self.r[self.m[s]] = s
        return self.m[s]

    def back(self, n):
        return self.r.get(int(n), "?%s" % n)


def derive_labels(sc, obs, tags):
    """Event simulation that CHOOSES the model labels for a well-separated scenario; the model itself
    decides enabledness and results. Returns (labels, names) where names maps model request names
    (P<p>, C<cid>, A<aid>) to scenario request names."""
    bridges = dict(sc.bridge_list())
    q = []
    for e in sc.events:
        if e["kind"] == "A" and e["after"] is not None:
            continue
        if e["kind"] in "LH":
            continue
        q.append((e["t"], 1, e))
    labels = []
    names = {}
    entries = []          # dict(k, sid, state: wait|matched|done, client, buf, cwait)
    idmap = {}
    ncid = naid = 0
    rel = [e for e in sc.events if e["kind"] == "A" and e["after"] is not None]
    offer_of = {e["offer"]: e for e in sc.events if e["kind"] == "C"}

    def fpkey(fp):
        return DEFAULT_FP if fp == "-" else fp

    def do_answer(t, e):
        nonlocal naid
        labels.append("A:%d:%d" % (tags(e["sid"]), tags(e["ans"])))
        names["A%d" % naid] = "A%d" % e["k"]
        naid += 1
        p = idmap.get(e["sid"])
        if p is None:
            return
        labels.append("AP:%d" % p)
        en = entries[p]
        if en["buf"] is None:
            en["buf"] = e["ans"]
            if en["cwait"]:
                labels.extend(["TA:%d" % p, "CC:%d" % p])
                en["buf"] = None
                en["cwait"] = False
                idmap.pop(en["sid"], None)

    while q:
        q.sort(key=lambda x: (x[0], x[1]))
        t, _, e = q.pop(0)
        if e["kind"] == "P":
            p = len(entries)
            entries.append(dict(k=e["k"], sid=e["sid"], state="wait", buf=None, cwait=False))
            names["P%d" % p] = "P%d" % e["k"]
            idmap[e["sid"]] = p
            labels.append("P:%d:%s:%d:%d" % (tags(e["sid"]), NATS[e["nat"]], tags(e["ptype"]), emb(e["clients"])))
            q.append((t + TMO, 0, dict(kind="WT", p=p)))
        elif e["kind"] == "WT":
            en = entries[e["p"]]
            if en["state"] == "wait":
                labels.extend(["FW:%d" % e["p"], "WT:%d" % e["p"], "WC:%d" % e["p"]])
                en["state"] = "done"
                if idmap.get(en["sid"]) is not None:
                    idmap.pop(en["sid"], None)
        elif e["kind"] == "C":
            cid = ncid; ncid += 1
            names["C%d" % cid] = "C%d" % e["k"]
            # which poll was handed this client's offer (observed)
            choice = None
            for p, en in enumerate(entries):
                r = obs.get("P%d" % en["k"], "")
                if en["state"] == "wait" and r.startswith("match:") and r.split(":")[1] == e["offer"]:
                    choice = p
            fp = fpkey(e["fp"])    # only to pick the follow-up labels; the label itself carries the field as sent
            labels.append("C:%s:%s:%d:%s" % (NATS[e["nat"]], "-" if e["fp"] == "-" else str(tags(e["fp"])), tags(e["offer"]),
                                             "-" if choice is None else str(choice)))
            if choice is not None and fp in bridges:
                en = entries[choice]
                en["state"] = "matched"
                labels.extend(["RO:%d" % choice, "RF:%d" % choice])
                # relative answers of this poll
                for a in rel:
                    if a["after"] == en["k"]:
                        q.append((t + a["t"], 1, dict(kind="Arel", a=a)))
                if en["buf"] is not None:
                    labels.extend(["TA:%d" % choice, "CC:%d" % choice])
                    en["buf"] = None
                    idmap.pop(en["sid"], None)
                else:
                    en["cwait"] = True
                    q.append((t + TMO, 0, dict(kind="CT", p=choice)))
        elif e["kind"] == "CT":
            en = entries[e["p"]]
            if en["cwait"]:
                labels.extend(["FC:%d" % e["p"], "CT:%d" % e["p"], "CC:%d" % e["p"]])
                en["cwait"] = False
                idmap.pop(en["sid"], None)
        elif e["kind"] == "I":
            labels.append(file_label(e["jlines"], tags) if "jlines" in e else install_label(e["bridges"], tags))
            bridges.clear(); bridges.update(dict(e["bridges"]))
        elif e["kind"] == "A":
            do_answer(t, e)
        elif e["kind"] == "Arel":
            do_answer(t, e["a"])
    return labels, names


def install_label(bridges, tags):
    return "I:" + (";".join("%d=%d" % (tags(f), tags(u)) for f, u in bridges) or "-")


def emb(clients):
    """Go's signed 64-bit client count -> the model's N load (order embedding, Model/BrokerHeap.v emb)"""
    return clients + 2 ** 63


# ---------------------------------------------------------------- bridge-list files (C02: LoadBridgeInfo)
# A file is generated together with its JSON-value description: per line None (the text of the line is not a JSON
# object) or a list of members (key, valuekind, string): key n=displayName a=webSocketAddress f=fingerprint that is the
# hex of 20 bytes, g=fingerprint that is not, u=a member the record type does not have; valuekind s=string z=null
# o=another JSON type. The description is what the model (Model/BrokerBridgeList.v load) runs on.

JKEYS = {"n": "displayName", "a": "webSocketAddress", "f": "fingerprint", "g": "fingerprint"}


def jlines_model(jlines, tags):
    out = []
    for l in jlines:
        if l is None:
            out.append("x")
        elif not l:
            out.append("e")
        else:
            out.append(".".join(k + (("s%d" % tags(v.upper() if k == "f" else v)) if vk == "s" else vk) for k, vk, v in l))
    return ";".join(out) or "-"


def file_label(jlines, tags):
    return "J:" + jlines_model(jlines, tags)


def is_fp(sv):
    # FingerprintFromHexString: the hex of 20 or of 32 bytes
    return len(sv) in (40, 64) and all(c in "0123456789abcdefABCDEF" for c in sv)


def text_load(text):
    """What the file configures, computed from the TEXT alone, every line on its own (Python's json): dict FP -> address,
    or None when a line does not decode. Independent of the model and of the implementation."""
    import json
    m = {}
    lines = text.split("\n")
    if lines and lines[-1] == "":
        lines.pop()
    for ln in lines:
        ln = ln.rstrip("\r")      # bufio.ScanLines drops a trailing CR
        try:
            val, _ = json.JSONDecoder(object_pairs_hook=lambda ps: ("obj", ps)).raw_decode(ln.lstrip(" \t\r\n"))
        except ValueError:
            return None
        if val is None:
            val = ("obj", [])
        if not (isinstance(val, tuple) and len(val) == 2 and val[0] == "obj"):
            return None
        rec = {"displayName": "", "webSocketAddress": "", "fingerprint": ""}
        for k, v in val[1]:
            if k not in rec:
                return None
            if v is None:
                continue
            if not isinstance(v, str):
                return None
            rec[k] = v
        if not is_fp(rec["fingerprint"]):
            return None
        m[rec["fingerprint"].upper()] = rec["webSocketAddress"]
    return m


def jlines_load(jlines):
    """the same from the description (consistency of the generator: must agree with text_load of the rendered text)"""
    m = {}
    for l in jlines:
        if l is None:
            return None
        rec = {"n": "", "a": "", "f": None}
        for k, vk, v in l:
            if k == "u" or vk == "o":
                return None
            if vk == "s":
                rec["f" if k == "g" else k] = (v.upper(), k == "f") if k in "fg" else v
        if rec["f"] is None or not rec["f"][1]:
            return None
        m[rec["f"][0]] = rec["a"]
    return m


def render_file(rng, jlines, junk):
    import json
    out = []
    for n, l in enumerate(jlines):
        if l is None:
            out.append(junk[n])
            continue
        mem = []
        for k, vk, v in l:
            name = JKEYS.get(k, "webSocketAddres" if v == "" else "relay")
            val = json.dumps(v) if vk == "s" else ("null" if vk == "z" else rng.choice(["7", "{}", "[\"x\"]", "true"]))
            mem.append("%s%s:%s%s" % (json.dumps(name), rng.choice(["", " "]), rng.choice(["", " "]), val))
        txt = rng.choice(["", " ", "\t"]) + "{" + rng.choice([",", ", "]).join(mem) + "}"
        out.append(txt + junk.get(n, ""))
    return "".join(x + "\n" for x in out)


def bridge_file_cases(rng, tier):
    """[(kind, text, jlines)]"""
    cases = []
    hexd = "0123456789ABCDEF"

    def fp():
        f = "".join(rng.choice(hexd) for _ in range(40))
        return f.lower() if rng.random() < 0.25 else f

    def url():
        return "wss://%s.example/%s" % ("".join(rng.choice("abcdefgh") for _ in range(5)), rng.choice(["", "p", "a/b?c=1"]))

    def full(f=None, u=None):
        return [("n", "s", rng.choice(["b", "bridge one", ""])), ("a", "s", url() if u is None else u), ("f", "s", f or fp())]

    def case(kind, jl, junk=None):
        junk = junk or {}
        for n, l in enumerate(jl):
            if l is None and n not in junk:
                junk[n] = rng.choice(["", "   ", "garbage", "[1,2]", "\"str\"", "{\"fingerprint\":\"AA", "7", "}{"])
        text = render_file(rng, jl, junk)
        if text_load(text) != jlines_load(jl):
            raise RuntimeError("bridge file generator inconsistent: %r / %r" % (text, jl))
        cases.append((kind, text, jl))

    reps = 3 if tier == "quick" else 20
    for _ in range(reps):
        n = rng.randrange(1, 6)
        case("bridge-file-plain", [full() for _ in range(n)])
        # a record without (or with a null / empty) address, or without a name, after complete records
        for how in ("absent", "null", "empty", "noname", "nullname"):
            jl = [full() for _ in range(rng.randrange(1, 4))]
            f = fp()
            rec = {"absent": [("n", "s", "x"), ("f", "s", f)], "null": [("a", "z", ""), ("f", "s", f), ("n", "s", "y")],
                   "empty": [("f", "s", f), ("a", "s", "")], "noname": [("f", "s", f), ("a", "s", url())],
                   "nullname": [("n", "z", ""), ("a", "s", url()), ("f", "s", f)]}[how]
            jl.insert(rng.randrange(1, len(jl) + 1), rec)
            case("bridge-file-field-" + how, jl)
        jl = [full() for _ in range(4)]
        for l in jl:
            rng.shuffle(l)
        case("bridge-file-reordered-keys", jl)
        # a fingerprint filed twice: the later record wins, with its own address (none when it has none)
        f = fp()
        jl = [full(f), full(), rng.choice([full(f.lower()), [("f", "s", f)], [("f", "s", f), ("a", "z", "")]])]
        if rng.random() < 0.5:
            jl.append(full())
        case("bridge-file-duplicate-fingerprint", jl)
        # a member twice in one object: the later one counts; null after a string leaves the string
        f = fp()
        case("bridge-file-duplicate-member", [full(), [("a", "s", url()), ("f", "s", fp()), ("a", "s", url()), ("f", "s", f)],
                                                [("a", "s", url()), ("a", "z", ""), ("f", "s", fp())]])
        # lines that do not decode: the whole load fails and the old list stays
        jl = [full() for _ in range(rng.randrange(1, 4))]
        jl.insert(rng.randrange(0, len(jl) + 1), None)
        case("bridge-file-bad-line", jl)
        jl = [full() for _ in range(2)]
        jl.insert(rng.randrange(1, 3), rng.choice([[("n", "s", "x"), ("a", "s", url())],                  # no fingerprint
                                                    [("f", "z", ""), ("a", "s", url())],                   # null fingerprint
                                                    [("g", "s", rng.choice(["", "AB" * 19, "AB" * 21, "Z" * 40, "A" * 39])), ("a", "s", url())],
                                                    [("f", "s", fp()), ("u", "s", rng.choice(["", "x"]))],   # unknown member
                                                    [("f", "s", fp()), ("a", "o", "")],                   # address of another type
                                                    [("f", "o", ""), ("a", "s", url())]]))
        case("bridge-file-bad-record", jl)
        # whatever follows the object on its line is not read
        jl = [full() for _ in range(3)]
        case("bridge-file-trailing-garbage", jl, {rng.randrange(0, 3): rng.choice([" garbage", "{\"fingerprint\":\"00\"}", "]", " \r", "\r"])})
        # random mixtures
        jl = []
        fps = [fp() for _ in range(3)]
        for _j in range(rng.randrange(0, 7)):
            l = []
            for k in rng.sample(["n", "a", "f"], rng.randrange(1, 4)):
                vk = rng.choice(["s", "s", "s", "z"])
                l.append((k, vk, (rng.choice(fps) if k == "f" else url() if k == "a" else "nm") if vk == "s" else ""))
            if not any(k == "f" for k, _, _ in l) and rng.random() < 0.8:
                l.append(("f", "s", rng.choice(fps)))
            jl.append(l)
        case("bridge-file-random", jl)
    case("bridge-file-empty", [])
    case("bridge-file-empty-object", [full(), []])
    return cases


def run_bridge_files(ctx, label="bridge-list-load"):
    """C02: generated bridge-list FILES through the real LoadBridgeInfo and through Model/BrokerBridgeList.v load; the
    fingerprint -> address map (or the failure) is compared, and evaluated against the text itself, line by line."""
    exe = vlib.go_test_build("./broker", name="broker.test")
    env = dict(os.environ, VERIF_DRIVER="broker")
    cases = bridge_file_cases(ctx.rng, ctx.tier)
    lines = ["broker bload " + (t.encode().hex() or "-") for _, t, _ in cases]
    tagl = [Tags() for _ in cases]
    mlines = ["broker bload " + jlines_model(jl, tg) for (_, _, jl), tg in zip(cases, tagl)]
    rc, out, err = vlib.run_impl(exe, lines, args=["-test.run", "^TestVerifBrokerDriver$"], env=env, timeout=300)
    if rc != 0 or len(out) != len(lines):
        ctx.violation("driver-crash", "broker driver died rc=%s: %s" % (rc, err[-800:]), dict(label=label, stderr=err[-3000:]))
        return
    mout = vlib.run_model(mlines)

    def parse(o, back=None):
        if not o.startswith("ok"):
            return o
        d = {}
        body = o[3:]
        if body and body != "-":
            for it in body.split(";"):
                f, u = it.split("=", 1)
                d[back(f) if back else f] = back(u) if back else u
        return d

    for (kind, text, jl), line, o, ml, mo, tg in zip(cases, lines, out, mlines, mout, tagl):
        ctx.count(line, kind=kind)
        if mo.startswith("!"):
            raise RuntimeError("model rejected case line: " + ml[:200])
        want = text_load(text)
        got = parse(o)
        mod = parse(mo, tg.back)
        rep = dict(label=label, case=line, text=text, impl=o, model=mo)
        if isinstance(got, dict) and want is not None:
            wrong = sorted(f for f in got if f in want and got[f] != want[f])
            if wrong:
                ctx.violation("wrong-relay-url", "bridge list file %r: bridge %s is configured with address %r by its own record, the loader filed %r" % (
                    text, wrong[0], want[wrong[0]], got[wrong[0]]), rep)
                continue
        if (want if want is not None else "err") != got:
            ctx.violation("bridge-list-load", "bridge list file %r: loader produced %s, the records of the file (each on its own) say %s" % (
                text, got, want if want is not None else "error, old list kept"), rep)
        elif mod != got:
            ctx.not_shown("correspondence %s: model and implementation disagree on %r: model=%s impl=%s" % (label, text, mo, o))
    sample = [(l, m) for l, m in zip(mlines, mout) if len(l) < 400][:20]
    for i in vlib.coq_crosscheck(sample):
        ctx.not_shown("extraction cross-check differs on " + sample[i][0][:300])
    ctx.extra["vm_compute_crosschecked"] = ctx.extra.get("vm_compute_crosschecked", 0) + len(sample)
    ctx.extra["bridge_files"] = len(lines)


def model_line(sc, labels, tags, version="v1", op="run"):
    # the model starts from the built-in default bridge (NewBrokerContext) and installs the scenario's list, if any
    br = ",".join("%d=%d" % (tags(f), tags(u)) for f, u in sc.bridges) if sc.bridges is not None else "-"
    return "broker %s %s %s %s" % (op, version, br, ",".join(labels) if labels else "-")


def canon_impl(sc, obs):
    """implementation observation -> canonical dict comparable with the model's"""
    d = {}
    ghosts = set("C%d" % e["k"] for e in sc.events if e["kind"] == "G")
    for k, v in obs.items():
        if k in ghosts:
            continue          # the model never saw this request (Scen.ghost_client); check_history judges its answer
        if k[0] == "P" and k[1:].isdigit():
            d[k] = "error" if v == "http:500" else v
        elif k[0] == "C" and k[1:].isdigit():
            d[k] = "badfp" if v == "http:500" else v
        elif k[0] == "A" and k[1:].isdigit():
            if v != "skipped":
                d[k] = v
    d["avail"] = obs.get("avail")
    d["heap"] = str(int(obs.get("heapU", "-1")) + int(obs.get("heapR", "-1")))
    d["gauge"] = obs.get("gauge")
    return d


def canon_model(mobs, names, tags):
    d = {}
    for k, v in mobs.items():
        if k in names:
            if v.startswith("match:"):
                _, o, n, u = v.split(":")
                natname = {"u": "unrestricted", "r": "restricted", "k": "unknown"}[n]
                v = "match:%s:%s:%s" % (tags.back(o), natname, tags.back(u))
            elif v.startswith("answer:"):
                v = "answer:" + tags.back(v.split(":")[1])
            d[names[k]] = v
    for k in ("avail", "heap", "gauge"):
        d[k] = mobs.get(k)
    return d


# ---------------------------------------------------------------- property predicates on observed histories

def check_history(sc, obs):
    """Evaluates C02/C03/C04 statements on an observed history. Returns list of (property, key, text)."""
    bad = []
    bridges = dict(sc.bridge_list())
    polls = {e["k"]: e for e in sc.events if e["kind"] == "P"}
    clients = {e["k"]: e for e in sc.events if e["kind"] == "C"}
    answers = [e for e in sc.events if e["kind"] == "A"]
    by_offer = {c["offer"]: c for c in clients.values()}
    ghosts = {e["offer"]: e for e in sc.events if e["kind"] == "G"}
    for g in ghosts.values():
        r = obs.get("C%d" % g["k"], "")
        if r.startswith("answer") or r.startswith("match") or r.startswith("timeout"):
            bad.append(("C03", "invalid-nat-client-served", "client C%d sent the NAT value %r, which is none of the protocol's names, and was "
                        "treated as a client (%s) instead of being refused" % (g["k"], g["nat"], r[:80])))
    got = {}     # client k -> poll k that received its offer
    for pk, p in polls.items():
        r = obs.get("P%d" % pk, "")
        if r.startswith("match:"):
            _, off, cnat, relay = r.split(":", 3)
            c = by_offer.get(off)
            if c is None and off in ghosts:
                bad.append(("C03", "invalid-nat-client-matched", "poll P%d (%s) was handed the offer of client C%d, whose NAT value %r is none of the "
                            "protocol's names: no pool is compatible with it" % (pk, p["nat"] or "unknown", ghosts[off]["k"], ghosts[off]["nat"])))
                continue
            if c is None:
                bad.append(("C02", "foreign-offer", "poll P%d received an offer no client sent: %s" % (pk, off)))
                continue
            if c["k"] in got:
                bad.append(("C02", "offer-delivered-twice", "offer of C%d reached polls P%d and P%d" % (c["k"], got[c["k"]], pk)))
            got[c["k"]] = pk
            fp = DEFAULT_FP if c["fp"] == "-" else c["fp"]
            # C02_relay_url_not_older_than_request, clause by clause: lists = the list current at the client's request
            # (position length - c_epoch of the model's history; C02_client_checked: the client is checked against it)
            # followed by every list installed later (the positions before it); the relay URL must be what ONE OF THESE
            # configures for the client's fingerprint - with no later installation that is the list-at-request URL.
            # A URL that only a list replaced BEFORE the request configures is excluded by the theorem (positions
            # beyond length - c_epoch) and reported here as relay-url-stale; any other address as wrong-relay-url.
            lists = sc.lists_from(c["t"])
            if fp not in lists[0]:
                bad.append(("C02", "unknown-bridge-matched", "client C%d named unknown bridge %s but P%d got its offer" % (c["k"], fp, pk)))
            elif relay not in [b[fp] for b in lists if fp in b]:
                earlier = [dict(e["bridges"]).get(fp) for e in sc.events if e["kind"] == "I" and e["t"] <= c["t"]] + [dict(sc.bridge_list()).get(fp)]
                key = "relay-url-stale" if relay in earlier else "wrong-relay-url"
                bad.append(("C02", key, "P%d got relay %s, client C%d named bridge %s, which the list installed at its request maps to %s%s" % (
                    pk, relay, c["k"], fp, [b.get(fp) for b in lists], " (the address of an earlier list)" if key == "relay-url-stale" else "")))
            want_nat = c["nat"] if c["nat"] else "unknown"
            if cnat != want_nat:
                bad.append(("C02", "wrong-client-nat", "P%d was told client NAT %s, client sent %s" % (pk, cnat, want_nat)))
            # C03 NAT compatibility
            pn = p["nat"] if p["nat"] else "unknown"
            if want_nat == "unrestricted":
                if pn == "unrestricted":
                    bad.append(("C03", "nat-unrestricted-client-got-unrestricted-proxy", "C%d (unrestricted) matched unrestricted P%d" % (c["k"], pk)))
            elif pn != "unrestricted":
                bad.append(("C03", "nat-incompatible-match", "C%d (%s) matched P%d (%s)" % (c["k"], want_nat, pk, pn)))
    for ck, c in clients.items():
        r = obs.get("C%d" % ck, "")
        if r.startswith("answer:"):
            a = r.split(":", 1)[1]
            if ck not in got:
                bad.append(("C02", "answer-without-offer-delivery", "C%d got answer %s but no poll received its offer" % (ck, a)))
                continue
            sid = polls[got[ck]]["sid"]
            posted = [x["ans"] for x in answers if x["sid"] == sid]
            if a not in posted:
                # the bytes the client received are the bytes SOMEBODY ELSE posted (cross-wired) or bytes nobody posted
                # (altered on the way: trimmed, truncated, re-encoded ...); answers are compared in the driver's
                # canonical escaped form (vbEscAnswer: equal strings iff equal bytes)
                elsewhere = a in [x["ans"] for x in answers]
                bad.append(("C02", "answer-cross-wired" if elsewhere else "answer-altered",
                            "C%d got answer %s (bytes %r); its offer went to P%d (sid %s) under which %s were posted%s" % (
                                ck, a, unesc_answer(a), got[ck], sid, posted,
                                "" if elsewhere else ": the client did not receive exactly the bytes the proxy posted")))
        if r in ("blocked",) or r.startswith("panic"):
            bad.append(("C04", "client-poll-" + r.split(":")[0], "client poll C%d did not complete: %s" % (ck, r)))
        # the bridge check itself: a client naming a bridge of the list installed at its request (the default bridge when it
        # names none) is not turned away as unknown, and one naming an absent bridge is
        fp = DEFAULT_FP if c["fp"] == "-" else c["fp"]
        cur = sc.lists_from(c["t"])[0]
        if r and r != "blocked":
            if fp in cur and r in ("http:500", "error"):
                bad.append(("C02", "default-bridge-not-applied" if c["fp"] == "-" else "known-bridge-rejected",
                            "client C%d named %s, which the installed list has, and was answered %s" % (ck, "no bridge (= the default bridge)" if c["fp"] == "-" else fp, r)))
            if fp not in cur and r != "http:500":
                bad.append(("C02", "unknown-bridge-accepted", "client C%d named bridge %s, absent from the installed list, and was answered %s" % (ck, fp, r)))
        if ck in got and (r.startswith("err:") or r == "error" or (r.startswith("http:") and r != "http:500")):
            bad.append(("C02", "client-response-garbled", "client C%d, whose offer was handed to P%d, received an undecodable response (%s)" % (ck, got[ck], r)))
    for pk in polls:
        r = obs.get("P%d" % pk, "")
        if r == "blocked" or r.startswith("panic") or r.startswith("err"):
            bad.append(("C04", "proxy-poll-" + r.split(":")[0], "proxy poll P%d did not complete properly: %s" % (pk, r)))
    for a in answers:
        r = obs.get("A%d" % a["k"], "")
        if r == "blocked" or r.startswith("panic"):
            bad.append(("C04", "proxy-answer-" + r.split(":")[0], "proxy answer A%d did not complete: %s" % (a["k"], r)))
    for h in (e for e in sc.events if e["kind"] == "H"):
        r = obs.get("H%d" % h["k"], "")
        if r == "blocked" or r.startswith("panic"):
            bad.append(("C04", "client-poll-" + r.split(":")[0], "a client poll of the denial stream H%d (clients for whom no proxy waits, sent while other clients' answers arrive) did not complete: %s" % (h["k"], r)))
        elif r.startswith("other:"):
            bad.append(("C03", "nat-incompatible-match", "a client of the denial stream H%d (unrestricted, only unrestricted proxies polled) was answered %s" % (h["k"], r[6:])))
    allr = [obs.get("%s%d" % (e["kind"], e["k"]), "") for e in sc.events if e["kind"] in "PCAH"]
    if all(x and x != "blocked" for x in allr):
        if obs.get("avail") != "0" or obs.get("heapU") != "0" or obs.get("heapR") != "0" or obs.get("gauge") != "0":
            bad.append(("C04", "ghost-registration", "all requests completed but avail=%s heapU=%s heapR=%s gauge=%s" % (
                obs.get("avail"), obs.get("heapU"), obs.get("heapR"), obs.get("gauge"))))
        for f in ("freshR", "freshU"):
            if obs.get(f) not in (None, "noproxies"):
                bad.append(("C04", "fresh-client-not-refused", "fresh client after quiescence got %s" % obs.get(f)))
    return bad


def check_sequential(sc, obs):
    """C03 statements that need to know who was waiting: only for well-separated scenarios."""
    bad = []
    waiting = {}   # poll k -> expiry time
    evs = sorted([e for e in sc.events if e["kind"] in "PC"], key=lambda e: e["t"])
    by_offer = {}
    for pk, r in ((e["k"], obs.get("P%d" % e["k"], "")) for e in sc.events if e["kind"] == "P"):
        if r.startswith("match:"):
            by_offer[r.split(":")[1]] = pk
    polls = {e["k"]: e for e in sc.events if e["kind"] == "P"}
    bridges = dict(sc.bridge_list())
    for e in evs:
        if e["kind"] == "P":
            waiting[e["k"]] = e["t"] + TMO
        else:
            t = e["t"]
            cn = e["nat"] if e["nat"] else "unknown"
            elig = [k for k, exp in waiting.items() if exp > t + 300 and
                    ((polls[k]["nat"] or "unknown") != "unrestricted" if cn == "unrestricted" else (polls[k]["nat"] or "unknown") == "unrestricted")]
            r = obs.get("C%d" % e["k"], "")
            fp = DEFAULT_FP if e["fp"] == "-" else e["fp"]
            if fp not in sc.lists_from(t)[0]:
                continue
            chosen = by_offer.get(e["offer"])
            if r == "noproxies" and elig:
                bad.append(("C03", "refused-although-proxy-waiting", "C%d (%s) refused while eligible proxies %s were waiting" % (e["k"], cn, elig)))
            if chosen is not None:
                if chosen in waiting:
                    m = min(polls[k]["clients"] for k in elig) if elig else None
                    if m is not None and polls[chosen]["clients"] > m:
                        bad.append(("C03", "not-least-loaded", "C%d was given P%d (load %d) while a proxy with load %d was waiting" % (
                            e["k"], chosen, polls[chosen]["clients"], m)))
                    del waiting[chosen]
    return bad


def check_concurrent(sc, obs):
    """C03's refusal / least-loaded clauses in a form that is sound under true concurrency, from observed times:
    a poll Q certainly waited in its heap during the whole of client C's request when Q was SEEN registered before C
    was sent, C returned less than 10 s after Q was sent (Q's timer had not fired), and Q was never matched."""
    bad = []
    polls = {e["k"]: e for e in sc.events if e["kind"] == "P"}
    by_offer = {}
    for pk in polls:
        r = obs.get("P%d" % pk, "")
        if r.startswith("match:"):
            by_offer[r.split(":")[1]] = pk

    def times(key, n):
        try:
            v = [int(x) for x in obs.get(key, "").split(":")]
            return v if len(v) == n else None
        except ValueError:
            return None

    for c in (e for e in sc.events if e["kind"] == "C"):
        tc = times("tC%d" % c["k"], 2)
        r = obs.get("C%d" % c["k"], "")
        if not tc or tc[0] < 0 or tc[1] < 0:
            continue
        fp = DEFAULT_FP if c["fp"] == "-" else c["fp"]
        if fp not in sc.lists_from(c["t"])[0] or any(e["kind"] == "I" for e in sc.events) and sc.herd:
            continue
        cn = c["nat"] if c["nat"] else "unknown"
        chosen = by_offer.get(c["offer"])
        # the client's matchSnowflake call ended before the poll it was given returned / before the refusal returned
        upper = tc[1]
        if chosen is not None:
            tp = times("tP%d" % chosen, 3)
            if tp and tp[2] >= 0:
                upper = min(upper, tp[2])
        waiting = []
        for pk, q in polls.items():
            tq = times("tP%d" % pk, 3)
            if not tq or tq[0] < 0 or tq[1] < 0:
                continue
            pn = q["nat"] if q["nat"] else "unknown"
            compatible = (pn != "unrestricted") if cn == "unrestricted" else (pn == "unrestricted")
            if compatible and obs.get("P%d" % pk) == "nomatch" and tq[1] < tc[0] and upper < tq[0] + TMO:
                waiting.append(pk)
        if not waiting:
            continue
        if r == "noproxies":
            bad.append(("C03", "refused-although-proxy-waiting", "C%d (%s) was refused although %s waited in its pool during the whole request (times %s)" % (
                c["k"], cn, ["P%d" % k for k in waiting], obs.get("tC%d" % c["k"]))))
        if chosen is not None:
            m = min(polls[k]["clients"] for k in waiting)
            if polls[chosen]["clients"] > m:
                bad.append(("C03", "not-least-loaded", "C%d was given P%d (load %d) although a proxy with load %d (%s) waited in its pool during the whole request" % (
                    c["k"], chosen, polls[chosen]["clients"], m, ["P%d" % k for k in waiting if polls[k]["clients"] == m])))
    return bad


def herd_labels(sc, obs, tags):
    """Admissibility of a truly concurrent herd: when the observed times show that every poll was registered before any
    client was sent and that no poll timer can have fired before the last match, the outcome (who was given whom, who was
    refused) must be producible by SOME order of the client steps of the model. Removing a poll from a pool never
    disables another client's step, so a greedy order decides this. Returns None (times do not allow the argument),
    ("inadmissible", text), or (labels, names) for the replay in the extracted model."""
    if any(e["kind"] in "LIH" for e in sc.events):
        return None
    polls = [e for e in sc.events if e["kind"] == "P"]
    clients = [e for e in sc.events if e["kind"] == "C"]
    answers = [e for e in sc.events if e["kind"] == "A"]

    def times(key, n):
        try:
            v = [int(x) for x in obs.get(key, "").split(":")]
            return v if len(v) == n and min(v) >= 0 else None
        except ValueError:
            return None
    tp = {e["k"]: times("tP%d" % e["k"], 3) for e in polls}
    tc = {e["k"]: times("tC%d" % e["k"], 2) for e in clients}
    if not polls or not clients or any(v is None for v in tp.values()) or any(v is None for v in tc.values()):
        return None
    if max(v[1] for v in tp.values()) >= min(v[0] for v in tc.values()):
        return None
    by_offer = {}
    for e in polls:
        r = obs.get("P%d" % e["k"], "")
        if r.startswith("match:"):
            by_offer[r.split(":")[1]] = e["k"]
        elif r != "nomatch":
            return None
    # every match was over before any poll timer could fire
    last = max([tp[by_offer[c["offer"]]][2] if c["offer"] in by_offer else tc[c["k"]][1] for c in clients])
    if last >= min(v[0] for v in tp.values()) + TMO - 200:
        return None
    order = sorted(polls, key=lambda e: (tp[e["k"]][1], e["k"]))
    idx = {e["k"]: i for i, e in enumerate(order)}
    labels = ["P:%d:%s:%d:%d" % (tags(e["sid"]), NATS[e["nat"]], tags(e["ptype"]), emb(e["clients"])) for e in order]
    names = {"P%d" % i: "P%d" % e["k"] for i, e in enumerate(order)}
    pool = {e["k"]: e for e in polls}          # still waiting
    todo = list(clients)
    ncid = 0
    matched = []
    while todo:
        pick = None
        for c in todo:
            cn = c["nat"] if c["nat"] else "unknown"
            elig = [k for k, q in pool.items() if ((q["nat"] or "unknown") != "unrestricted" if cn == "unrestricted" else (q["nat"] or "unknown") == "unrestricted")]
            r = obs.get("C%d" % c["k"], "")
            ch = by_offer.get(c["offer"])
            if ch is not None:
                if ch in elig and pool[ch]["clients"] == min(pool[k]["clients"] for k in elig):
                    pick = (c, ch)
                    break
            elif r == "noproxies":
                if not elig:
                    pick = (c, None)
                    break
            else:
                return None      # some other outcome (bad fingerprint ...): not a herd this argument covers
        if pick is None:
            return ("inadmissible", "no order of the client polls %s explains the outcome: waiting %s, matches %s, refused %s" % (
                ["C%d" % c["k"] for c in todo], sorted((k, q["nat"], q["clients"]) for k, q in pool.items()),
                sorted((c["k"], by_offer[c["offer"]]) for c in todo if c["offer"] in by_offer),
                [c["k"] for c in todo if obs.get("C%d" % c["k"]) == "noproxies"]))
        c, ch = pick
        todo.remove(c)
        names["C%d" % ncid] = "C%d" % c["k"]
        ncid += 1
        labels.append("C:%s:%s:%d:%s" % (NATS[c["nat"]], "-" if c["fp"] == "-" else str(tags(c["fp"])), tags(c["offer"]),
                                         "-" if ch is None else str(idx[ch])))
        if ch is not None:
            del pool[ch]
            matched.append((c, ch))
    naid = 0
    for c, ch in matched:
        p = idx[ch]
        labels += ["RO:%d" % p, "RF:%d" % p]
        sid = [e for e in polls if e["k"] == ch][0]["sid"]
        mine = [a for a in answers if a["sid"] == sid and obs.get("A%d" % a["k"]) in ("ok", "fail")]
        r = obs.get("C%d" % c["k"], "")
        if len(mine) > 1 or (mine and obs.get("A%d" % mine[0]["k"]) != "ok") or (r == "timeout") != (not mine):
            return None          # duplicate / failed answers or an answer racing the client timeout: not covered here
        if mine:
            a = mine[0]
            labels += ["A:%d:%d" % (tags(a["sid"]), tags(a["ans"])), "AP:%d" % p, "TA:%d" % p, "CC:%d" % p]
            names["A%d" % naid] = "A%d" % a["k"]
            naid += 1
        else:
            labels += ["FC:%d" % p, "CT:%d" % p, "CC:%d" % p]
    for k in pool:
        p = idx[k]
        labels += ["FW:%d" % p, "WT:%d" % p, "WC:%d" % p]
    return labels, names


# ---------------------------------------------------------------- running

BURST_N, BURST_LIMIT = 2300, 15000


def burst_eval(o):
    """`broker burst`: every one of the idle polls must have been answered 'no match' within ProxyTimeout (10 s) + 5 s"""
    d = parse_obs(o)
    try:
        if int(d["late"]) > 0 or int(d["maxms"]) > BURST_LIMIT:
            return ("proxy-poll-late", "%s idle proxy polls at the same time: %s were not answered within %d ms (ProxyTimeout is 10 s); latest answer after %s ms" % (
                d["n"], d["late"], BURST_LIMIT, d["maxms"]))
        if int(d["other"]) > 0:
            return ("proxy-poll-err", "%s idle proxy polls at the same time: %s were answered something else than 'no match'" % (d["n"], d["other"]))
        if (d["avail"], d["heapU"], d["heapR"], d["gauge"]) != ("0", "0", "0", "0"):
            return ("ghost-registration", "%s idle proxy polls all answered, but avail=%s heapU=%s heapR=%s gauge=%s" % (
                d["n"], d["avail"], d["heapU"], d["heapR"], d["gauge"]))
    except (KeyError, ValueError):
        return ("driver-crash", "burst driver output unreadable: " + o[:200])
    return None


def run_scenarios(ctx, scens, props, label, attempt=0, burst=False):
    """props: set of property ids this check is responsible for (others' findings are ignored here).
    A scenario whose observed history disagrees with the model's prediction is run again on its own (up to two
    more times, far fewer scenarios in flight): the prediction depends on the scheduled instants being kept to
    within a few hundred milliseconds, which a heavily loaded machine does not guarantee; a real deviation of the
    code repeats, a timing slip does not. Property predicates (evaluated on the observed history alone) are
    reported at once."""
    retry = []
    flagged = set()
    exe = vlib.go_test_build("./broker", name="broker.test")
    env = dict(os.environ, VERIF_DRIVER="broker")
    lines = [s.line() for s in scens]
    # the delivery herds and the scenarios in which something outlives a finished exchange (an answer accepted too late,
    # an answer buffered on a poll that expired) once more in a process restricted to one P (sync.Pool and other per-P
    # caches are then shared by all handlers and handed on deterministically): property predicates only. It runs beside
    # the main pass (both mostly wait for the protocol's timers).
    onep = None
    if attempt == 0:
        dh = [(sc, line) for sc, line in zip(scens, lines) if sc.kind in ONE_P_KINDS]
        if dh:
            import threading
            box = [None]

            def work():
                env1 = dict(env, GOMAXPROCS="1")
                box[0] = vlib.run_impl(exe, [l for _, l in dh], args=["-test.run", "^TestVerifBrokerDriver$"], env=env1, timeout=600)
            th = threading.Thread(target=work, daemon=True)
            th.start()
            onep = (th, dh, box)
    # C04, "any level of concurrency": BURST_N idle proxy polls at once against one broker, beside the scenarios (it
    # waits for the 10 s poll timers like many of them)
    bline = "broker burst %d %d" % (BURST_N, BURST_LIMIT)
    blines = [bline] if burst and attempt == 0 else []
    rc, out, err = vlib.run_impl(exe, lines + blines, args=["-test.run", "^TestVerifBrokerDriver$"], env=env, timeout=600)
    if rc != 0 or len(out) != len(lines) + len(blines):
        ctx.violation("driver-crash", "broker driver died rc=%s: %s" % (rc, err[-800:]), dict(label=label, stderr=err[-3000:]))
        if onep is not None:
            onep[0].join()
        return
    if blines:
        bo = out.pop()
        ctx.count(bline, kind="poll-burst")
        bad = burst_eval(bo)
        if bad and bad[0] == "proxy-poll-late":
            # a machine too busy to start the polls in time looks the same: once more, alone
            vlib.log("%s: poll burst late (%s); running it again on its own" % (label, bo[:120]))
            rc2, out2, err2 = vlib.run_impl(exe, blines, args=["-test.run", "^TestVerifBrokerDriver$"], env=env, timeout=120)
            if rc2 == 0 and len(out2) == 1:
                bo = out2[0]
                bad = burst_eval(bo)
        if bad:
            ctx.violation(bad[0], bad[1], dict(label=label, case=bline, impl=bo))
        ctx.extra["burst_polls"] = BURST_N
    mlines, minfo = [], []
    for sc, line, o in zip(scens, lines, out):
        obs = parse_obs(o)
        ctx.count(line, kind=sc.kind)
        bad = check_history(sc, obs)
        if obs.get("H0", "").startswith("denied:"):
            ctx.extra["denials_during_answers"] = ctx.extra.get("denials_during_answers", 0) + int(obs["H0"].split(":")[1])
        if not sc.herd:
            bad += check_sequential(sc, obs)
        seen = set((p_, k_) for p_, k_, _ in bad)
        bad += [b for b in check_concurrent(sc, obs) if (b[0], b[1]) not in seen]
        for prop, key, text in bad:
            if prop in props:
                ctx.violation(key, "%s [%s]" % (text, sc.name), dict(label=label, scenario=sc.name, case=line, impl=o))
                flagged.add(id(sc))    # reported with a property key: a disagreement with the model needs no second run
        if sc.herd:
            tags = Tags()
            hl = herd_labels(sc, obs, tags)
            ctx.extra["herds_total"] = ctx.extra.get("herds_total", 0) + 1
            if hl is not None and hl[0] == "inadmissible":
                if "C03" in props:
                    ctx.violation("herd-outcome-inadmissible", "%s [%s]" % (hl[1], sc.name), dict(label=label, scenario=sc.name, case=line, impl=o))
            elif hl is not None:
                ctx.extra["herds_replayed_in_model"] = ctx.extra.get("herds_replayed_in_model", 0) + 1
                labels, names = hl
                # (the relational machine only: which of several equally loaded proxies the array heap hands out depends on the
                # exact registration order, which a herd does not reveal)
                mlines.append(model_line(sc, labels, tags))
                minfo.append((sc, line, o, obs, names, tags))
        if not sc.herd:
            tags = Tags()
            if sc.forced_labels:
                labels, names = sc.forced_labels(sc, obs, tags)
            else:
                labels, names = derive_labels(sc, obs, tags)
            if getattr(sc, "forced_achieved", None) is not None:
                ek = "late_answer_accepted_forced" if sc.kind == "late-answer-accepted-then-more" else "reinstall_race_forced"
                ctx.extra[ek] = ctx.extra.get(ek, 0) + (1 if sc.forced_achieved else 0)
            mlines.append(model_line(sc, labels, tags))
            minfo.append((sc, line, o, obs, names, tags))
            # the same labels through the machine over the two array heaps (Model/BrokerImpl.v): which proxy a client is
            # given is then COMPUTED by the model's container/heap, ties included
            mlines.append(model_line(sc, labels, tags, op="irun"))
            minfo.append((sc, line, o, obs, names, tags))
    if mlines:
        mout = vlib.run_model(mlines)
        for (sc, line, o, obs, names, tags), ml, mo in zip(minfo, mlines, mout):
            ci = canon_impl(sc, obs)
            if mo.startswith("!"):
                # the derived label sequence is not a run of the model: the implementation did something the model cannot do
                retry.append((sc, "correspondence %s: scenario %s: observed behaviour is not a run of the model (%s); labels=%s impl=%s" % (
                    label, sc.name, mo, ml[:600], o[:400])))
                continue
            cm = canon_model(parse_obs(mo), names, tags)
            if ml.startswith("broker irun "):
                ci = dict(ci, heapU=obs.get("heapU"), heapR=obs.get("heapR"))
                cm = dict(cm, heapU=parse_obs(mo).get("heapU"), heapR=parse_obs(mo).get("heapR"))
            if ci != cm:
                diff = {k: (ci.get(k), cm.get(k)) for k in set(ci) | set(cm) if ci.get(k) != cm.get(k)}
                retry.append((sc, "correspondence %s: scenario %s: model and implementation disagree (impl, model): %s; case=%s" % (
                    label, sc.name, diff, line[:500])))
        # cross-check the extracted runner inside coqc on a sample
        sample = [(l, m) for l, m in zip(mlines, mout) if len(l) < 500][:15]
        badidx = vlib.coq_crosscheck(sample)
        ctx.extra["vm_compute_crosschecked"] = ctx.extra.get("vm_compute_crosschecked", 0) + len(sample)
        for i in badidx:
            ctx.not_shown("extraction cross-check differs on " + sample[i][0][:300])
    retry = [(sc, msg) for sc, msg in retry if id(sc) not in flagged]
    if retry:
        again, seen_sc = [], set()
        for sc, msg in retry:
            if id(sc) not in seen_sc:
                seen_sc.add(id(sc)); again.append(sc)
        if attempt < 2:
            vlib.log("%s: %d scenario(s) disagree with the model's prediction; running them again on their own (attempt %d): %s" % (
                label, len(again), attempt + 2, ", ".join(sc.name for sc in again)[:300]))
            ctx.extra["scenarios_rerun_after_disagreement"] = ctx.extra.get("scenarios_rerun_after_disagreement", 0) + len(again)
            run_scenarios(ctx, again, props, label, attempt + 1)
        else:
            for sc, msg in retry:
                ctx.not_shown(msg + " (three attempts)")
    if attempt > 0:
        return
    if onep is not None:
        onep[0].join()
        dh, (rc, out1, err) = onep[1], onep[2][0]
        if rc != 0 or len(out1) != len(dh):
            ctx.violation("driver-crash", "broker driver (GOMAXPROCS=1) died rc=%s: %s" % (rc, err[-800:]), dict(label=label, stderr=err[-3000:]))
        else:
            for (sc, line), o in zip(dh, out1):
                ctx.count(line + " #gomaxprocs1", kind=("delivery-herd-1p" if sc.kind == "delivery-herd" else sc.kind + "-1p"))
                for prop, key, text in check_history(sc, parse_obs(o)):
                    if prop in props:
                        ctx.violation(key, "%s [%s, GOMAXPROCS=1]" % (text, sc.name), dict(label=label, scenario=sc.name, case=line, impl=o, gomaxprocs=1))
    nir = len([m for m in mlines if m.startswith("broker irun ")])
    ctx.extra["traces_validated_against_impl"] = ctx.extra.get("traces_validated_against_impl", 0) + len(mlines) - nir
    ctx.extra["traces_validated_against_array_heap_machine"] = ctx.extra.get("traces_validated_against_array_heap_machine", 0) + nir


# ---------------------------------------------------------------- scenario library

def f1_labels(sc, obs, tags):
    """poll@0; lock held 9.9s..10.3s; client@9.95s (queued on the lock before the waiter's timeout branch): the proxy is
    claimed at its timeout and handed over. Afterwards k further exchanges (poll, client, the poll's own answer) run on
    the same broker, in the same pool: whatever bookkeeping the hand-over left behind must not make the broker refuse a
    client while one of these proxies waits."""
    polls = [e for e in sc.events if e["kind"] == "P"]
    clients = [e for e in sc.events if e["kind"] == "C"]
    answers = [e for e in sc.events if e["kind"] == "A"]
    p, c = polls[0], clients[0]
    labels = [poll_label(p, tags),
              "FW:0", "WT:0",
              "C:%s:-:%d:0" % (NATS[c["nat"]], tags(c["offer"])),
              "WC:0", "RO:0", "RF:0"]
    names = {"P0": "P0", "C0": "C0"}
    rel = [e for e in answers if e["after"] == p["k"]]
    naid = 0
    if rel:
        a = rel[0]
        labels += ["A:%d:%d" % (tags(a["sid"]), tags(a["ans"])), "AP:0", "TA:0", "CC:0"]
        names["A0"] = "A%d" % a["k"]
        naid = 1
    else:
        labels += ["FC:0", "CT:0", "CC:0"]
    followup_labels(polls[1:], clients[1:], answers, obs, tags, labels, names, naid)
    return labels, names


def followup_labels(polls, clients, answers, obs, tags, labels, names, naid):
    """labels of the exchanges (poll j, client j, the poll's relative answer) that follow a forced prefix of ONE exchange;
    what happened (matched or refused, answered or timed out) is read off the observation, the model decides whether it
    is a run"""
    for j, (p, c) in enumerate(zip(polls, clients), start=1):
        labels.append(poll_label(p, tags))
        names["P%d" % j] = "P%d" % p["k"]
        names["C%d" % j] = "C%d" % c["k"]
        matched = obs.get("P%d" % p["k"], "").startswith("match:")
        labels.append(client_label(c, tags, j if matched else None))
        if not matched:
            labels += ["FW:%d" % j, "WT:%d" % j, "WC:%d" % j]
            continue
        labels += ["RO:%d" % j, "RF:%d" % j]
        mine = [a for a in answers if a["after"] == p["k"] and obs.get("A%d" % a["k"]) in ("ok", "fail")]
        if mine:
            a = mine[0]
            labels += ["A:%d:%d" % (tags(a["sid"]), tags(a["ans"])), "AP:%d" % j, "TA:%d" % j, "CC:%d" % j]
            names["A%d" % naid] = "A%d" % a["k"]
            naid += 1
        else:
            labels += ["FC:%d" % j, "CT:%d" % j, "CC:%d" % j]


def reinstall_race_labels(sc, obs, tags):
    """poll@0; lock held 300..2700; client@1000 (passes the bridge check, then queues on the lock inside
    matchSnowflake); a new list is installed @1900; the lock is released and the proxy handler looks the relay URL up
    in the NEW list. If the machine was too slow to force this order (the proxy was told the old URL), the labels of
    the unforced order are produced instead: both are runs of the model."""
    p = [e for e in sc.events if e["kind"] == "P"][0]
    c = [e for e in sc.events if e["kind"] == "C"][0]
    ins = [e for e in sc.events if e["kind"] == "I"][0]
    old = dict(sc.bridge_list())
    r = obs.get("P0", "")
    forced = not (r.startswith("match:") and r.split(":", 3)[3] == old.get(c["fp"]) != dict(ins["bridges"]).get(c["fp"]))
    lp = poll_label(p, tags)
    lc = "C:%s:%d:%d:0" % (NATS[c["nat"]], tags(c["fp"]), tags(c["offer"]))
    li = install_label(ins["bridges"], tags)
    labels = [lp, lc, li, "RO:0", "RF:0"] if forced else [lp, lc, "RO:0", "RF:0", li]
    names = {"P0": "P0", "C0": "C0"}
    rel = [e for e in sc.events if e["kind"] == "A"]
    if rel and r.startswith("match:"):
        a = rel[0]
        labels += ["A:%d:%d" % (tags(a["sid"]), tags(a["ans"])), "AP:0", "TA:0", "CC:0"]
        names["A0"] = "A%d" % a["k"]
    else:
        labels += ["FC:0", "CT:0", "CC:0"]
    sc.forced_achieved = forced
    return labels, names


def poll_label(p, tags):
    return "P:%d:%s:%d:%d" % (tags(p["sid"]), NATS[p["nat"]], tags(p["ptype"]), emb(p["clients"]))


def client_label(c, tags, choice):
    return "C:%s:%s:%d:%s" % (NATS[c["nat"]], "-" if c["fp"] == "-" else str(tags(c["fp"])), tags(c["offer"]),
                              "-" if choice is None else str(choice))


def late_answer_labels(sc, obs, tags):
    """poll@0, client@300 (matched; the proxy stays silent); lock held 9000..11000; the answer is posted @9400 and queues on
    the lock (ProxyAnswers' lookup); the client's 10 s timer fires @10300+, its select commits to the timeout and its final
    critical section queues on the lock BEHIND the answer request. On release (sync.Mutex hands over in FIFO order to
    waiters that waited longer than 1 ms): the answer's lookup still finds the poll, its non-blocking send is ACCEPTED
    (the proxy is told 'success'), then the client deregisters; nobody ever receives that answer. Afterwards k further
    exchanges (poll, client, the poll's own answer) run on the same broker. If the machine was too slow for this order,
    the labels of the order that was observed are produced instead: all are runs of the model."""
    polls = [e for e in sc.events if e["kind"] == "P"]
    clients = [e for e in sc.events if e["kind"] == "C"]
    answers = [e for e in sc.events if e["kind"] == "A"]
    a0 = [a for a in answers if a["after"] is None][0]
    labels = [poll_label(polls[0], tags), client_label(clients[0], tags, 0), "RO:0", "RF:0"]
    names = {"P0": "P%d" % polls[0]["k"], "C0": "C%d" % clients[0]["k"], "A0": "A%d" % a0["k"]}
    la = "A:%d:%d" % (tags(a0["sid"]), tags(a0["ans"]))
    r, ra = obs.get("C%d" % clients[0]["k"], ""), obs.get("A%d" % a0["k"], "")
    sc.forced_achieved = False
    if r.startswith("answer:"):
        labels += [la, "AP:0", "TA:0", "CC:0"]
    elif ra == "ok":
        labels += ["FC:0", "CT:0", la, "AP:0", "CC:0"]
        sc.forced_achieved = True
    else:
        labels += ["FC:0", "CT:0", "CC:0", la]
    followup_labels(polls[1:], clients[1:], answers, obs, tags, labels, names, 1)
    return labels, names


def scenarios(rng, tier):
    S = []
    n = 0

    def fresh(prefix):
        nonlocal n
        n += 1
        if prefix == "ans" and n % 3 == 0:
            return "ans%d%%d%%s%%25-x" % n      # answers are opaque: must come back byte for byte (also over the legacy endpoint)
        return "%s%d" % (prefix, n)

    nats = ["unrestricted", "restricted", "unknown"]
    cnats = ["unrestricted", "restricted", "unknown", ""]
    modes = ["v", "l", "a"]
    B2 = [("AAAAAAAAAAAAAAAAAAAAAAAAAAAAAAAAAAAAAAAA", "wss://bridge-a.example/"),
          ("BBBBBBBBBBBBBBBBBBBBBBBBBBBBBBBBBBBBBBBBBBBBBBBBBBBBBBBBBBBBBBBB"[:40], "wss://bridge-b.example/path")]
    reps = 1 if tier == "quick" else 4
    for _ in range(reps):
        # basic matches over every NAT pair and client mode, with the answer coming back
        for pn in nats:
            for cn in cnats:
                for mode in modes:
                    if mode == "l" and rng.random() < 0.5:
                        continue
                    sc = Scen(fresh("match"), "match-answer")
                    sid = fresh("sid")
                    sc.poll(0, sid, pn, clients=rng.randrange(0, 5))
                    off = "{%s}" % fresh("o")
                    sc.client(300, cn, off, mode=mode)
                    sc.answer(200, sid, fresh("ans"), after_poll=0)
                    S.append(sc)
        # NAT values that are other spellings of the protocol's names: refused, and no proxy of either pool gets the offer
        for sp in (["Restricted", "UNKNOWN", "Unrestricted"], ["rEsTrIcTeD", "Unknown", "UNRESTRICTED", "restricted\u00a0", "nat"]):
            sc = Scen(fresh("natsp"), "invalid-nat-spelling")
            sc.poll(0, fresh("sid"), "restricted", clients=0)
            sc.poll(60, fresh("sid"), "unrestricted", clients=0)
            for j, sv in enumerate(sp):
                sc.ghost_client(400 + 300 * j, sv, "{%s}" % fresh("o"), mode="v")
            S.append(sc)
        # bridges: named fingerprint, default, unknown fingerprint
        BD = [(DEFAULT_FP, DEFAULT_URL)] + B2
        for fp, mode, blist in [(B2[0][0], "v", BD), (B2[1][0], "a", BD), ("-", "v", BD), ("C" * 40, "v", BD), ("C" * 40, "a", BD),
                                # an installed list replaces the built-in default bridge: a client naming none is not matched
                                ("-", "v", B2), ("-", "l", B2), (DEFAULT_FP, "a", B2), (B2[0][0], "v", B2)]:
            sc = Scen(fresh("bridge"), "bridge-routing", bridges=blist)
            sid = fresh("sid")
            sc.poll(0, sid, "unrestricted")
            sc.client(300, "restricted", "{%s}" % fresh("o"), fp=fp, mode=mode)
            sc.answer(150, sid, fresh("ans"), after_poll=0)
            S.append(sc)
        # the list is re-installed while the broker runs: later clients are checked against, and later proxies told
        # the URLs of, the new list; a bridge dropped by the new list is unknown from then on
        A2 = "wss://bridge-a2.example/"
        sc = Scen(fresh("reinst"), "bridge-reinstall", bridges=BD)
        s1, s2, s3 = fresh("sid"), fresh("sid"), fresh("sid")
        sc.poll(0, s1, "unrestricted"); sc.client(300, "restricted", "{%s}" % fresh("o"), fp=B2[0][0]); sc.answer(150, s1, fresh("ans"), after_poll=0)
        sc.install(1500, [(B2[0][0], A2), (DEFAULT_FP, DEFAULT_URL)])
        sc.poll(1800, s2, "unrestricted"); sc.client(2100, "unknown", "{%s}" % fresh("o"), fp=B2[0][0], mode="a"); sc.answer(150, s2, fresh("ans"), after_poll=1)
        sc.poll(2500, s3, "unrestricted"); sc.client(2800, "restricted", "{%s}" % fresh("o"), fp=B2[1][0])
        sc.client(3200, "restricted", "{%s}" % fresh("o"), fp="-", mode="l"); sc.answer(150, s3, fresh("ans"), after_poll=2)
        S.append(sc)
        # ... and in the window between a client's bridge check and the proxy handler's own lookup (lock-forced):
        # the proxy is told the NEW url of that bridge, or - when the new list dropped the bridge - gets an error
        for newlist in ([(B2[0][0], A2), (DEFAULT_FP, DEFAULT_URL)], [(B2[1][0], B2[1][1]), (DEFAULT_FP, DEFAULT_URL)]):
            sc = Scen(fresh("reinstrace"), "bridge-reinstall-race", bridges=BD, watchdog=16000, labels=reinstall_race_labels)
            sid = fresh("sid")
            sc.poll(0, sid, "unrestricted"); sc.lock(300, 2400); sc.client(1000, "restricted", "{%s}" % fresh("o"), fp=B2[0][0])
            sc.install(1900, newlist); sc.answer(150, sid, fresh("ans"), after_poll=0)
            S.append(sc)
        # more re-installations between matches for the same fingerprint: a bridge is dropped and later re-added with
        # another address; the addresses of two bridges are swapped
        FA, FB = B2[0][0], B2[1][0]
        UA, UB = B2[0][1], B2[1][1]
        D = (DEFAULT_FP, DEFAULT_URL)
        sc = Scen(fresh("reinst"), "bridge-reinstall-readd", bridges=[(FA, UA), D])
        t = 0
        sids = []
        def one(fp, t, mode="v"):
            sid = fresh("sid"); sids.append(sid)
            j = sc.poll(t, sid, "unrestricted")
            sc.client(t + 300, rng.choice(["restricted", "unknown"]), "{%s}" % fresh("o"), fp=fp, mode=mode)
            sc.answer(150, sid, fresh("ans"), after_poll=j)
        one(FA, 0); sc.install(700, [D])                       # FA dropped
        sc.client(1000, "restricted", "{%s}" % fresh("o"), fp=FA)   # unknown now
        sc.install(1400, [(FA, "wss://bridge-a3.example/x"), D])     # re-added elsewhere
        one(FA, 1700, "a"); one("-", 2400, "l")
        S.append(sc)
        sc = Scen(fresh("reinst"), "bridge-reinstall-swap", bridges=[(FA, UA), (FB, UB), D])
        one(FA, 0); one(FB, 700, "a")
        sc.install(1500, [(FA, UB), (FB, UA), D])
        one(FA, 1800, "a"); one(FB, 2500)
        sc.install(3200, [(FA, UA), (FB, UB), D])
        one(FB, 3500); one(FA, 4200)
        S.append(sc)
        # least loaded among several, mixed pools
        for _i in range(3):
            sc = Scen(fresh("load"), "least-loaded")
            loads = rng.sample(range(0, 40), 4)
            sids = []
            for j, ld in enumerate(loads):
                sid = fresh("sid"); sids.append(sid)
                sc.poll(j * 200, sid, rng.choice(["unrestricted", "unrestricted", "restricted", "unknown"]), clients=ld,
                        ptype=rng.choice(["standalone", "webext", "badge", "iptproxy"]))
            for j in range(3):
                sc.client(1500 + j * 400, rng.choice(cnats), "{%s}" % fresh("o"), mode=rng.choice(modes))
            for j, sid in enumerate(sids):
                sc.answer(200, sid, fresh("ans"), after_poll=j)
            S.append(sc)
        # loads that differ only inside a bucket of 8, busier proxy polling first (and the reverse)
        for loads in ([15, 9], [9, 15], [23, 17, 16], [7, 1, 3]):
            sc = Scen(fresh("bucket"), "least-loaded-same-bucket")
            sids = []
            types = ["standalone", "webext", "badge", "standalone"]
            for j, ld in enumerate(loads):
                sid = fresh("sid"); sids.append(sid)
                # the least loaded proxy is never a standalone one here
                sc.poll(j * 200, sid, "unrestricted", clients=ld, ptype=("webext" if ld == min(loads) else types[j % 4]))
            sc.client(1500, "restricted", "{%s}" % fresh("o"))
            sc.client(1900, "unknown", "{%s}" % fresh("o"), mode="a")
            for j, sid in enumerate(sids):
                sc.answer(200, sid, fresh("ans"), after_poll=j)
            S.append(sc)
        # no proxies / incompatible pool only
        sc = Scen(fresh("none"), "no-proxies"); sc.client(0, "restricted", "{%s}" % fresh("o"), mode="l"); S.append(sc)
        sc = Scen(fresh("incompat"), "incompatible-pool")
        sc.poll(0, fresh("sid"), "restricted"); sc.client(300, "restricted", "{%s}" % fresh("o")); sc.client(700, "unknown", "{%s}" % fresh("o"), mode="a")
        S.append(sc)
        sc = Scen(fresh("incompat"), "incompatible-pool")
        sc.poll(0, fresh("sid"), "unrestricted"); sc.client(300, "unrestricted", "{%s}" % fresh("o"), mode="l")
        S.append(sc)
        # poll timeout, then a client is refused
        for pn, cn in [("unrestricted", "restricted"), ("unknown", "unrestricted"), ("restricted", "unrestricted"), ("", "unrestricted")]:
            sc = Scen(fresh("idle"), "poll-timeout"); sc.poll(0, fresh("sid"), pn); sc.client(10600, cn, "{%s}" % fresh("o")); S.append(sc)
        # k further exchanges on the same broker after a finished one: whatever the finished exchange left behind (an
        # answer nobody received, a record, a channel) must not reach them - every later client receives exactly the
        # answer posted for the poll that got ITS offer
        def followups(sc, t0, k, gap=700):
            for j in range(k):
                sid = fresh("sid")
                pk = sc.poll(t0 + j * gap, sid, "unrestricted", ptype=rng.choice(["standalone", "webext", "badge", "iptproxy"]))
                sc.client(t0 + j * gap + 300, rng.choice(["restricted", "unknown", ""]), "{%s}" % fresh("o"), mode=rng.choice(modes))
                sc.answer(150, sid, fresh("ans"), after_poll=pk)
        # client timeout (proxy never answers), late answer fails; then further exchanges
        sc = Scen(fresh("ctimeout"), "client-timeout-late-answer")
        sid = fresh("sid"); sc.poll(0, sid, "unrestricted"); sc.client(300, "unknown", "{%s}" % fresh("o"), mode=rng.choice(modes))
        sc.answer(10900, sid, fresh("ans"))
        followups(sc, 11500, 3)
        S.append(sc)
        # the late answer is ACCEPTED: it arrives between the client's timeout and its deregistration (lock-forced, see
        # late_answer_labels); nobody receives it, and the further exchanges must not either
        for mode in (["v", "a"] if tier == "quick" else modes):
            sc = Scen(fresh("late"), "late-answer-accepted-then-more", watchdog=24000, labels=late_answer_labels, sequenced=True)
            sid = fresh("sid"); sc.poll(0, sid, "unrestricted"); sc.client(300, rng.choice(["restricted", "unknown"]), "{%s}" % fresh("o"), mode=mode)
            sc.lock(9000, 2000); sc.answer(9400, sid, fresh("ans"))
            followups(sc, 12000, 4)
            S.append(sc)
        # early answer before any match; poll expires (the /answer call must return) with the answer still in its
        # channel; then further exchanges
        sc = Scen(fresh("early"), "early-answer-poll-expires")
        sid = fresh("sid"); sc.poll(0, sid, "unrestricted"); sc.answer(500, sid, fresh("ans")); sc.answer(900, sid, fresh("ans"))
        followups(sc, 10700, 3)
        S.append(sc)
        # wire formats of the proxy poll: every version string the broker accepts (major version 1: "1.0" ... "1.3", a
        # bare "1", a two-digit minor, three components), with and without the relay-pattern field, with the NAT field
        # absent. The version must not enter the pool decision: an incompatible client is refused, a compatible one
        # is given the proxy, whatever version the poll carried.
        vers = ["1.0", "1.1", "1.2", "1.3", "1", "1.10", "1.0!", "1.1!", "1.2!", "1!", "1.2.3", "1.", "1.3~", "1.0~!"]
        combos = [(v, pn) for v in vers for pn in nats + [""]]
        if tier == "quick":
            combos = [(v, "unrestricted") for v in vers] + rng.sample([c for c in combos if c[1] != "unrestricted"], 12)
        for ver, pn in combos:
            sc = Scen(fresh("wire"), "poll-wire-version")
            sid = fresh("sid")
            sc.poll(0, sid, pn, clients=rng.randrange(0, 3), ptype=rng.choice(["standalone", "webext", "badge", "iptproxy", "other"]), ver=ver)
            if pn == "unrestricted":
                bad_cn, good_cn = "unrestricted", rng.choice(["restricted", "unknown", ""])
            else:
                bad_cn, good_cn = rng.choice(["restricted", "unknown", ""]), "unrestricted"
            sc.client(300, bad_cn, "{%s}" % fresh("o"), mode=rng.choice(modes))
            sc.client(700, good_cn, "{%s}" % fresh("o"), mode=rng.choice(modes))
            sc.answer(150, sid, fresh("ans"), after_poll=0)
            S.append(sc)
        # repeated session ids: the same /proxy body POSTed again while the first poll is pending / matched / just
        # expired. Every poll must get its response within its own 10 s (each is registered with a waiter of its own;
        # the id map resolves the id to the newest), and nothing may be left behind.
        sc = Scen(fresh("dup"), "duplicate-sid", watchdog=23000)
        sid = fresh("sid"); sc.poll(0, sid, "unrestricted"); sc.poll(300, sid, "unrestricted"); sc.poll(700, sid, "unrestricted")
        S.append(sc)
        sc = Scen(fresh("dup"), "duplicate-sid", watchdog=23000)    # second poll while the first is matched and its client waits
        sid = fresh("sid"); sc.poll(0, sid, "unrestricted"); sc.client(300, "restricted", "{%s}" % fresh("o"), mode=rng.choice(modes))
        sc.poll(700, sid, "unrestricted"); sc.answer(1100, sid, fresh("ans")); sc.client(1500, "unknown", "{%s}" % fresh("o"))
        S.append(sc)
        sc = Scen(fresh("dup"), "duplicate-sid", watchdog=23000)    # the same without a second client: the answer stays on the second poll
        sid = fresh("sid"); sc.poll(0, sid, "restricted"); sc.client(300, "unrestricted", "{%s}" % fresh("o"), mode=rng.choice(modes))
        sc.poll(700, sid, "restricted"); sc.answer(1100, sid, fresh("ans"))
        S.append(sc)
        sc = Scen(fresh("dup"), "duplicate-sid", watchdog=25000)    # second poll right after the first expired
        sid = fresh("sid"); sc.poll(0, sid, "unrestricted"); sc.poll(10200, sid, "unrestricted")
        S.append(sc)
        for loads in ([2, 0], [0, 1]):                               # a client takes the less loaded of the two; the answer resolves to the newer
            sc = Scen(fresh("dup"), "duplicate-sid", watchdog=23000)
            sid = fresh("sid"); sc.poll(0, sid, "unrestricted", clients=loads[0]); sc.poll(300, sid, "unrestricted", clients=loads[1])
            sc.client(700, "restricted", "{%s}" % fresh("o")); sc.answer(1200, sid, fresh("ans"))
            S.append(sc)
        sc = Scen(fresh("dupherd"), "duplicate-sid-herd", herd=True, watchdog=23000)
        sid = fresh("sid")
        for j in range(6):
            sc.poll(rng.randrange(0, 30), sid, rng.choice(["unrestricted", "restricted"]))
        sc.poll(10, fresh("sid"), "unrestricted"); sc.poll(20, fresh("sid"), "restricted")
        sc.client(300, "restricted", "{%s}" % fresh("o")); sc.client(310, "unrestricted", "{%s}" % fresh("o"), mode="a")
        S.append(sc)
        # early answer, then a client is matched and receives it
        sc = Scen(fresh("early"), "early-answer-then-match")
        sid = fresh("sid"); sc.poll(0, sid, "unrestricted"); sc.answer(500, sid, fresh("ans")); sc.client(1000, "restricted", "{%s}" % fresh("o"))
        S.append(sc)
        # duplicate answers and an answer for an unknown sid
        sc = Scen(fresh("dup"), "duplicate-and-unknown-answers")
        sid = fresh("sid"); sc.poll(0, sid, "unrestricted"); sc.client(300, "restricted", "{%s}" % fresh("o"))
        sc.answer(200, sid, fresh("ans"), after_poll=0); sc.answer(600, sid, fresh("ans"), after_poll=0); sc.answer(100, fresh("nosuchsid"), fresh("ans"))
        S.append(sc)
        # answers are opaque byte strings: white space at either end or inside (a real SDP answer ends in CRLF and has CRLF
        # inside), white space only, JSON/AMP-significant characters - over all three client formats the client must
        # receive exactly the bytes the proxy posted (key answer-altered)
        # ("@" stands for a fresh tag; bytes are written as latin-1 characters, non-ASCII ones as the UTF-8 of U+00A0 / U+0085
        # so that the JSON encodings carry them unchanged)
        U = lambda x: x.encode("utf-8").decode("latin-1")
        WS = ["  ", " @", "@ ", "\t@", "@\t", "@\r\n", "\r\n@", "@\n", "\n", "\r\n", " \t\r\n ",
              "v=0\r\no=- @ 2 IN IP4 0.0.0.0\r\ns=-\r\n", "{\"type\":\"answer\",\"sdp\":\"v=0\\r\\n@\"}\n", "in @ ner", "@\x0bb\x0c", U("\x0b\x0c\xa0") + "@" + U("\x85"),
              U("\xa0"), "~@", "co,lon:at@eq=", "\"@\"", "<&@>", "@\\n"]
        for mode in modes:
            forms = list(WS) if tier != "quick" else WS[:6] + rng.sample(WS[6:], 5)
            for form in forms:
                sc = Scen(fresh("anyans"), "answer-opaque-bytes")
                sid = fresh("sid")
                sc.poll(0, sid, "unrestricted")
                sc.client(300, rng.choice(["restricted", "unknown", ""]), "{%s}" % fresh("o"), mode=mode)
                sc.answer(200, sid, esc_answer(form.replace("@", fresh("ans"))), after_poll=0)
                S.append(sc)
        # bridge fingerprints of BOTH accepted lengths (20 and 32 bytes), in the list and named by clients, with pairs
        # that share their first 20 bytes: each is a bridge of its own (or no bridge at all)
        hexd = "0123456789ABCDEF"
        F20 = "".join(rng.choice(hexd) for _ in range(40))
        X32 = F20 + "".join(rng.choice(hexd) for _ in range(24))           # extends F20
        G32 = "".join(rng.choice(hexd) for _ in range(64))
        UF, UX, UG = "wss://fp20.example/", "wss://fp32-ext.example/x", "wss://fp32.example/"
        DD = (DEFAULT_FP, DEFAULT_URL)
        fpcases = [([(F20, UF), DD], [X32]),                      # 20-byte listed, its 32-byte extension named: unknown
                   ([(X32, UX), DD], [F20]),                      # the reverse
                   ([(G32, UG), DD], [G32[:40], G32[24:], G32]),    # head / tail of a listed 32-byte fingerprint; itself
                   ([(F20, UF), (X32, UX), DD], [X32, F20]),       # both listed, each with its own address
                   ([(X32, UX), (F20, UF), DD], [F20, X32]),
                   ([(G32, UG), (F20, UF)], [G32, F20, X32, "-"])]
        for blist, named in fpcases:
            sc = Scen(fresh("fplen"), "bridge-fingerprint-lengths", bridges=blist)
            waiting = False
            for j, fp_ in enumerate(named):
                known = (DEFAULT_FP if fp_ == "-" else fp_) in dict(blist)
                # a proxy waits whenever a client comes: one naming an unknown bridge must leave it alone (the next client
                # naming a known bridge is given it), one naming a known bridge is told that bridge's own address
                if not waiting:
                    sid = fresh("sid")
                    pk = sc.poll(j * 800, sid, "unrestricted")
                    sc.answer(150, sid, fresh("ans"), after_poll=pk)
                    waiting = True
                sc.client(j * 800 + 300, rng.choice(["restricted", "unknown"]), "{%s}" % fresh("o"), fp=fp_, mode=rng.choice(["v", "a"]))
                if known:
                    waiting = False
            S.append(sc)
        # a waiting poll expires at a chosen position INSIDE the heap (the broker's own removal in the timeout branch, not
        # a scripted container/heap call): one early poll, n-1 late ones of chosen counts, the early one times out, then
        # clients drain the pool: every hand-over must be the least loaded proxy waiting (not-least-loaded), and the array
        # heap machine (irun) replays the same history. Patterns are drawn until the removal needs a sift-up (the heap's
        # last element, moved into the hole, is smaller than the parent there), a sift-down, and neither.
        pats = [("up", [11, 1, 2, 10, 12, 20, 3])]
        want = ["up", "up", "down"] if tier == "quick" else ["up"] * 6 + ["down"] * 3 + ["none", "last"]
        for cls in want:
            for _try in range(2000):
                cnts = rng.sample(range(0, 60), rng.randrange(7, 11))
                if removal_class(cnts, cnts[0]) == cls:
                    pats.append((cls, cnts))
                    break
        for cls, cnts in pats:
            pool_nat, cl_nats = rng.choice([("unrestricted", ["restricted", "unknown", ""]), ("restricted", ["unrestricted"]), ("unknown", ["unrestricted"])])
            sc = Scen(fresh("expire"), "poll-expires-inside-heap-" + cls, watchdog=26000)
            sids = []
            t1 = 8300
            for j, cn_ in enumerate(cnts):
                sid = fresh("sid"); sids.append(sid)
                sc.poll(0 if j == 0 else t1 + (j - 1) * 150, sid, pool_nat, clients=cn_, ptype=rng.choice(["standalone", "webext", "badge", "iptproxy"]))
            # the early poll expires at 10 000; the clients come 1.2 s later, one every 400 ms, and drain the pool
            for j in range(len(cnts) - 1):
                sc.client(11200 + j * 400, rng.choice(cl_nats), "{%s}" % fresh("o"), mode=rng.choice(modes))
            for j, sid in enumerate(sids):
                if j > 0:
                    sc.answer(100, sid, fresh("ans"), after_poll=j)
            S.append(sc)
        # the forced timeout/match race with the waiter DELAYED after the client's pop: a second critical section queues on
        # the lock between the client and the waiter's timeout branch, so that the client has popped the proxy and offers on
        # its channel for 400 ms before the waiter (timer fired, queued on the lock) comes to look: the hand-over must
        # still take place (C04: the poll completes, nothing is left behind; C03: the client is not refused)
        for cn_, mode, dly in [("restricted", "v", 400), ("unknown", "a", 600)] + ([] if tier == "quick" else [("", "l", 300), ("restricted", "v", 1500)]):
            sc = Scen(fresh("racedly"), "forced-timeout-match-race-waiter-delayed", watchdog=25000, labels=f1_labels, sequenced=True)
            sid = fresh("sid"); sc.poll(0, sid, "unrestricted"); sc.lock(9700, 600); sc.client(9780, cn_, "{%s}" % fresh("o"), mode=mode)
            sc.lock(9860, dly)
            sc.answer(150, sid, fresh("ans"), after_poll=0)
            followups(sc, 12500, 2)
            S.append(sc)
        # the forced timeout/match race (DESIGN F1): client queued on the lock before the waiter's timeout branch; the
        # history then CONTINUES with further exchanges in the same pool (a proxy waits, an eligible client comes: it must
        # not be refused - C03_refusal_iff holds in every state, also the ones after a claimed-at-timeout hand-over)
        sc = Scen(fresh("race"), "forced-timeout-match-race", watchdog=23000, labels=f1_labels, sequenced=True)
        sid = fresh("sid"); sc.poll(0, sid, "unrestricted"); sc.lock(9900, 400); sc.client(9950, "restricted", "{%s}" % fresh("o"))
        sc.answer(150, sid, fresh("ans"), after_poll=0)
        followups(sc, 11500, 3)
        S.append(sc)
        sc = Scen(fresh("race"), "forced-timeout-match-race", watchdog=23000, labels=f1_labels, sequenced=True)
        sid = fresh("sid"); sc.poll(0, sid, "unrestricted"); sc.lock(9900, 400); sc.client(9950, "unknown", "{%s}" % fresh("o"), mode="a")
        followups(sc, 11500, 2)
        S.append(sc)
        # self-reported client counts at the ends of Go's int range and below zero (the wire accepts any int): the order
        # is the order of the integers, also for two counts more than MaxInt64 apart
        MAXI, MINI = 2 ** 63 - 1, -2 ** 63
        EXT = [MINI, -8, -1, 0, 8, MAXI - 7, MAXI]
        for loads in ([MAXI, -8], [-8, MAXI], [8, MINI], [MAXI - 7, -1, 0], rng.sample(EXT, 3), rng.sample(EXT, 4)):
            sc = Scen(fresh("extreme"), "least-loaded-extreme-counts")
            sids = []
            for j, ld in enumerate(loads):
                sid = fresh("sid"); sids.append(sid)
                sc.poll(j * 200, sid, "unrestricted", clients=ld, ptype=rng.choice(["standalone", "webext"]))
            for j in range(len(loads) - 1):
                sc.client(1500 + j * 400, rng.choice(["restricted", "unknown", ""]), "{%s}" % fresh("o"), mode=rng.choice(modes))
            for j, sid in enumerate(sids):
                sc.answer(200, sid, fresh("ans"), after_poll=j)
            S.append(sc)
        # bridge lists installed from FILE TEXT through the real line loader: records without an address (absent, null)
        # after records with one, reordered members, a fingerprint filed twice, a file that does not load (the old list
        # stays); clients naming these bridges are matched and the proxies told the address of the bridge's OWN record
        FA, FB, FC_ = "A1" * 20, "B2" * 20, "c3" * 20
        UA, UA2, UB = "wss://file-a.example/", "wss://file-a2.example/x", "wss://file-b.example/"
        D = [("n", "s", "default"), ("a", "s", DEFAULT_URL), ("f", "s", DEFAULT_FP)]
        f1 = [D, [("n", "s", "a"), ("a", "s", UA), ("f", "s", FA)], [("f", "s", FB), ("n", "s", "b")],
              [("a", "z", ""), ("f", "s", FC_)]]
        f2 = [[("f", "s", FB), ("a", "s", UB)], [("f", "s", FA), ("a", "s", UA)], D, [("n", "s", "again"), ("f", "s", FA.lower()), ("a", "s", UA2)],
              [("f", "s", FC_.upper()), ("n", "z", "")]]
        f3 = [D, None, [("f", "s", FB), ("a", "s", UA)]]
        sc = Scen(fresh("bfile"), "bridge-file-install")
        sc.install_file(0, render_file(rng, f1, {}), f1)
        one_ = lambda fp_, t, mode="v": (lambda sid: (sc.answer(150, sid, fresh("ans"), after_poll=sc.poll(t, sid, "unrestricted")),
                                                      sc.client(t + 300, rng.choice(["restricted", "unknown"]), "{%s}" % fresh("o"), fp=fp_, mode=mode)))(fresh("sid"))
        one_(FB, 400); one_(FA, 1100, "a"); one_(FC_.upper(), 1800)
        sc.install_file(2500, render_file(rng, f2, {1: " trailing"}), f2)
        one_(FA, 2900); one_(FC_.upper(), 3600, "a"); one_(FB, 4300)
        sc.install_file(5000, render_file(rng, f3, {1: ""}), f3)
        one_(FB, 5400); one_("-", 6100, "l")
        S.append(sc)
        # herds: simultaneous arrivals, prompt answers
        for size in ([6, 16] if tier == "quick" else [6, 16, 48]):
            sc = Scen(fresh("herd"), "herd", herd=True)
            sids = []
            for j in range(size):
                sid = fresh("sid"); sids.append(sid)
                sc.poll(rng.randrange(0, 30), sid, rng.choice(nats), clients=rng.randrange(0, 3))
            for j in range(size):
                sc.client(200 + rng.randrange(0, 30), rng.choice(cnats), "{%s}" % fresh("o"), mode=rng.choice(modes))
            for j, sid in enumerate(sids):
                if rng.random() < 0.8:
                    sc.answer(rng.randrange(0, 300), sid, fresh("ans"), after_poll=j)
            S.append(sc)
        # surplus herds: more waiting proxies than clients, few distinct loads: the proxies left over at the end must not
        # be less loaded than the ones handed out, and nobody may be refused (predicates sound under concurrency)
        for size in ([10] if tier == "quick" else [10, 30]):
            sc = Scen(fresh("surplus"), "surplus-herd", herd=True, watchdog=14000)
            for j in range(size):
                sc.poll(rng.randrange(0, 40), fresh("sid"), rng.choice(["unrestricted", "unrestricted", "restricted"]), clients=rng.choice([0, 0, 1, 8, 9]),
                        ptype=rng.choice(["standalone", "webext", "badge"]))
            for j in range(size // 2):
                sc.client(600 + rng.randrange(0, 40), rng.choice(cnats), "{%s}" % fresh("o"), mode=rng.choice(modes))
            for j in range(size):
                sc.answer(100, [e for e in sc.events if e["kind"] == "P"][j]["sid"], fresh("ans"), after_poll=j)
            S.append(sc)
        # delivery herds: every client is matched with its own proxy and all client responses are delivered at the same
        # time (slow connections: the first Write of every client handler waits for the others); answers of different
        # lengths and contents; each client must receive exactly the answer posted for the poll that got ITS offer
        for size, amp_share in ([(12, 1.0), (24, 0.6)] if tier == "quick" else [(12, 1.0), (24, 0.6), (48, 0.8), (32, 1.0)]):
            sc = Scen(fresh("deliver"), "delivery-herd", herd=True, watchdog=20000, barrier=size)
            sids = []
            for j in range(size):
                sid = fresh("sid"); sids.append(sid)
                sc.poll(rng.randrange(0, 30), sid, "unrestricted", clients=rng.randrange(0, 3))
            for j in range(size):
                mode = "a" if rng.random() < amp_share else rng.choice(["v", "l"])
                sc.client(300 + rng.randrange(0, 30), rng.choice(["restricted", "unknown", ""]), "{%s}" % fresh("o"), mode=mode)
            for j, sid in enumerate(sids):
                body = fresh("ans") + "z" + "".join(rng.choice("abcdefghijklmnopqrstuvwxy0123456789") for _ in range(rng.choice([0, 1, 7, 40, 300, 1500, 5000])))
                sc.answer(rng.randrange(0, 200), sid, body, after_poll=j)
            S.append(sc)
        # denial/answer herd: clients for whom no proxy waits are turned away in a continuous stream (two workers, back to
        # back) while the answers of the matched clients arrive spread over three seconds: the answer path of one client
        # overlaps the denial path of another many hundred times; nobody may be left waiting
        sc = Scen(fresh("denyans"), "denial-answer-herd", herd=True, watchdog=16000)
        sids = []
        size = 40 if tier == "quick" else 120
        for j in range(size):
            sid = fresh("sid"); sids.append(sid)
            sc.poll(rng.randrange(0, 30), sid, "unrestricted", clients=rng.randrange(0, 3))
        for j in range(size):
            sc.client(300 + rng.randrange(0, 30), rng.choice(["restricted", "unknown", ""]), "{%s}" % fresh("o"), mode=rng.choice(modes))
        for j, sid in enumerate(sids):
            sc.answer(rng.randrange(0, 3000), sid, fresh("ans"), after_poll=j)
        sc.hammer(250, 2, 3600)
        S.append(sc)
        # timeout-boundary herds: clients arrive around the polls' expiry, answers around the clients' expiry
        for size in ([8] if tier == "quick" else [8, 24]):
            sc = Scen(fresh("edge"), "timeout-boundary-herd", herd=True, watchdog=26000)
            sids = []
            for j in range(size):
                sid = fresh("sid"); sids.append(sid)
                sc.poll(rng.randrange(0, 20), sid, "unrestricted", clients=0)
            for j in range(size):
                sc.client(10000 + rng.randrange(-15, 25), rng.choice(["restricted", "unknown"]), "{%s}" % fresh("o"), mode=rng.choice(modes))
            for j, sid in enumerate(sids):
                sc.answer(10000 + rng.randrange(-20, 20), sid, fresh("ans"), after_poll=j)
            # answers that lost (or nearly lost) the race against their client's timeout may sit in a finished exchange's
            # channel: the exchanges that follow must not see them
            followups(sc, 21500, 3, gap=400)
            S.append(sc)
    return S


# ---------------------------------------------------------------- SnowflakeHeap scripts (C03: `broker heap`)
# The extracted Model/BrokerHeap.v xstep (the definition the index-consistency and refinement theorems are about)
# and the real SnowflakeHeap driven through container/heap run the same scripted Push/Pop/Remove(i)/Fix sequences;
# after every operation the element handed back, the slice order and every element's `index` field are compared,
# and the heap's contract is evaluated on the implementation's own output.

PTYPES = ["standalone", "webext", "badge", "iptproxy", ""]


def heap_cases(rng, tier):
    cases = []   # (kind, [ops])
    nid = [0]

    def push(c, pt=None):
        nid[0] += 1
        return "u:%d:%d:%s" % (nid[0], c, rng.choice(PTYPES) if pt is None else pt)

    def case(kind, ops):
        cases.append((kind, ops))
        nid[0] = 0

    # exhaustive small scope: every load vector over {0,1,2} of length 1..4, then every single removal / pops to empty
    import itertools
    for n in (1, 2, 3, 4):
        for loads in itertools.product((0, 1, 2), repeat=n):
            if n == 4 and tier == "quick" and rng.random() < 0.6:
                continue
            ops = [push(c, "standalone" if (i + sum(loads)) % 2 else "webext") for i, c in enumerate(loads)]
            tail = rng.choice(["pop", "rem"])
            if tail == "pop":
                case("heap-small-pop-all", ops + ["o"] * (n + 1))
            else:
                i = rng.randrange(0, n + 1)
                case("heap-small-remove", ops + ["r:%d" % i] + ["o"] * n)
    # equal loads: ties everywhere, mixed proxy types (a Less that looks at anything but the load changes the order)
    for n in (2, 3, 5, 8, 13):
        for c in (0, 7):
            ops = [push(c, PTYPES[i % len(PTYPES)]) for i in range(n)]
            case("heap-equal-loads", ops + ["o"] * (n // 2) + ["r:0", "r:%d" % max(0, n - n // 2 - 2)] + ["o"] * n)
    # mixed proxy types with distinct loads: the standalone ones are the busiest
    for n in (2, 3, 4, 6, 9):
        loads = rng.sample(range(0, 40), n)
        srt = sorted(loads)
        ops = [push(c, "standalone" if c >= srt[len(srt) // 2] else rng.choice(["webext", "badge", "iptproxy"])) for c in loads]
        case("heap-mixed-types", ops + ["o"] * (n + 1))
        ops = [push(c, "standalone" if c >= srt[len(srt) // 2] else rng.choice(["webext", "badge", "iptproxy"])) for c in loads]
        case("heap-mixed-types", ops[: n // 2] + ["o"] + ops[n // 2:] + ["o"] * n)
    # remove first / last / middle / out of range, remove after pop, then drain
    for n in (1, 2, 3, 5, 7, 10, 15):
        for where in ("first", "last", "middle", "beyond", "after-pop"):
            ops = [push(rng.randrange(0, 6)) for _ in range(n)]
            if where == "first":
                ops.append("r:0")
            elif where == "last":
                ops.append("r:%d" % (n - 1))
            elif where == "middle":
                ops.append("r:%d" % (n // 2))
            elif where == "beyond":
                ops.append("r:%d" % n)
            else:
                ops += ["o", "r:%d" % rng.randrange(0, max(1, n - 1)), "r:%d" % max(0, n - 2)]
            case("heap-remove-" + where, ops + [push(rng.randrange(0, 6))] + ["o"] * (n + 1))
    # Fix: raise the root, lower a leaf, no change, out of range
    for n in (1, 3, 6, 11):
        ops = [push(rng.randrange(0, 9)) for _ in range(n)]
        ops += ["f:0:%d" % rng.randrange(5, 20), "f:%d:0" % (n - 1), "f:%d:%d" % (n // 2, rng.randrange(0, 9)), "f:%d:3" % n]
        case("heap-fix", ops + ["o"] * (n + 1))
    # signed client counts at the ends of Go's int range (op heapz): every pair of them, both orders; walks over them
    MAXI, MINI = 2 ** 63 - 1, -2 ** 63
    EXT = [MINI, -8, -1, 0, 8, MAXI - 7, MAXI]
    for a in EXT:
        for b in EXT:
            case("heapz-extreme-pair", [push(a, "standalone"), push(b, "webext"), "o", "o", "o"])
    for _ in range(20 if tier == "quick" else 200):
        ops, size = [], 0
        for _j in range(rng.randrange(3, 16)):
            r = rng.random()
            if r < 0.55 or size == 0:
                ops.append(push(rng.choice(EXT))); size += 1
            elif r < 0.8:
                ops.append("o"); size -= 1
            elif r < 0.9:
                i = rng.randrange(0, size); ops.append("r:%d" % i); size -= 1
            else:
                ops.append("f:%d:%d" % (rng.randrange(0, size), rng.choice(EXT)))
        case("heapz-extreme-walk", ops + ["o"] * (size + 1))
    # random walks with many ties
    reps = 60 if tier == "quick" else 600
    for _ in range(reps):
        ops = []
        size = 0
        hi = rng.choice([2, 3, 8, 50])
        for _j in range(rng.randrange(4, 36)):
            r = rng.random()
            if r < 0.5 or size == 0:
                ops.append(push(rng.randrange(0, hi))); size += 1
            elif r < 0.72:
                ops.append("o"); size -= 1
            elif r < 0.92:
                i = rng.randrange(0, size + 1)
                ops.append("r:%d" % i)
                if i < size:
                    size -= 1
            else:
                ops.append("f:%d:%d" % (rng.randrange(0, size + 1), rng.randrange(0, hi)))
        case("heap-random", ops + ["o"] * rng.randrange(0, size + 2))
    return cases


def heap_prop(line, impl, model):
    """SnowflakeHeap's contract evaluated on the implementation's own output."""
    ops = line.split(" ")[2].split(",")
    segs = impl.split(" ") if impl else []
    if len(segs) != len(ops):
        return "heap driver answered %d segments for %d operations: %s" % (len(segs), len(ops), impl[:200])
    arr = []     # [(id, clients)]
    gone = []    # ids
    for k, (op, seg) in enumerate(zip(ops, segs)):
        try:
            ret, a, o = seg.split("/")
            now = [] if a == "-" else [tuple(x.split(":")) for x in a.split(".")]
            out = [] if o == "-" else [tuple(x.split(":")) for x in o.split(".")]
        except ValueError:
            return "unparsable segment %d: %s" % (k, seg)
        f = op.split(":")
        before = list(arr)
        exp = sorted(before)
        if f[0] == "u":
            exp = sorted(before + [(f[1], int(f[2]))])
        elif f[0] == "o" and before:
            m = min(c for _, c in before)
            got = [c for i, c in before if i == ret]
            if not got or got[0] != m:
                return "op %d (Pop): handed back %s (load %s) while the smallest load in the heap was %d; heap before: %s" % (
                    k, ret, got[0] if got else "?", m, before)
            exp = sorted(x for x in before if x[0] != ret)
            gone.append(ret)
        elif f[0] == "r" and int(f[1]) < len(before):
            want = before[int(f[1])][0]
            if ret != want:
                return "op %d (Remove %s): handed back %s, element at that position was %s" % (k, f[1], ret, want)
            exp = sorted(x for x in before if x[0] != ret)
            gone.append(ret)
        elif f[0] == "f" and int(f[1]) < len(before):
            i = int(f[1])
            exp = sorted(before[:i] + [(before[i][0], int(f[2]))] + before[i + 1:])
        elif ret != "-":
            return "op %d (%s) on a heap of %d handed back %s" % (k, op, len(before), ret)
        arr = [(i, int(c)) for i, c, _ in now]
        if sorted(arr) != exp:
            return "op %d (%s): contents changed: expected %s, slice holds %s" % (k, op, exp, sorted(arr))
        for pos, (i, c, idx) in enumerate(now):
            if int(idx) != pos:
                return "op %d (%s): element %s at position %d has index %s" % (k, op, i, pos, idx)
        if [i for i, _ in out] != gone:
            return "op %d (%s): elements that left the heap: expected %s, got %s" % (k, op, gone, out)
        for i, idx in out:
            if int(idx) != -1:
                return "op %d (%s): element %s left the heap but has index %s" % (k, op, i, idx)
        # the slice is heap ordered (what makes the NEXT Pop correct)
        for pos in range(1, len(arr)):
            if arr[pos][1] < arr[(pos - 1) // 2][1]:
                return "op %d (%s): slice not heap ordered at position %d: %s" % (k, op, pos, arr)
    return None


def heap_key(line, impl, model):
    bad = heap_prop(line, impl, model) or ""
    if "(Pop): handed back" in bad:
        return "heap-pop-not-least-loaded"
    if "has index" in bad:
        return "heap-index-inconsistent"
    if "not heap ordered" in bad:
        return "heap-order-broken"
    if "(Remove" in bad:
        return "heap-remove-wrong-element"
    return "heap-contents"


def run_heap(ctx, label="snowflake-heap"):
    exe = vlib.go_test_build("./broker", name="broker.test")
    os.environ["VERIF_DRIVER"] = "broker"
    cases = heap_cases(ctx.rng, ctx.tier)
    lines = ["broker %s %s" % ("heapz" if k.startswith("heapz") else "heap", ",".join(ops) if ops else "-") for k, ops in cases]
    kinds = [k for k, _ in cases]
    ctx.correspond(exe, lines, kinds=kinds, label=label, prop=heap_prop, key_of=heap_key,
                   impl_args=["-test.run", "^TestVerifBrokerDriver$"])
    ctx.extra["heap_scripts"] = len(lines)
