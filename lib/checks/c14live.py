"""C14, live parts: (1) the broker BINARY built from main() (`go build ./broker`), started with -disable-tls on a free
127.0.0.1 port and talked to over real TCP, so that the http.Server configuration of main() is part of what is
observed: requests that are answered only after the protocol's full wait (idle proxy poll, client whose proxy stays
silent) must still get their response; (2) a concurrent soak of every route next to a stream of matches, run in a
child process so that a runtime fatal error of the broker code is an observable (`broker-process-died`)."""
import base64
import http.client
import json
import os
import shutil
import socket
import subprocess
import threading
import time

import vlib

FP = "2B280B23E1107BB62ABFC40DDCC8824814F80A72"
PATTERN = "snowflake.torproject.net$"
WAIT_S = 10            # ProxyTimeout = ClientTimeout of broker/ipc.go
READ_LIMIT = 100000


def free_port():
    s = socket.socket()
    s.bind(("127.0.0.1", 0))
    p = s.getsockname()[1]
    s.close()
    return p


class Live:
    """one broker process"""

    def __init__(self, exe, workdir):
        self.exe, self.dir = exe, workdir
        self.proc = None
        self.addr = None

    def start(self):
        os.makedirs(self.dir, exist_ok=True)
        open(os.path.join(self.dir, "bridges.json"), "w").write(
            json.dumps({"displayName": "default", "webSocketAddress": "wss://snowflake.torproject.net/", "fingerprint": FP}) + "\n")
        last = ""
        for _attempt in range(4):
            port = free_port()
            self.addr = ("127.0.0.1", port)
            self.errpath = os.path.join(self.dir, "stderr.txt")
            args = [self.exe, "-disable-tls", "-addr", "127.0.0.1:%d" % port, "-metrics-log", os.path.join(self.dir, "metrics.log"),
                    "-bridge-list-path", os.path.join(self.dir, "bridges.json"), "-allowed-relay-pattern", PATTERN, "-default-relay-pattern", PATTERN,
                    # the distinct-IP journal (off by default): every accepted /proxy poll is recorded in it
                    "-ip-count-log", os.path.join(self.dir, "ip-count.log"), "-ip-count-mask", "verif-masking-key", "-ip-count-interval", "2s"]
            g4, g6 = os.path.join(vlib.REPO, "broker", "test_geoip"), os.path.join(vlib.REPO, "broker", "test_geoip6")
            if os.path.exists(g4) and os.path.exists(g6):
                args += ["-geoipdb", g4, "-geoip6db", g6]
            else:
                args += ["-disable-geoip"]
            self.proc = subprocess.Popen(args, cwd=self.dir, stdin=subprocess.DEVNULL, stdout=subprocess.DEVNULL, stderr=open(self.errpath, "w"))
            deadline = time.time() + 30
            while time.time() < deadline:
                if self.proc.poll() is not None:
                    break
                try:
                    st, _, _ = self.req("GET", "/robots.txt", timeout=2)
                    if st == 200:
                        return True
                except Exception:
                    pass
                time.sleep(0.05)
            last = self.stderr_tail()
            self.stop()
        self.start_error = last
        return False

    def stderr_tail(self, n=1500):
        try:
            return open(self.errpath, errors="replace").read()[-n:]
        except Exception:
            return ""

    def alive(self):
        return self.proc is not None and self.proc.poll() is None

    def stop(self):
        if self.proc is not None:
            if self.proc.poll() is None:
                self.proc.terminate()
                try:
                    self.proc.wait(5)
                except subprocess.TimeoutExpired:
                    self.proc.kill()
                    self.proc.wait(5)

    def req(self, method, path, body=None, headers=None, timeout=40, source=None, gate=None):
        """-> (status, body, seconds); raises on a dropped connection / malformed response.
        source: local address to connect from (the broker takes the TCP peer as the proxy's address);
        gate: a threading.Barrier passed after the connection is made and before the request is sent"""
        t0 = time.time()
        c = http.client.HTTPConnection(self.addr[0], self.addr[1], timeout=timeout, source_address=(source, 0) if source else None)
        try:
            if gate is not None:
                try:
                    c.connect()
                except OSError:
                    if not source:
                        raise
                    c = http.client.HTTPConnection(self.addr[0], self.addr[1], timeout=timeout)   # no 127.x.y.z on this host
                    c.connect()
                try:
                    gate.wait(15)
                except threading.BrokenBarrierError:
                    pass
            c.request(method, path, body=body, headers=headers or {})
            r = c.getresponse()
            data = r.read()
            return r.status, data, time.time() - t0
        finally:
            c.close()


BURST = 48


def proxy_poll_body(sid, nat, ptype="standalone"):
    return json.dumps({"Sid": sid, "Version": "1.3", "Type": ptype, "NAT": nat, "Clients": 0, "AcceptedRelayPattern": PATTERN}).encode()


def client_body(offer, nat="unknown"):
    return b"1.0\n" + json.dumps({"offer": offer, "nat": nat, "fingerprint": FP}).encode()


def b64u(b):
    return base64.urlsafe_b64encode(b).rstrip(b"=").decode()


def run_binary(exe, workdir):
    """-> list of (key, what, replay-dict) violations, list of not_shown strings, stats dict"""
    viol, notshown, stats = [], [], {}
    live = Live(exe, workdir)
    if not live.start():
        notshown.append("live: the broker binary did not come up with -disable-tls on a loopback port: " + getattr(live, "start_error", "")[-600:])
        return viol, notshown, stats
    results = {}      # name -> dict(status, body, secs) or dict(error)
    lock = threading.Lock()

    def call(name, method, path, body=None, headers=None):
        try:
            st, data, secs = live.req(method, path, body, headers)
            r = dict(status=st, body=data, secs=secs)
        except Exception as e:
            r = dict(error="%s: %s" % (type(e).__name__, e))
        with lock:
            results[name] = r
        return r

    threads = []

    def spawn(f, *a):
        t = threading.Thread(target=f, args=a, daemon=True)
        t.start()
        threads.append(t)

    def proxy(name, sid, nat):
        r = call(name, "POST", "/proxy", proxy_poll_body(sid, nat))
        if "error" in r or r["status"] != 200:
            return
        try:
            d = json.loads(r["body"])
        except Exception:
            return
        offer = d.get("Offer", "")
        if d.get("Status") == "client match" and "good" in offer:
            call(name + "-answer", "POST", "/answer", json.dumps({"Version": "1.0", "Sid": sid, "Answer": "ANSWER-FOR-" + offer}).encode())

    try:
        # an idle proxy in the restricted pool (no client of this scenario takes from it) and five in the unrestricted pool
        spawn(proxy, "idle-poll", "idle0", "restricted")
        for k in range(5):
            spawn(proxy, "proxy%d" % k, "sid%d" % k, "unrestricted")
        # wait until the six polls are registered (state, not time): /debug counts them
        deadline = time.time() + 20
        registered = False
        while time.time() < deadline and live.alive():
            try:
                st, data, _ = live.req("GET", "/debug", timeout=5)
                if st == 200 and data.startswith(b"current snowflakes available: 6\n"):
                    registered = True
                    break
            except Exception:
                pass
            time.sleep(0.02)
        if not registered:
            notshown.append("live: six proxy polls over TCP were not registered within 20 s (last /debug unavailable or different)")
        # a burst of polls from distinct addresses (127.x.y.z as TCP peers), sent together once all are connected: the broker
        # accounts their countries / distinct addresses at the same time; each waits in the restricted pool and is
        # answered "no match" after the protocol's wait
        gate = threading.Barrier(BURST)

        def burst(k):
            name = "burst%d" % k
            try:
                st, data, secs = live.req("POST", "/proxy", proxy_poll_body("burst%d" % k, "restricted", ["standalone", "webext", "badge"][k % 3]),
                                          source="127.%d.%d.%d" % (1 + k % 100, k % 250, 1 + k % 200), gate=gate)
                r = dict(status=st, body=data, secs=secs)
            except Exception as e:
                r = dict(error="%s: %s" % (type(e).__name__, e))
            with lock:
                results[name] = r
        for k in range(BURST):
            spawn(burst, k)
        # the idle proxy repeats its poll (same body, same session id) while the first one is still pending: both requests
        # must be answered after the protocol's wait
        spawn(proxy, "idle-poll-repeat", "idle0", "restricted")
        # clients: answered at once (good) or after the full wait (silent proxy), in the three request formats
        spawn(call, "client-v-good", "POST", "/client", client_body("offer-good-v"))
        spawn(call, "client-v-silent", "POST", "/client", client_body("offer-silent-v"))
        spawn(call, "client-l-good", "POST", "/client", b'{"type":"offer","sdp":"good-l"}', {"Snowflake-NAT-Type": "unknown"})
        spawn(call, "client-l-silent", "POST", "/client", b'{"type":"offer","sdp":"silent-l"}', {"Snowflake-NAT-Type": "unknown"})
        spawn(call, "client-a-silent", "GET", "/amp/client/0AAAA/" + b64u(client_body("offer-silent-a")))
        # immediate-outcome requests next to them
        big = b"1.0\n" + b"z" * (READ_LIMIT + 1 - 4)
        imm = [("big-client", "POST", "/client", big, 400), ("big-proxy", "POST", "/proxy", big, 400), ("big-answer", "POST", "/answer", big, 400),
               ("fit-client", "POST", "/client", big[:READ_LIMIT], 200),
               ("bad-proxy", "POST", "/proxy", b"notjson", 400), ("bad-answer", "POST", "/answer", b"{}", 400), ("bad-client", "POST", "/client", b"\xff\x00", 200),
               ("bad-amp", "GET", "/amp/client/1x", None, 200), ("debug", "GET", "/debug", None, 200), ("metrics", "GET", "/metrics", None, 200),
               ("prometheus", "GET", "/prometheus", None, 200), ("robots", "GET", "/robots.txt", None, 200), ("nosuch", "GET", "/nosuch", None, 404),
               ("options", "OPTIONS", "/proxy", None, 200), ("gone-answer", "POST", "/answer", json.dumps({"Version": "1.0", "Sid": "nosuch", "Answer": "a"}).encode(), 200)]
        for name, m, p, b, _want in imm:
            spawn(call, name, m, p, b)
        t_end = time.time() + 3 * WAIT_S + 15
        for t in threads:
            t.join(max(0.1, t_end - time.time()))
        hung = [t for t in threads if t.is_alive()]
        died = not live.alive()
        tail = live.stderr_tail()

        def rep(name):
            r = results.get(name, {})
            return dict(label="live-binary", request=name, outcome={k: (v[:300].decode("latin1") if isinstance(v, bytes) else v) for k, v in r.items()}, stderr=tail[-1200:])

        if died:
            full = live.stderr_tail(200000)
            fatal = [l for l in full.split("\n") if l.startswith("fatal error:") or l.startswith("panic:")]
            viol.append(("broker-process-died", "the broker process exited (rc=%s) while serving requests: %s" % (
                live.proc.returncode, (fatal[0] + " ... " if fatal else "") + tail[-400:]), rep("-")))
        # the slow ones: answered after the full wait
        slow = {"idle-poll": ("200 no match", lambda r: r["status"] == 200 and json.loads(r["body"]).get("Status") == "no match"),
                "idle-poll-repeat": ("200 no match", lambda r: r["status"] == 200 and json.loads(r["body"]).get("Status") == "no match"),
                "client-v-silent": ("200 timed out", lambda r: r["status"] == 200 and json.loads(r["body"]).get("error") == "timed out waiting for answer!"),
                "client-l-silent": ("504", lambda r: r["status"] == 504),
                "client-a-silent": ("200 armored", lambda r: r["status"] == 200 and len(r["body"]) > 0)}
        for name, (want, ok) in slow.items():
            r = results.get(name)
            if r is None:
                viol.append(("server-drops-slow-response", "%s: no response at all %d s after the request (wanted %s)" % (name, 3 * WAIT_S + 15, want), rep(name)))
            elif "error" in r:
                viol.append(("server-drops-slow-response", "%s: connection ended without a response (%s); a request answered after the protocol's %d s wait must "
                             "still get its response (%s)" % (name, r["error"][:120], WAIT_S, want), rep(name)))
            else:
                good = False
                try:
                    good = ok(r)
                except Exception:
                    pass
                if not good:
                    viol.append(("live-response-mismatch", "%s: answered %d %r, wanted %s" % (name, r["status"], r["body"][:80], want), rep(name)))
                stats[name + "_s"] = round(r["secs"], 1)
        nb = 0
        for k in range(BURST):
            r = results.get("burst%d" % k)
            if r is not None and "error" not in r and r["status"] == 200 and b"no match" in r["body"]:
                nb += 1
            elif not died and not any(v[0] == "burst-poll-unanswered" for v in viol):
                viol.append(("burst-poll-unanswered", "burst%d (one of %d polls sent together from distinct addresses): %s; wanted 200 no match" % (
                    k, BURST, "no response" if r is None else r.get("error") or "%d %r" % (r["status"], r["body"][:80])), rep("burst%d" % k)))
        stats["live_burst_polls_answered"] = nb
        quick = {"client-v-good": lambda r: r["status"] == 200 and json.loads(r["body"]).get("answer", "").startswith("ANSWER-FOR-") and "good-v" in json.loads(r["body"])["answer"],
                 "client-l-good": lambda r: r["status"] == 200 and r["body"].startswith(b"ANSWER-FOR-") and b"good-l" in r["body"]}
        for name, ok in quick.items():
            r = results.get(name)
            if r is None or "error" in r:
                viol.append(("no-wellformed-response", "%s over TCP to the broker binary: %s" % (name, (r or {}).get("error", "no response")), rep(name)))
                continue
            good = False
            try:
                good = ok(r)
            except Exception:
                pass
            if not good:
                viol.append(("live-response-mismatch", "%s: answered %d %r, wanted the posted answer" % (name, r["status"], r["body"][:80]), rep(name)))
        for name, m, p, b, want in imm:
            r = results.get(name)
            if r is None or "error" in r:
                viol.append(("no-wellformed-response", "%s %s over TCP to the broker binary: %s" % (m, p, (r or {}).get("error", "no response")), rep(name)))
            elif r["status"] != want:
                key = "oversize-body-accepted" if name.startswith("big-") else "live-response-mismatch"
                viol.append((key, "%s %s (%s) answered %d, wanted %d" % (m, p, name, r["status"], want), rep(name)))
        # the matched proxies got their offers and the answer was accepted
        n_match = sum(1 for k in range(5) if results.get("proxy%d" % k, {}).get("status") == 200 and b"client match" in results["proxy%d" % k]["body"])
        if n_match != 5 and not died:
            viol.append(("live-response-mismatch", "%d of 5 waiting proxies were handed a client (5 clients polled)" % n_match, rep("proxy0")))
        stats["live_requests"] = len(results)
        stats["live_hung_threads"] = len(hung)
        # liveness at the end
        if not died:
            try:
                st, _, _ = live.req("GET", "/robots.txt", timeout=10)
                if st != 200:
                    viol.append(("server-dead", "broker binary answers /robots.txt with %d after the scenario" % st, rep("robots")))
            except Exception as e:
                viol.append(("server-dead", "broker binary stopped answering after the scenario: %r" % (e,), rep("robots")))
    finally:
        live.stop()
        shutil.rmtree(workdir, ignore_errors=True)
    return viol, notshown, stats


def run_soak(test_exe, workdir, ms, race_label="", attempt=0):
    """-> (violations, not_shown, stats)"""
    os.makedirs(workdir, exist_ok=True)
    env = dict(os.environ, VERIF_DRIVER="brokersoak", VERIF_SOAK_MS=str(ms), VERIF_SOAK_DIR=workdir)
    rc, out, err = vlib.sh([test_exe, "-test.run", "^TestVerifHttpSoak$", "-test.timeout", "400s"], env=env, timeout=450, cwd=workdir)
    shutil.rmtree(workdir, ignore_errors=True)
    viol, notshown, stats = [], [], {}
    line = [l for l in out.split("\n") if l.startswith("soak ")]
    if rc != 0 or not line:
        fatal = [l for l in err.split("\n") if l.startswith("fatal error:") or l.startswith("panic:")]
        at = err.find(fatal[0]) if fatal else -1
        tail = err[at:at + 3000] if at >= 0 else err[-3000:]     # the error and the goroutine that ran into it
        what = fatal[0] if fatal else "rc=%s" % rc
        viol.append(("broker-process-died", "the broker process died under concurrent requests to every route%s: %s" % (race_label, what),
                     dict(label="soak", rc=rc, stderr=tail, stdout=out[-500:])))
        return viol, notshown, stats
    d = dict(t.split("=", 1) for t in line[0].split(" ")[1:] if "=" in t and not t.startswith("first="))
    first = line[0].split(" first=", 1)[1] if " first=" in line[0] else ""
    stats.update({"soak_" + k: int(v) for k, v in d.items() if v.isdigit()})
    if stats.get("soak_ipjournal", 0) <= 0 or stats.get("soak_bursts", 0) <= 0:
        notshown.append("soak: the distinct-IP journal stayed empty (size %s) or no burst poll ran (%s): the journal configuration was not exercised" % (
            d.get("ipjournal"), d.get("bursts")))
    if d.get("ok") != "1":
        viol.append(("no-wellformed-response", "soak: %s requests did not get the expected well-formed response; first: %s" % (d.get("bad"), first[:300]),
                     dict(label="soak", summary=line[0][:600])))
    elif int(d.get("matches", "0")) < 20 or int(d.get("debug", "0")) < 20:
        # the machine was too busy for the soak to produce load: that says nothing about the code. Once more, four times
        # as long; if it still achieves nothing the soak is recorded as inconclusive (no verdict either way).
        if attempt == 0:
            v2, n2, s2 = run_soak(test_exe, workdir, 4 * ms, race_label, attempt=1)
            s2["soak_repeated_machine_busy"] = 1
            return v2, n2, s2
        stats["soak_inconclusive_machine_busy"] = 1
    return viol, notshown, stats
