"""C01 — the end-to-end byte stream is exact and ordered across proxy churn.

Whole-system black-box rig (harness/overlay/zz_verif/e2e/main.go): the real client library, the
real proxy library (one process per proxy), the real server library, the repo's broker binary,
kcp-go / smux / pion / gorilla as they are, and between proxy and server a TCP relay that injects
the carrier faults. This module generates the fault schedules, runs them and evaluates the
PROPERTY on what the two application ends wrote and read. The rig compares no extracted model:
the Coq side (Properties/C01.v) is the composition of the C09/C05/C17 theorems with kcp-go/smux as
a stated hypothesis, and the rig is that composition's tie to the code. One layer IS compared with
its extracted model first: the proxy's relay step copyLoop (checks/c01_copyloop.py, Model/CopyLoop.v)."""
import os
import shutil
import signal
import subprocess
import time

import vlib
from checks import c01_copyloop

KIB = 1024
STALL_MS = 120000     # no progress and no disturbance for this long, with a proxy alive = stalled
HARD_MS = 900000

KEYS = ("bytes-missing", "bytes-duplicated-or-reordered", "foreign-bytes", "error-surfaced-before-close",
        "more-than-one-accepted-connection", "stalled-although-proxy-available", "component-crash", "dial-failed")


def parse(res):
    d = {}
    for tok in res.split(" "):
        if "=" in tok:
            k, v = tok.split("=", 1)
            d[k] = v
    return d


def evaluate(line, res):
    """The property on one scenario's result. Returns (key, text) of the first failure, or None."""
    if res.startswith("!died") or res.startswith("!panic"):
        return ("component-crash", "the scenario process died: a component panicked or deadlocked the runtime: " + res[:600])
    if res.startswith("!"):
        return None    # machinery (handled by the caller)
    d = parse(res)
    st = d.get("status", "?")
    if st == "dialerror":
        return ("dial-failed", "Transport.Dial returned an error although it does not touch the network: " + d.get("err", ""))
    dirs = [("up", "server end (bridge)"), ("down", "client end (SOCKS side)")]
    if "up2.size" in d:
        dirs += [("up2", "server end (bridge) of the client's second connection"), ("down2", "client end of the client's second connection")]
    for name, who in dirs:
        size, w, r, mis = int(d[name + ".size"]), int(d[name + ".w"]), int(d[name + ".r"]), int(d[name + ".mis"])
        extra = int(d[name + ".extra"])
        if mis >= 0 or extra > 0:
            cls = d[name + ".cls"]
            at = d[name + ".at"]
            if cls == "missing":
                return ("bytes-missing", "%s stream: the %s read the right bytes up to offset %d, then the bytes written at offset %s: "
                        "%s bytes are missing (read %d of %d written)" % (name, who, mis, at, (int(at) - mis) if at != "-" else "?", r, w))
            if cls == "dup":
                return ("bytes-duplicated-or-reordered", "%s stream: at offset %d the %s read bytes that were written at offset %s "
                        "(delivered again or out of order; read %d, written %d)" % (name, mis, who, at, r + extra, w))
            return ("foreign-bytes", "%s stream: at offset %d the %s read bytes that occur nowhere in what was written "
                    "(read %d, written %d)" % (name, mis, who, r + extra, w))
        if r > w:
            return ("foreign-bytes", "%s stream: %d bytes read but only %d written" % (name, r, w))
        if st == "done" and d[name + ".wsha"] != d[name + ".rsha"]:
            return ("foreign-bytes", "%s stream: SHA-256 of the bytes read differs from that of the bytes written" % name)
    for name, _ in dirs:
        for op, what in ((".werr", "Write"), (".rerr", "Read")):
            e = d[name + op]
            if e != "-":
                end = {("up", ".werr"): "client", ("up", ".rerr"): "server", ("down", ".werr"): "server", ("down", ".rerr"): "client"}[(name[:-1] if name.endswith("2") else name, op)]
                return ("error-surfaced-before-close", "%s on the %s end of the %s stream returned `%s` before anyone closed "
                        "(%s of %s bytes transferred)" % (what, end, name, e, d[name + ".r"], d[name + ".size"]))
    if int(d["accepted"]) > int(d.get("dials", 1)):
        return ("more-than-one-accepted-connection", "the server accepted %s connections for %s dialled client session(s) (%s bytes arrived on the "
                "extra ones): a redial was taken for a new client" % (d["accepted"], d.get("dials", 1), d["extrasrv"]))
    if st == "truncated":
        return ("bytes-missing", "down stream: the bridge side wrote %s bytes and closed; the client end read %s of them and then EOF: "
                "the rest is missing (carriers=%s faults=%s)" % (d["down.w"], d["down.r"], d["carriers"], d["fired"]))
    if st in ("stalled", "hardlimit"):
        if int(d["live"]) >= 1 and int(d["quiet"]) >= STALL_MS // 2:
            return ("stalled-although-proxy-available", "no byte moved for %s ms although %s proxy process(es) were alive and nothing was "
                    "disturbed for %s ms (broker shows %s registered); up %s/%s down %s/%s; carriers=%s faults=%s" % (
                        d["idle"], d["live"], d["quiet"], d["polling"], d["up.r"], d["up.size"], d["down.r"], d["down.size"],
                        d["carriers"], d["fired"]))
        return None   # stalled with no proxy: allowed
    if st not in ("done",):
        return ("foreign-bytes", "unexpected scenario status " + st)
    return None


# ------------------------------------------------------------------ scenario generation

def line_of(sid, seed, up, down, faults, mx=2, proxies=2, stall=STALL_MS, hard=HARD_MS, second=None, srvclose=False):
    return "e2e run id=%s seed=%d up=%d down=%d max=%d proxies=%d stall=%d hard=%d %s%sfaults=%s" % (
        sid, seed, up, down, mx, proxies, stall, hard, ("second=%d " % second) if second is not None else "",
        "srvclose=1 " if srvclose else "", ";".join(faults) if faults else "-")


# scenario kinds whose clean-tree run waits for the client's 20 s staleness timeout (or longer): they are started first so
# that they run alongside the short ones
SLOW = ("silent-at-open", "silent-replacement", "answer-then-close", "no-carrier-25s")


def off(rng, size):
    """a byte offset on a carrier: boundary biased (inside the WebSocket upgrade's first frames =
    Turbo Tunnel token and ClientID, first KCP packet) or anywhere mid-transfer"""
    x = rng.random()
    if x < 0.25:
        return rng.choice([0, 1, 5, 6, 13, 14, 15, 22, 27, 28, 29, 40, 100])
    if x < 0.35:
        return rng.randrange(0, 2000)
    return rng.randrange(0, max(1, size))


def gen(ctx):
    rng = ctx.rng
    S = []   # (line, kind)
    n = [0]

    def add(kind, up, down, faults, **kw):
        n[0] += 1
        S.append((line_of("%s%d" % (kind.replace("-", ""), n[0]), rng.randrange(1, 1 << 30), up, down, faults, **kw), kind))

    Q = 256 * KIB
    # ---- quick tier: the scenarios named in the brief, offsets drawn from the seed
    add("no-fault", Q, Q, [])
    add("graceful-replacement", Q, Q, ["c0:stop=%d" % rng.randrange(20000, 250000)])
    add("cut-upstream", Q, Q, ["c0:%s=%d" % (rng.choice(["cutu", "rstu"]), off(rng, Q))])
    add("cut-downstream", Q, Q, ["c0:%s=%d" % (rng.choice(["cutd", "rstd"]), off(rng, Q))])
    add("two-cuts", Q, Q, ["c0:cutu=%d" % rng.randrange(1000, 200000), "c1:%s=%d" % (rng.choice(["cutd", "cutu", "rstu"]), off(rng, 60000))])
    add("tiny", 0, 1, [])
    add("tiny", 1, 0, [])
    add("tiny", rng.randrange(0, 3), rng.randrange(0, 3), ["c0:cutu=%d" % rng.choice([0, 6, 14, 28, 40])])
    add("sigkill", Q, Q, ["c0:kill=%d" % rng.randrange(1000, 300000)])
    add("short-freeze", Q, Q, ["c0:freeze=%d,%d" % (rng.randrange(1000, 200000), rng.randrange(1000, 5000))])
    add("answer-lost", 64 * KIB, 64 * KIB, ["b0:lose"])
    add("asymmetric", rng.randrange(1, 100000), rng.randrange(200000, 600000), ["c0:cutd=%d" % off(rng, 150000)])
    # no working carrier at all for ~25 s (every proxy killed, the relay refuses): longer than the 20 s staleness timeout and
    # the smux keep-alive interval, shorter than the server's one-minute retention; then proxies come back and the transfer
    # must resume on the SAME accepted connection with exact bytes
    k = rng.randrange(20000, 400000)
    add("no-carrier-25s", 1024 * KIB, 1024 * KIB, ["c0:blackout=%d,25000" % k, "c0:refuse=%d,25000" % k])
    # a second connection of the same client (second Dial on the same Transport) once the first has been through a redial:
    # two sessions side by side, each exact, the server accepts exactly two connections
    add("second-connection", 512 * KIB, 512 * KIB, ["c0:%s=%d" % (rng.choice(["cutu", "cutd", "stop"]), rng.randrange(1000, 300000))],
        second=rng.choice([1, 100000, 300000]))
    # one short scenario of each remaining fault class also in the quick tier (longer variants below)
    add("sigstop", Q, Q, ["c0:pause=%d,%d" % (rng.randrange(1000, 200000), rng.randrange(1000, 6000))])
    add("sigterm", Q, Q, ["c0:term=%d" % rng.randrange(1000, 250000)])
    add("cut-during-redial", Q, Q, ["c0:cutu=%d" % rng.randrange(1000, 200000), "c1:cutu=%d" % rng.choice([0, 5, 6, 13, 14, 15, 22])])
    add("broker-delay", 64 * KIB, 64 * KIB, ["b0:delay=3000"])
    add("killed-before-datachannel", 64 * KIB, 64 * KIB, ["b0:killall"])
    # ---- silent failure of the carrying proxy BEFORE the first downstream byte (own generator: the scenarios above keep
    # their seeds). blackhole = the proxy's WebSocket to the bridge is accepted and then swallows everything, from carrier
    # byte 0; hang = that and the proxy process frozen for good (SIGSTOP) with another proxy on offer. Nothing is closed, the
    # data channel is open: only the client's staleness watchdog can find out, and it must run from the moment the data
    # channel opens - for the first proxy and for a replacement that has just been put to use.
    import random
    r2 = random.Random(rng.randrange(1 << 30))
    sml = lambda: r2.choice([1, 1000, 64 * KIB, 200 * KIB])
    add("silent-at-open", sml(), sml(), ["c0:blackhole=0"], mx=r2.choice([1, 2]))
    add("silent-at-open", sml(), sml(), ["c0:hang=0"], mx=r2.choice([1, 2]))
    add("silent-replacement", Q, Q, ["c0:%s=%d" % (r2.choice(["cutu", "cutd", "kill", "stop"]), r2.randrange(1000, 150000)),
                                     "c1:%s=0" % r2.choice(["blackhole", "hang"])])
    # ---- answer-then-close: the application behind the bridge reads a request, writes its answer (up to the 256 KiB a
    # smux stream takes without waiting) and closes its end at once - while the carrier silently swallows everything / its
    # proxy has just been killed. The client must still read every byte (KCP retransmits through the next proxy).
    add("answer-then-close", r2.randrange(1, 3000), r2.randrange(1, 256 * KIB), ["a:blackhole"], srvclose=True)
    add("answer-then-close", r2.randrange(1, 3000), r2.choice([1, 1400, 100 * KIB, 256 * KIB]), ["a:hang"], srvclose=True)
    add("answer-then-close-no-fault", r2.randrange(1, 3000), r2.randrange(1, 256 * KIB), ["a:none"], srvclose=True)
    # ---- bulk download: several MiB downstream at full speed (the bridge side writes without waiting for anything, KCP and
    # smux windows stay full), a light upstream beside it, and one proxy replacement in the middle, after which the server
    # flushes the retained backlog to the new carrier at once. The class: more than one downstream packet waiting between the
    # client's carrier reader and its KCP loop. (The rig only makes that likely, not certain: per packet the carrier reader
    # costs more than the KCP loop - see seeded-selftest/C01.md; the queue itself is tied deterministically in C17.)
    M4 = 4 * 1024 * KIB
    add("bulk-download", r2.choice([64, 256]) * KIB, M4, ["c0:stop=%d" % r2.randrange(M4 // 4, M4 // 2)])
    add("bulk-download", 256 * KIB, M4 + r2.randrange(0, 2 * 1024 * KIB), ["c0:%s=%d" % (r2.choice(["cutd", "stop"]), r2.randrange(M4 // 4, M4 // 2))])
    if ctx.tier != "thorough":
        S.sort(key=lambda x: 0 if x[1] in SLOW else 1)
        return S
    for o in (0, 1, 14, 28, 100, 999):
        add("silent-at-open", sml(), sml(), ["c0:%s=%d" % (r2.choice(["blackhole", "hang"]), o)], mx=r2.choice([1, 2, 3]))
    for _ in range(3):
        add("silent-replacement", Q, Q, ["c0:%s=%d" % (r2.choice(["cutu", "rstd", "kill", "term", "stop"]), r2.randrange(0, 200000)),
                                         "c1:%s=%d" % (r2.choice(["blackhole", "hang"]), r2.choice([0, 0, 14, 28]))], mx=r2.choice([1, 2]), proxies=r2.choice([2, 3]))
    for f in ("blackhole", "kill", "hang", "term", "cutd", "rstu", "stop", "freeze=0,4000", "none"):
        add("answer-then-close", r2.randrange(1, 100000), r2.choice([0, 1, 1400, 65536, 200 * KIB, 256 * KIB]), ["a:" + f], srvclose=True)
    add("answer-then-close", 2000, 200 * KIB, ["c0:cutu=%d" % r2.randrange(100, 1500), "a:blackhole"], srvclose=True)
    # ---- thorough tier
    M = 1024 * KIB
    add("multi-mib", 4 * M, 4 * M, [])
    add("multi-mib", 3 * M, 5 * M, ["c0:cutu=%d" % rng.randrange(M, 3 * M), "c1:cutd=%d" % rng.randrange(0, M)])
    add("multi-mib", 6 * M, M, ["c0:stop=%d" % rng.randrange(M, 4 * M), "c1:kill=%d" % rng.randrange(0, M)], mx=3, proxies=3)
    add("long-freeze", Q, Q, ["c0:freeze=%d,%d" % (rng.randrange(1000, 200000), rng.randrange(21000, 30000))])
    add("long-freeze", M, M, ["c0:freeze=%d,%d" % (rng.randrange(1000, 800000), 40000)], mx=1)
    add("sigstop", Q, Q, ["c0:pause=%d,%d" % (rng.randrange(1000, 200000), rng.randrange(22000, 30000))])
    add("sigstop", Q, Q, ["c0:pause=%d,%d" % (rng.randrange(1000, 200000), rng.randrange(1000, 8000))])
    add("no-proxy-30s", Q, Q, ["c0:blackout=%d,30000" % rng.randrange(1000, 200000)])
    add("no-proxy-30s", M, Q, ["c0:blackout=%d,%d" % (rng.randrange(0, 100), 30000)], mx=1, proxies=1)
    # no proxy at all for two and a half minutes (beyond the server's one-minute retention and well beyond any keep-alive
    # interval, below the ten-minute keep-alive timeouts): the session must still be alive and resume when proxies return
    add("no-proxy-150s", Q, Q, ["c0:blackout=%d,150000" % rng.randrange(1000, 200000)])
    add("no-proxy-at-start", 64 * KIB, 64 * KIB, ["t:blackout=0,25000"], proxies=1)
    add("cut-during-redial", Q, Q, ["c0:cutu=%d" % rng.randrange(1000, 200000), "c1:cutu=%d" % rng.choice([0, 5, 6, 13, 14, 15, 22]),
                                    "c2:cutu=%d" % rng.choice([0, 14, 27, 28])])
    add("cut-during-redial", Q, Q, ["c0:rstd=%d" % rng.randrange(1000, 200000), "c1:rstd=%d" % rng.choice([0, 1, 2, 10]), "c1:refuse=0,8000"])
    add("replacements", M, M, ["c0:stop=%d" % rng.randrange(1000, 300000), "c1:term=%d" % rng.randrange(0, 200000),
                               "c2:kill=%d" % rng.randrange(0, 200000), "c3:cutu=%d" % rng.randrange(0, 100000)], mx=3, proxies=3)
    add("replacements", M, M, ["c%d:%s=%d" % (i, rng.choice(["stop", "cutu", "cutd", "rstu", "term"]), off(rng, 150000)) for i in range(5)], mx=2, proxies=3)
    add("broker-delay", 64 * KIB, 64 * KIB, ["b0:delay=%d" % rng.choice([3000, 9000, 16000])])
    add("broker-delay", Q, Q, ["c0:cutu=%d" % rng.randrange(0, 200000), "b1:delay=12000", "b2:lose"])
    add("killed-before-datachannel", 64 * KIB, 64 * KIB, ["b0:killall"])
    add("killed-before-datachannel", Q, Q, ["c0:stop=%d" % rng.randrange(0, 200000), "b1:killall"])
    add("cut-all", 6 * M, 6 * M, ["t:cutall=%d" % rng.randrange(200, 4000), "t:cutall=%d" % rng.randrange(10500, 14000)], mx=3, proxies=3)
    add("timed", 4 * M, 4 * M, ["t:%s=%d" % (rng.choice(["kill", "stop", "term"]), rng.randrange(100, 3000)), "t:freeze=%d,3000" % rng.randrange(11000, 13000)])
    add("refuse", Q, Q, ["c0:cutd=%d" % rng.randrange(0, 200000), "c0:refuse=0,15000"])
    add("no-proxy-ever-again", Q, 2 * M, ["c0:extinct=%d" % rng.randrange(1000, 400000)], stall=45000)
    for _ in range(3):
        k = rng.randrange(0, 600000)
        add("no-carrier-25s", rng.choice([Q, M, 2 * M]), rng.choice([Q, M, 2 * M]),
            ["c0:blackout=%d,%d" % (k, rng.randrange(22000, 40000)), "c0:refuse=%d,%d" % (k, rng.randrange(15000, 30000))], mx=rng.choice([1, 2, 3]))
        add("second-connection", M, M, ["c0:%s=%d" % (rng.choice(["cutu", "rstd", "kill", "term"]), rng.randrange(0, 300000)),
                                        "c2:%s=%d" % (rng.choice(["cutu", "cutd", "stop"]), off(rng, 100000))], second=rng.choice([0, 5000, Q, M]), proxies=3)
    add("tiny", 0, 0, ["c0:cutu=14"])
    add("tiny", 1, 1, ["c0:kill=0"])
    kinds = ["cutu", "cutd", "rstu", "rstd", "stop", "kill", "term", "freeze", "pause"]
    for i in range(90):
        up, down = rng.choice([0, 1, 1000, Q, Q, M]), rng.choice([1, 5000, Q, Q, M, 2 * M])
        faults = []
        for c in range(rng.randrange(1, 4)):
            k = rng.choice(kinds)
            o = off(rng, min(max(up, down), 400000) // (c + 1))
            faults.append("c%d:%s=%d" % (c, k, o) + (",%d" % rng.choice([500, 3000, 8000, 23000]) if k in ("freeze", "pause") else ""))
        if rng.random() < 0.2:
            faults.append("b%d:%s" % (rng.randrange(0, 3), rng.choice(["lose", "delay=5000"])))
        add("random", up, down, faults, mx=rng.choice([1, 2, 2, 3]), proxies=rng.choice([1, 2, 2, 3]))
    S.sort(key=lambda x: 0 if x[1] in SLOW else 1)
    return S


# ------------------------------------------------------------------ running

def run_driver(exe, broker, lines, par, timeout):
    tmp = os.path.join(vlib.TMP, "c01-%d-%d" % (os.getpid(), int(time.time() * 1000) % 1000000))
    os.makedirs(tmp, exist_ok=True)
    env = dict(os.environ, VERIF_E2E_BROKER=broker, VERIF_E2E_PAR=str(par), TMPDIR=tmp)
    p = subprocess.Popen([exe], stdin=subprocess.PIPE, stdout=subprocess.PIPE, stderr=subprocess.PIPE, text=True,
                         env=env, start_new_session=True)
    try:
        out, err = p.communicate("\n".join(lines) + "\n", timeout=timeout)
    except subprocess.TimeoutExpired:
        out, err = "", "[timeout]"
    finally:
        # the driver, its scenario processes, their brokers and proxies share one process group
        try:
            os.killpg(p.pid, signal.SIGKILL)
        except (ProcessLookupError, PermissionError):
            pass
        try:
            p.wait(timeout=10)
        except subprocess.TimeoutExpired:
            pass
        if not os.environ.get("VERIF_E2E_KEEP"):
            shutil.rmtree(tmp, ignore_errors=True)
    res = [l for l in out.split("\n") if l]
    if len(res) != len(lines):
        res = (res + ["!machinery driver returned %d of %d lines: %s" % (len(res), len(lines), err[-400:].replace("\n", " | "))] * len(lines))[:len(lines)]
    return res


def build():
    broker = vlib.go_build("./broker", name="brokerbin")
    exe = vlib.go_build("./zz_verif/e2e")
    return exe, broker


def run_all(exe, broker, cases, tier):
    par = int(os.environ.get("VERIF_E2E_PAR", "12" if tier == "quick" else "10"))
    lines = [l for l, _ in cases]
    res = run_driver(exe, broker, lines, par, timeout=3600)
    # a scenario whose set-up failed (port race, machine too slow to start a process) says nothing: once more
    again = [i for i, r in enumerate(res) if r.startswith("!setup") or r.startswith("!machinery")]
    if again:
        vlib.log("C01: re-running %d scenario(s) whose set-up failed: %s" % (len(again), res[again[0]][:200]))
        r2 = run_driver(exe, broker, [lines[i] for i in again], par, timeout=3600)
        for i, r in zip(again, r2):
            res[i] = r
    return res


def summarise(d):
    return dict(id=d.get("id"), status=d.get("status"), up=int(d.get("up.r", 0)) + int(d.get("up2.r", 0)),
                down=int(d.get("down.r", 0)) + int(d.get("down2.r", 0)), dials=int(d.get("dials", 1)),
                carriers=int(d.get("carriers", 0)), relay_conns=int(d.get("conns", 0)), proxies_started=int(d.get("proxies", 0)),
                accepted=int(d.get("accepted", 0)), faults=d.get("fired", "-"), ms=int(d.get("ms", 0)))


def run(ctx):
    c01_copyloop.run_copyloop(ctx)
    ctx.level = "proof"
    exe, broker = build()
    ctx.trusted += ["the rig harness/overlay/zz_verif/e2e/main.go: fault-injecting TCP relay, HTTP front of the broker, stub STUN and NAT "
                    "probe, the two application ends that write/read/compare the streams",
                    "kcp-go, smux, pion/webrtc (ICE/DTLS/SCTP), gorilla/websocket, net/http, the OS loopback: real libraries, exercised, not modelled"]
    ctx.assumptions += ["client = client/lib Transport.Dial, proxy = proxy/lib SnowflakeProxy.Start (one OS process per proxy), server = "
                        "server/lib Transport.Listen/Accept, broker = the repo's ./broker binary; all built from the tree under test",
                        "faults are injected at the proxy-server TCP connection (cut/reset after any byte offset, freeze, refuse), at the proxy "
                        "process (SIGKILL, SIGTERM, SIGSTOP/SIGCONT, SIGSTOP for good, graceful Stop), as a silent black hole (connection "
                        "accepted, every byte of both directions dropped, nothing closed) from any carrier byte offset including 0, and at the "
                        "broker's answer to the client (lost, delayed, proxies killed while it is in flight); the WebRTC leg itself is not cut separately",
                        "answer-then-close scenarios: the bridge-side application closes its end right after writing; the bytes are the "
                        "property, the EOF that follows is reported (down.eof) but not judged",
                        "a stream that stalls while no proxy is alive is allowed; stalled = no byte for %d s with a proxy alive and no fault for %d s" % (
                            STALL_MS // 1000, STALL_MS // 1000)]
    cases = gen(ctx)
    t0 = time.time()
    res = run_all(exe, broker, cases, ctx.tier)
    per, nstall, tot_up, tot_down, tot_car, tot_faults = [], 0, 0, 0, 0, 0
    for (line, kind), r in zip(cases, res):
        ctx.count(line, kind=kind)
        if r.startswith("!setup") or r.startswith("!machinery") or r.startswith("!badcase"):
            ctx.not_shown("machinery: scenario `%s` could not be set up: %s" % (line, r[:500]))
            continue
        v = evaluate(line, r)
        if v:
            ctx.violation(v[0], v[1], dict(label="e2e", case=line, impl=r[:4000]))
        if r.startswith("id="):
            d = parse(r)
            sm = summarise(d)
            sm["kind"] = kind
            per.append(sm)
            tot_up += sm["up"]
            tot_down += sm["down"]
            tot_car += sm["carriers"]
            tot_faults += 0 if sm["faults"] == "-" else len(sm["faults"].split(","))
            if d.get("status") == "stalled" and not v:
                nstall += 1
    ctx.extra["scenarios"] = per
    ctx.extra["totals"] = dict(scenarios=len(per), bytes_up=tot_up, bytes_down=tot_down, carriers=tot_car, faults_injected=tot_faults,
                               stalled_without_proxy=nstall, rig_wall_s=round(time.time() - t0, 1))
    ctx.extra["explanation"] = ("black-box runs of the assembled system under seeded fault schedules; the property is evaluated on the bytes "
                                "written and read at the two application ends (no extracted model is compared by the rig); before that the "
                                "proxy's relay step copyLoop is replayed against its extracted model (Model/CopyLoop.v) on scripted conns")


def replay(ctx, doc):
    bad = c01_copyloop.replay_copyloop(ctx, doc)
    rig = [v for v in doc.get("violations", []) if v.get("replay", {}).get("label") != "copyloop"]
    if not rig:
        return 1 if bad else 0
    exe, broker = build()
    for v in rig[:4]:
        case = v["replay"].get("case")
        if not case:
            continue
        # schedules are not deterministic: the same fault plan is run three times
        res = run_driver(exe, broker, [case] * 3, 3, timeout=3600)
        for r in res:
            e = evaluate(case, r)
            print("case: %s\n result: %s\n property: %s" % (case, r[:1500], ("FAILS [%s] %s" % e) if e else "holds"))
            bad += 1 if e else 0
    return 1 if bad else 0
