"""C08 — local addresses are stripped from SDP, nothing else is lost (common/util IsLocal, StripLocalAddresses)."""
import ipaddress
import vlib

AREA = "sdpstrip"

# ------------------------------------------------------------------ independent oracle: the ranges named by the property
V4_LOCAL = [ipaddress.ip_network(n) for n in ("10.0.0.0/8", "172.16.0.0/12", "192.168.0.0/16", "100.64.0.0/10", "169.254.0.0/16")]
V6_LOCAL = [ipaddress.ip_network("fc00::/7")]
V4_LOOP = ipaddress.ip_network("127.0.0.0/8")


def classify_ip(ip):
    """(local, unspecified, loopback) of an ipaddress object, IPv4-mapped IPv6 treated as the IPv4 address"""
    if ip.version == 6 and ip.ipv4_mapped is not None:
        ip = ip.ipv4_mapped
    if ip.version == 4:
        return (any(ip in n for n in V4_LOCAL), int(ip) == 0, ip in V4_LOOP)
    return (any(ip in n for n in V6_LOCAL), int(ip) == 0, int(ip) == 1)


def classify_bytes(b):
    if len(b) == 4:
        return classify_ip(ipaddress.IPv4Address(b))
    if len(b) == 16:
        return classify_ip(ipaddress.IPv6Address(b))
    return (False, False, False)


def bad_bytes(b):
    return any(classify_bytes(b))


def bad_text(s):
    """True/False for an address literal python understands, None otherwise (then either outcome is accepted
    by the text-level oracle; the parsed-level comparison still applies)"""
    if "%" in s:
        return None
    try:
        ip = ipaddress.ip_address(s)
    except ValueError:
        return None
    return any(classify_ip(ip))


# ------------------------------------------------------------------ address pool

def v4(n):
    return str(ipaddress.IPv4Address(n & 0xffffffff))


def boundary_v4():
    out = []
    for net in ["10.0.0.0/8", "172.16.0.0/12", "192.168.0.0/16", "100.64.0.0/10", "169.254.0.0/16", "127.0.0.0/8", "0.0.0.0/32", "0.0.0.0/8"]:
        n = ipaddress.ip_network(net)
        lo, hi = int(n.network_address), int(n.broadcast_address)
        for x in (lo - 1, lo, lo + 1, (lo + hi) // 2, hi - 1, hi, hi + 1):
            if 0 <= x <= 0xffffffff:
                out.append(v4(x))
    out += ["192.0.2.7", "8.8.8.8", "255.255.255.255", "172.15.255.255", "172.32.0.0", "100.63.255.255", "100.128.0.0", "11.0.0.0",
            "9.255.255.255", "192.167.255.255", "192.169.0.0", "169.253.255.255", "169.255.0.0", "126.255.255.255", "128.0.0.0", "0.0.0.1",
            "172.24.1.1", "100.100.100.100", "1.2.3.4", "203.0.113.200"]
    return sorted(set(out))


V4_POOL = boundary_v4()
V6_POOL = ["::", "::1", "::2", "fbff:ffff:ffff:ffff:ffff:ffff:ffff:ffff", "fc00::", "fc00::1", "fcff::1", "fd00::1", "fd12:3456:789a:1::1",
           "fdff:ffff:ffff:ffff:ffff:ffff:ffff:ffff", "fe00::", "fe80::1", "febf::1", "ff02::1", "2001:db8::1", "2607:f8b0:4005:805::200e",
           "::ffff:0:0", "::fffe:10.0.0.1", "::10.0.0.1", "64:ff9b::10.0.0.1", "2002:a00:1::1", "0:0:0:0:0:0:0:1", "0:0:0:0:0:0:0:0",
           "FD00::ABCD", "::ffff:0:1", "1::", "7fff::1", "fc00:0:0:0:0:0:0:0"]


def spellings(rng, a4):
    """the IPv4 address a4 in dotted, mapped-dotted, mapped-hex and fully spelled mapped form"""
    n = int(ipaddress.IPv4Address(a4))
    return [a4, "::ffff:" + a4, "::ffff:%x:%x" % (n >> 16, n & 0xffff), "0:0:0:0:0:ffff:" + a4, "::FFFF:" + a4]


def rand_addr(rng):
    r = rng.random()
    if r < 0.45:
        a = rng.choice(V4_POOL)
        return rng.choice(spellings(rng, a)) if rng.random() < 0.45 else a
    if r < 0.7:
        return rng.choice(V6_POOL)
    if r < 0.8:
        return v4(rng.getrandbits(32))
    if r < 0.88:
        return str(ipaddress.IPv6Address(rng.getrandbits(128)))
    if r < 0.94:
        return "%08x-%04x-4%03x-a%03x-%012x.local" % (rng.getrandbits(32), rng.getrandbits(16), rng.getrandbits(12), rng.getrandbits(12), rng.getrandbits(48))
    return rng.choice(["010.0.0.1", "10.0.0.01", "10.0.0", "10.0.0.1.2", "256.1.1.1", "fe80::1%eth0", "fc00::1%1", "fd00:::1", "10.0.0.1 ",
                       "localhost", "foo.local", "::ffff:10.0.0", "0x0a.0.0.1", "10。0。0。1", "[fd00::1]", "-", "1e1.0.0.1", "fd00::12345"]).strip() or "-"


# ------------------------------------------------------------------ SDP grammar

OTHER_ATTRS = ["ice-ufrag:aMAZ", "ice-pwd:jcHb08Jjgrazp2dzjdrvPPvV", "fingerprint:sha-256 0A:1B:2C:3D:4E:5F:60:71:82:93:A4:B5:C6:D7:E8:F9:0A:1B:2C:3D:4E:5F:60:71:82:93:A4:B5:C6:D7:E8:F9",
               "setup:actpass", "mid:0", "sctp-port:5000", "sendrecv", "rtpmap:111 opus/48000/2", "end-of-candidates", "ice-options:trickle",
               "max-message-size:262144", "rtcp-mux", "msid:- track", "candidates:none", "candidate-pair:1 2", "remote-candidates:1 10.0.0.1 9",
               "extmap:1 urn:ietf:params:rtp-hdrext:sdes:mid", "x-local:10.0.0.1 192.168.1.1 host"]
MEDIA_LINES = ["m=application 9 UDP/DTLS/SCTP webrtc-datachannel", "m=audio 9 UDP/TLS/RTP/SAVPF 111", "m=video 9 UDP/TLS/RTP/SAVPF 96 97",
               "m=application 54321 DTLS/SCTP 5000"]
CONN_LINES = ["c=IN IP4 0.0.0.0", "c=IN IP6 ::", None, "c=IN IP4 192.168.1.9", "c=IN IP4 203.0.113.5"]
TYPES = ["host", "host", "host", "srflx", "prflx", "relay"]


def candidate(rng, stats):
    typ = rng.choice(TYPES)
    addr = rand_addr(rng)
    proto = rng.choice(["udp", "udp", "udp", "tcp", "UDP", "TCP"])
    f = [str(rng.choice([1, 842163049, rng.getrandbits(31)])), str(rng.choice([1, 1, 2])), proto, str(rng.choice([2122260223, 1, 0, 4294967295, rng.getrandbits(31)])),
         addr, str(rng.choice([9, 0, 65535, rng.randrange(1024, 65536)])), "typ", typ]
    if typ != "host" and rng.random() < 0.85:
        f += ["raddr", rng.choice(["192.168.1.7", "0.0.0.0", "10.1.2.3", "::", "fd00::1"]), "rport", str(rng.randrange(0, 65536))]
    if proto.lower() == "tcp" and rng.random() < 0.8:
        f += ["tcptype", rng.choice(["active", "passive", "so"])]
    if rng.random() < 0.3:
        f += rng.choice([["generation", "0"], ["ufrag", "aMAZ"], ["network-cost", "10"], ["generation", "0", "network-id", "1"]])
    b = bad_text(addr)
    if addr.endswith(".local"):
        cls = "mdns"
    elif b is None:
        cls = "unparsable-addr"
    else:
        fam = "v4" if ":" not in addr else ("mapped" if addr.lower().startswith(("::ffff:", "0:0:0:0:0:ffff:")) else "v6")
        cls = ("bad-" if b else "public-") + fam
    key = "cand:%s:%s" % (typ, cls)
    stats[key] = stats.get(key, 0) + 1
    return "candidate:" + " ".join(f)


MALFORMED_CANDS = [
    "candidate", "candidate:", "candidate:1 1 udp 1 10.0.0.1 9 typ", "candidate:1 1 udp 1 10.0.0.1 typ host", "candidate:1 x udp 1 10.0.0.1 9 typ host",
    "candidate:1 1 udp x 10.0.0.1 9 typ host", "candidate:1 1 udp 1 10.0.0.1 x typ host", "candidate:1 1 udp 1 10.0.0.1 65536 typ host",
    "candidate:1 1 udp 4294967296 10.0.0.1 9 typ host", "candidate:1 65536 udp 1 10.0.0.1 9 typ host", "candidate:1 1 udp 1 10.0.0.1 9 typ HOST",
    "candidate:1 1 udp 1 10.0.0.1 9 typ foo", "candidate:1 1 dccp 1 10.0.0.1 9 typ host", "candidate:1 1 ssltcp 1 192.168.0.1 9 typ host",
    "candidate:1 1 udp 1 010.0.0.1 9 typ host", "candidate:1 1 udp 1 fe80::1%eth0 9 typ host", "candidate:1 1 udp 1 fc00::1%2 9 typ host",
    "candidate:1 1 udp 1 10.0.0.1 9 typ host raddr 1.2.3.4", "candidate:1 1 udp 1 10.0.0.1 9 typ host raddr 1.2.3.4 rport x",
    "candidate:1 1 tcp 1 10.0.0.1 9 typ host tcptype", "candidate: 1 udp 1 10.0.0.1 9 typ host", "candidate: 1 udp 1 1.2.3.4 9 typ host x y",
    "candidate:1  1  udp  1  10.0.0.1  9  typ  host", "candidate:1\t1\tudp\t1\t10.0.0.1\t9\ttyp\thost", "candidate:1 1 udp 1 10.0.0.1 9 xyz host",
    "candidate:1 1 udp 1 10.0.0.1 9 typ host ", "candidate:1 1 udp 1 10.0.0.1 9 typ host generation", "candidate:1 1 udp 1 9 typ host 10.0.0.1 x",
    "candidate:1 1 udp 1 10.0.0.1 9 typ host host host host host host host host host host", "candidate:1 1 udp -1 10.0.0.1 9 typ host",
    "candidate:1 1 udp 1 10.0.0.1 +9 typ host", "candidate:é 1 udp 1 10.0.0.1 9 typ host", "candidate:1 1 udp 1 10.0.0.1:9 9 typ host",
    "candidate:1 1 udp 1 [fd00::1] 9 typ host", "candidate:1 1 udp 1 foo.local 9 typ srflx", "candidate:1 1 udp 1 foo 9 typ host",
    "candidate:1 1 udp 1 10.0.0.1 9 typ relay raddr", "Candidate:1 1 udp 1 10.0.0.1 9 typ host", "candidate :1 1 udp 1 10.0.0.1 9 typ host",
    "candidate:1 1 udp 1 10.0.0.1 9 typ host" + " x" * 300, "candidate:1 1 xudp 1 10.0.0.1 9 typ host", "candidate:1 1 udp4 1 10.0.0.1 9 typ host",
    "candidate:1 1 tcp6 1 fd00::1 9 typ host", "candidate:1 1 udp6 1 10.0.0.1 9 typ host", "candidate:1 1 udp4 1 fd00::1 9 typ host",
]


def gen_sdp(rng, stats, malformed=False):
    nl = "\r\n"
    L = ["v=0", "o=- %d 2 IN IP4 127.0.0.1" % rng.getrandbits(62), "s=-", "t=0 0"]
    nmedia = rng.choice([1, 1, 2, 3, 4]) if rng.random() < 0.97 else 0
    if rng.random() < 0.7:
        L.append("a=group:BUNDLE " + " ".join(str(i) for i in range(max(nmedia, 1))))
    if rng.random() < 0.3:
        L.append("a=msid-semantic: WMS")
    if rng.random() < 0.12:   # a candidate line at session level is not touched by the code
        L.append("a=candidate:7 1 udp 1 10.9.9.9 9 typ host")
    for i in range(nmedia):
        L.append(rng.choice(MEDIA_LINES))
        c = rng.choice(CONN_LINES)
        if c:
            L.append(c)
        attrs = []
        for _ in range(rng.randrange(0, 7)):
            attrs.append(candidate(rng, stats))
        if malformed:
            for _ in range(rng.randrange(1, 4)):
                attrs.append(rng.choice(MALFORMED_CANDS))
                stats["cand:malformed"] = stats.get("cand:malformed", 0) + 1
        for _ in range(rng.randrange(0, 7)):
            attrs.append(rng.choice(OTHER_ATTRS))
        if rng.random() < 0.3 and attrs:     # exact duplicates
            attrs.append(rng.choice(attrs))
        rng.shuffle(attrs)
        L += ["a=" + a for a in attrs]
    return nl.join(L) + nl


def non_sdp(rng, base):
    r = rng.random()
    if r < 0.15:
        return rng.choice([b"", b"v=0", b"v=0\r\n", b"\r\n", b"hello", b'{"type":"offer","sdp":"v=0"}', b"a=candidate:1 1 udp 1 10.0.0.1 9 typ host\r\n",
                           b"\x00", b"\xff\xfe", b"v=0\r\no=- 1 2 IN IP4 127.0.0.1\r\ns=-\r\n", b"v=0\r\no=- 1 2 IN IP4 127.0.0.1\r\ns=-\r\nt=0 0\r\n",
                           b"m=application 9 UDP/DTLS/SCTP webrtc-datachannel\r\n", b"v=1\r\no=- 1 2 IN IP4 127.0.0.1\r\ns=-\r\nt=0 0\r\n"])
    b = bytearray(base)
    if r < 0.4:
        return bytes(b[:rng.randrange(len(b) + 1)])
    if r < 0.75:
        for _ in range(rng.randrange(1, 4)):
            b[rng.randrange(len(b))] = rng.choice(b"\r\n=: amvc0\x00\xff")
        return bytes(b)
    if r < 0.9:
        lines = base.split(b"\r\n")
        i = rng.randrange(len(lines))
        if rng.random() < 0.5:
            del lines[i]
        else:
            lines.insert(i, rng.choice(lines))
        return b"\r\n".join(lines)
    return bytes(rng.getrandbits(8) for _ in range(rng.randrange(0, 40)))


# ------------------------------------------------------------------ property, parsed level (on the implementation's answer)

def parse_structure(tok):
    if tok == "U":
        return None
    if tok == "none":
        return []
    d = []
    for m in tok.split(";"):
        attrs = []
        if m != "-":
            for a in m.split(","):
                if a[0] in "ob":
                    attrs.append((int(a[1:]), a[0], None, None))
                else:
                    i, t, ad = a[1:].split(".")
                    attrs.append((int(i), "c", t, None if ad == "n" else bytes.fromhex(ad)))
        d.append(attrs)
    return d


def must_drop(a):
    return a[1] == "c" and a[2] == "h" and a[3] is not None and bad_bytes(a[3])


def prop(line, impl, model):
    a = line.split(" ")
    op = a[1]
    if impl.startswith("!panic") or impl == "!died":
        return "implementation panicked: " + impl[:200]
    if op == "ipclass":
        b = bytes.fromhex(expand(a[2]))
        want = classify_bytes(b)
        got = dict(x.split("=") for x in impl.split(" "))
        names = [("l", "IsLocal", "private/CGN/link-local/unique-local"), ("u", "IsUnspecified", "unspecified"), ("b", "IsLoopback", "loopback")]
        for (k, fn, what), w in zip(names, want):
            if got.get(k) != ("1" if w else "0"):
                return "%s(%s) = %s but the address is %s%s" % (fn, show_ip(b), got.get(k), "" if w else "not ", what)
        return None
    if op in ("strip", "stripmf"):
        d = parse_structure(a[2])
        if d is None:
            return None if impl == "unchanged" else "input that does not parse as SDP was not returned unchanged"
        if op == "stripmf" and impl == "unchanged":
            # desc.Marshal() failed and the function fell back to the ORIGINAL text
            left = [x for attrs in d for x in attrs if must_drop(x)]
            if left:
                return ("desc.Marshal() failed and the fall-back returned the unstripped description: host candidate with address %s "
                        "survives the stripping step" % show_ip(left[0][3]))
            return None
        if impl.startswith("!output-unparsable"):
            return "output of the stripping step no longer parses as SDP"
        if not impl.startswith("keep="):
            return "unexpected driver answer " + impl[:80]
        keep, rest = impl.split(" ")
        keep = keep[5:]
        got = [] if keep == "none" else [([] if m == "-" else m.split(",")) for m in keep.split(";")]
        if len(got) != len(d):
            return "number of media sections changed: %d -> %d" % (len(d), len(got))
        for mi, (attrs, g) in enumerate(zip(d, got)):
            want = [str(x[0]) for x in attrs if not must_drop(x)]
            if g != want:
                left = [x for x in attrs if must_drop(x) and str(x[0]) in g]
                if left:
                    return "media section %d: host candidate with address %s survives the stripping step" % (mi, show_ip(left[0][3]))
                return "media section %d: attributes other than local host candidates were lost, reordered or altered (kept ids %s, expected %s)" % (
                    mi, ",".join(g) or "-", ",".join(want) or "-")
        if rest != "rest=1":
            return "a part of the description other than media-level attributes was changed"
    return None


def show_ip(b):
    try:
        return str(ipaddress.ip_address(bytes(b))) + (" (16-byte form)" if len(b) == 16 and b[:12] == bytes(10) + b"\xff\xff" else "")
    except ValueError:
        return bytes(b).hex()


def expand(spec):
    return spec[1:]


def key_of(line, impl, model):
    a = line.split(" ")
    if impl.startswith("!panic"):
        return a[1] + "-panic"
    if a[1] == "ipclass":
        return "ip-classification"
    p = prop(line, impl, model) or ""
    if "fall-back returned the unstripped" in p:
        return "marshal-failed-fallback-leaks"
    if "survives" in p:
        return "local-host-candidate-kept"
    if "lost, reordered" in p:
        return "attribute-lost"
    if "other than media-level" in p:
        return "rest-changed"
    return "strip"


# ------------------------------------------------------------------ property, text level (independent of pion's candidate parser)

def norm_lines(b):
    return [l.rstrip("\r") for l in b.decode("utf-8", "replace").split("\n")]


def cand_class(value):
    """'bad' = a well-formed host candidate whose address lies in the ranges of the property; 'keep' = certainly
    not a host candidate with such an address; 'either' = malformed / not understood by python"""
    f = value.split()
    if value.startswith(" "):
        f = [" "] + f
    if len(f) < 8:
        return "keep"
    if f[7] != "host":
        return "keep" if f[7] in ("srflx", "prflx", "relay") else "either"
    b = bad_text(f[4])
    if b is False or f[4].endswith(".local"):
        return "keep"
    strict = (f[1].isdigit() and int(f[1]) < 65536 and f[2].lower() in ("udp", "tcp") and f[3].isdigit() and int(f[3]) < 2 ** 32
              and f[5].isdigit() and int(f[5]) < 65536 and f[6] == "typ" and value.isascii() and "\t" not in value)
    ext = f[8:]
    if ext and ext[0] in ("raddr", "tcptype", "generation", "ufrag", "network-cost"):
        strict = strict and (len(ext) >= 4 and ext[3].isdigit() if ext[0] == "raddr" else len(ext) >= 2)
    return "bad" if (b is True and strict) else "either"


def text_oracle(remarshalled, out):
    """out must be `remarshalled` minus exactly the well-formed local host candidate lines of the media sections"""
    il, ol = norm_lines(remarshalled), norm_lines(out)
    j = 0
    in_media = False
    for l in il:
        if l.startswith("m="):
            in_media = True
        cls = "keep"
        if in_media and l.startswith("a=candidate:"):
            cls = cand_class(l[len("a=candidate:"):])
        present = j < len(ol) and ol[j] == l
        if present:
            j += 1
            if cls == "bad":
                return "local-host-candidate-kept", "line `%s` survives the stripping step" % l[:200]
        elif cls == "keep":
            return "attribute-lost", "line `%s` was lost or altered by the stripping step" % l[:200]
    if j != len(ol):
        return "rest-changed", "output contains a line that is not in the input: `%s`" % ol[j][:200]
    return None


# ------------------------------------------------------------------ whole description at line level; call sites

def parse_lstruct(tok):
    """lstruct token (coq/Run/SdpstripRun.v) -> None (pion rejects the text) or
    dict(exact, marshal_failed, session=[ids], media=[(heads, attrs)]), attrs as in parse_structure;
    marshal_failed = desc.Marshal() of the stripped description returned an error when the driver re-ran the
    library calls of util.StripLocalAddresses (then the function falls back to the original text)"""
    if tok == "U":
        return None
    parts = tok.split(";")
    sess = [] if parts[1] == "-" else [int(x) for x in parts[1].split(",")]
    media = []
    for m in parts[2:]:
        heads, attrs = [], []
        for a in ([] if m == "-" else m.split(",")):
            if a[0] == "h":
                heads.append(int(a[1:]))
            elif a[0] in "ob":
                attrs.append((int(a[1:]), a[0], None, None))
            else:
                i, t, ad = a[1:].split(".")
                attrs.append((int(i), "c", t, None if ad == "n" else bytes.fromhex(ad)))
        media.append((heads, attrs))
    return dict(exact=parts[0][:1] == "1", marshal_failed=parts[0].endswith("F"), session=sess, media=media)


def lstruct_lines(d):
    """the lines in order as (id, kind, must go, attribute or None); ids are by text, so a session-level line may
    share its id with a media-level candidate line: everything below is positional"""
    out = []
    for i in d["session"]:
        out.append((i, "session-level line", False, None))
    for heads, attrs in d["media"]:
        for i in heads:
            out.append((i, "m=/c=/… line of a media section", False, None))
        for a in attrs:
            out.append((a[0], "attribute line", must_drop(a), a))
    return out


def ndrop(d):
    return sum(1 for x in lstruct_lines(d) if x[2])


def lines_diff(d, got):
    """how `got` (list of id strings) differs from the input minus exactly the local host candidate lines"""
    pos = lstruct_lines(d)
    want = [str(x[0]) for x in pos if not x[2]]
    if got == want:
        return None
    # a dropped line's id occurring more often than among the lines to keep = it survived
    for x in pos:
        if x[2] and got.count(str(x[0])) > want.count(str(x[0])):
            return "leak", "host candidate line with address %s survives" % show_ip(x[3][3])
    if "?" in got:
        return "rest", "the output has a line that the input does not have"
    k = 0
    while k < len(got) and k < len(want) and got[k] == want[k]:
        k += 1
    kept = [x for x in pos if not x[2]]
    what = kept[k][1] if k < len(kept) else "line"
    return ("attr" if what == "attribute line" else "rest"), "%s lost, duplicated or out of place (position %d; got %s, expected %s)" % (
        what, k, ",".join(got)[:200] or "-", ",".join(want)[:200] or "-")


def lines_prop(line, impl, model):
    a = line.split(" ")
    if impl.startswith("!panic") or impl == "!died":
        return "implementation panicked: " + impl[:200]
    d = parse_lstruct(a[2])
    if d is None:
        return None if impl == "unchanged" else "input that does not parse as SDP was not returned unchanged"
    if d["marshal_failed"] and impl == "unchanged":
        n = ndrop(d)
        if n:
            return ("desc.Marshal() failed and the fall-back returned the unstripped description: %d local host candidate line(s) survive "
                    "the stripping step" % n)
        return None
    if not impl.startswith("lines="):
        return "unexpected driver answer " + impl[:80]
    got = [] if impl == "lines=-" else impl[6:].split(",")
    bad = lines_diff(d, got)
    if bad:
        return {"leak": "a local host candidate survives the stripping step: ", "attr": "an attribute other than a local host candidate was not preserved: ",
                "rest": "a part of the description other than media-level attributes was changed: "}[bad[0]] + bad[1]
    return None


def lines_key(line, impl, model):
    if impl.startswith("!panic"):
        return "strip-panic"
    p = lines_prop(line, impl, model) or ""
    if "fall-back returned the unstripped" in p:
        return "marshal-failed-fallback-leaks"
    if "survives" in p:
        return "local-host-candidate-kept"
    if "was not preserved" in p:
        return "attribute-lost"
    if "other than media-level" in p:
        return "rest-changed"
    return "strip"


SITE = {"psend": ("proxy-answer", "the answer the proxy sends to the broker (sendAnswer)"),
        "csend": ("client-offer", "the offer the client sends to the broker (Negotiate)"),
        "csendc": ("client-offer", "the offer the client sends to the broker (NewSnowflakeClient, Negotiate)")}


def send_prop(line, impl, model):
    a = line.split(" ")
    op = a[1]
    name, what = SITE[op]
    keep = a[2] == "1"
    tok = a[3] if op == "psend" else a[6]
    if impl.startswith("!panic") or impl == "!died":
        return "%s: the call site panicked: %s" % (what, impl[:200])
    if impl.startswith("!") or impl == "nochannel":
        return None    # the driver could not observe; left to the model comparison
    d = parse_lstruct(tok)
    cfg = "" if op == "psend" else " [broker %s, AMP cache %s, front %s]" % tuple(repr(bytes.fromhex(x[1:]).decode()) for x in a[3:6])
    if keep:
        if impl != "same":
            return "%s was altered although local addresses are explicitly kept%s: %s" % (what, cfg, impl[:120])
        return None
    if d is None:
        return None if impl == "same" else "%s: text that does not parse as SDP was not passed on unchanged" % what
    drop = ndrop(d)
    if impl == "same":
        if drop and d["marshal_failed"]:
            return ("%s: desc.Marshal() failed and the fall-back returned the unstripped description: it contains %d local host candidate "
                    "line(s) although local addresses are not kept%s" % (what, drop, cfg))
        if drop:
            return "%s is the unstripped description: it contains %d local host candidate line(s) although local addresses are not kept%s" % (what, drop, cfg)
        return None if d["exact"] else "%s: driver reports byte-identical text where pion's re-marshalling differs" % what
    if not impl.startswith("lines="):
        return "unexpected driver answer " + impl[:80]
    got = [] if impl == "lines=-" else impl[6:].split(",")
    bad = lines_diff(d, got)
    if bad:
        if bad[0] == "leak":
            return "%s contains a local host candidate although local addresses are not kept%s: %s" % (what, cfg, bad[1])
        return "%s: something other than local host candidates was changed%s: %s" % (what, cfg, bad[1])
    return None


def send_key(line, impl, model):
    name = SITE[line.split(" ")[1]][0]
    if impl.startswith("!panic") or impl == "!died":
        return name + "-panic"
    p = send_prop(line, impl, model) or ""
    if "fall-back returned the unstripped" in p:
        return "marshal-failed-fallback-leaks"
    if "although local addresses are not kept" in p:
        return name + "-leaks-local"
    if "explicitly kept" in p:
        return name + "-altered-when-kept"
    return name + "-altered"


BROKER_URLS = [  # (class, url)
    ("dns", "https://snowflake-broker.torproject.net.global.prod.fastly.net/"), ("dns", "https://broker.example:8443/"), ("dns", "http://broker.example/"),
    ("dns", "http://localhost:8080/"), ("dns", "https://broker.local/"), ("dns", "https://10.in-addr.example/"),
    ("public-ip", "https://192.0.2.10/"), ("public-ip", "https://203.0.113.7:4443/path/"), ("public-ip", "https://[2001:db8::1]/"), ("public-ip", "http://[2001:db8::1]:8443/"),
    ("public-ip", "https://172.32.0.1/"), ("public-ip", "https://100.128.0.1:8443/"), ("public-ip", "http://11.0.0.1/"),
    ("loopback-ip", "http://127.0.0.1:8080/"), ("loopback-ip", "http://127.0.0.1/"), ("loopback-ip", "https://127.0.0.1:8443/"), ("loopback-ip", "https://127.255.255.254/"),
    ("loopback-ip", "http://[::1]:8080/"), ("loopback-ip", "https://[::1]/"),
    ("rfc1918-ip", "http://10.0.0.5/"), ("rfc1918-ip", "http://10.0.0.5:8080/"), ("rfc1918-ip", "https://10.255.255.254/"), ("rfc1918-ip", "https://172.16.0.1/"),
    ("rfc1918-ip", "https://172.31.255.254:443/"), ("rfc1918-ip", "http://192.168.1.1:8080/"), ("rfc1918-ip", "https://192.168.0.10/"),
    ("cgnat-ip", "http://100.64.0.1/"), ("cgnat-ip", "https://100.127.255.254:8443/"), ("linklocal-ip", "http://169.254.10.10/"), ("linklocal-ip", "https://169.254.0.1:8443/"),
    ("ula-ip", "https://[fd00::1]/"), ("ula-ip", "http://[fd12:3456::1]:8080/"), ("ula-ip", "https://[fc00::1]:443/"),
    ("unspecified-ip", "http://0.0.0.0:8080/"), ("unspecified-ip", "http://[::]:8080/"),
    ("mapped-local-ip", "https://[::ffff:10.0.0.1]/"), ("mapped-local-ip", "http://[::ffff:192.168.1.1]:8443/"), ("mapped-local-ip", "http://[::ffff:127.0.0.1]/"),
]
METHODS = [  # (name, AMP cache URL, front domain)
    ("http", "", ""), ("http+front", "", "front.example"), ("http+front-local", "", "127.0.0.1:8080"), ("http+front-local", "", "10.0.0.1"),
    ("amp", "https://cdn.ampproject.org/", ""), ("amp+front", "https://cdn.ampproject.org/", "www.google.com"),
    ("amp-local-cache", "http://127.0.0.1:9000/", ""), ("amp-local-cache", "https://192.168.1.1/", "192.168.1.1"),
]

SDP_HEAD = "v=0\r\no=- 7 2 IN IP4 127.0.0.1\r\ns=-\r\nt=0 0\r\na=group:BUNDLE 0\r\nm=application 9 UDP/DTLS/SCTP webrtc-datachannel\r\nc=IN IP4 0.0.0.0\r\na=ice-ufrag:aMAZ\r\n"
SDP_TAIL = "a=ice-pwd:jcHb08Jjgrazp2dzjdrvPPvV\r\na=setup:active\r\na=mid:0\r\na=sctp-port:5000\r\n"


def class_sdps():
    """descriptions whose candidates are ALL / some / none local (and variants with no candidate at all, only
    non-host candidates, two media sections)"""
    def c(n, addr, typ="host", extra=""):
        return "a=candidate:%d 1 udp 2130706431 %s %d typ %s%s\r\n" % (n, addr, 50000 + n, typ, extra)
    ra = " raddr 0.0.0.0 rport 0"
    out = [("all-local", c(1, "192.168.1.2")), ("all-local", c(1, "10.0.0.1") + c(2, "fd00::2") + c(3, "127.0.0.1") + c(4, "169.254.1.1") + c(5, "100.64.0.9") + c(6, "::1") + c(7, "0.0.0.0")),
           ("all-local", c(1, "::ffff:172.16.3.4") + c(2, "172.31.0.1")),
           ("some-local", c(1, "192.168.1.2") + c(2, "192.0.2.2")), ("some-local", c(1, "203.0.113.9") + c(2, "fd00::2") + c(3, "2001:db8::2")),
           ("some-local", c(1, "10.0.0.1") + c(2, "198.51.100.1", "srflx", ra)),
           ("none-local", c(1, "192.0.2.2")), ("none-local", c(1, "192.0.2.2") + c(2, "2001:db8::2") + c(3, "198.51.100.1", "srflx", ra)),
           ("none-local", c(1, "172.32.0.1") + c(2, "100.128.0.1") + c(3, "fe80::1")),
           ("no-candidate", ""), ("only-non-host", c(1, "10.0.0.1", "srflx", ra) + c(2, "192.168.0.1", "relay", ra)),
           ("mdns-only", c(1, "0f5b4a3c-9d1e-4c2a-8f67-1a2b3c4d5e6f.local"))]
    res = [(k, (SDP_HEAD + body + SDP_TAIL).encode()) for k, body in out]
    two = (SDP_HEAD + c(1, "192.168.1.2") + SDP_TAIL + "m=audio 9 UDP/TLS/RTP/SAVPF 111\r\nc=IN IP4 0.0.0.0\r\n" + c(2, "10.0.0.1") + "a=mid:1\r\n").encode()
    res.append(("all-local-two-sections", two))
    return res


def utf8_ok(b):
    try:
        b.decode("utf-8")
        return True
    except UnicodeDecodeError:
        return False


# ------------------------------------------------------------------ case generation

def ipclass_cases(ctx):
    rng = ctx.rng
    lines, kinds = [], []
    def add(b, k):
        lines.append("%s ipclass x%s" % (AREA, bytes(b).hex())); kinds.append("ipclass:" + k)
    for a in V4_POOL:
        b = ipaddress.IPv4Address(a).packed
        add(b, "v4-boundary")
        add(bytes(10) + b"\xff\xff" + b, "mapped-boundary")
        add(bytes(12) + b, "v4-compatible(not mapped)")
        add(bytes(9) + b"\x01\xff\xff" + b, "almost-mapped")
        add(bytes(10) + b"\xff\xfe" + b, "almost-mapped")
    for a in V6_POOL:
        add(ipaddress.IPv6Address(a).packed, "v6-boundary")
    # every value of the two leading bytes that the code looks at, 4-byte and mapped form
    for b0 in (10, 100, 127, 169, 172, 192):
        for b1 in range(256):
            add(bytes([b0, b1, 0, 1]), "v4-sweep-second-byte")
            add(bytes(10) + b"\xff\xff" + bytes([b0, b1, 255, 254]), "mapped-sweep-second-byte")
    for b0 in range(256):
        add(bytes([b0, 168, 1, 1]), "v4-sweep-first-byte")
        add(bytes([b0]) + bytes(14) + b"\x01", "v6-sweep-first-byte")
        add(bytes(10) + b"\xff\xff" + bytes([b0, 16, 0, 0]), "mapped-sweep-first-byte")
    for n in (0, 1, 2, 3, 5, 8, 12, 15, 17, 20, 32):
        add(bytes(n), "odd-length")
        add(bytes([10] * n), "odd-length")
        add(bytes([0xfc] * n), "odd-length")
    for _ in range(400 if ctx.tier == "quick" else 6000):
        add(bytes(rng.getrandbits(8) for _ in range(rng.choice([4, 16]))), "random")
    return lines, kinds


def run(ctx):
    exe = vlib.go_build("./zz_verif/sdpstrip")
    rng = ctx.rng
    thorough = ctx.tier == "thorough"
    ctx.trusted += ["pion/sdp Unmarshal/Marshal, pion/ice UnmarshalCandidate and net.ParseIP: the driver parses input and output text with them; "
                    "the model starts from the parsed structure (panic freedom of these parsers is observed, not proved)",
                    "python ipaddress module: independent oracle for the address ranges named by the property"]
    ctx.assumptions += ["library contract: desc.Marshal() does not fail on an unmarshalled description with attributes removed (pion/sdp v3.0.5: "
                        "unconditional nil error); when it fails util.StripLocalAddresses returns the ORIGINAL text (C08_marshal_failure_sends_original). "
                        "The driver re-runs the pion calls on every text (as parsed / as stripped / without candidates) and reports failures in "
                        "evidence field marshal_contract; a fall-back that leaks is key marshal-failed-fallback-leaks",
                        "model = coq/Model/IpClass.v, coq/Model/SdpStrip.v (hand written); net.IP.To4/Equal/IsLoopback/IsUnspecified modelled and validated by the ipclass cases",
                        "a 'host candidate' is an a=candidate attribute of a media section that pion/ice parses with type host; "
                        "candidate lines pion/ice rejects are kept verbatim (class BadCand in the model)"]
    il, ik = ipclass_cases(ctx)

    stats = {}
    texts = []
    for _ in range(700 if not thorough else 9000):
        texts.append(("grammar", gen_sdp(rng, stats).encode()))
    for _ in range(250 if not thorough else 3000):
        texts.append(("grammar+malformed-candidates", gen_sdp(rng, stats, malformed=True).encode()))
    for _ in range(60 if not thorough else 600):
        texts.append(("grammar-lf-only", gen_sdp(rng, stats).replace("\r\n", "\n").encode()))
    # every malformed candidate line once on its own, between two good ones
    for mc in MALFORMED_CANDS:
        texts.append(("single-malformed-candidate", ("v=0\r\no=- 1 2 IN IP4 127.0.0.1\r\ns=-\r\nt=0 0\r\nm=application 9 UDP/DTLS/SCTP webrtc-datachannel\r\nc=IN IP4 0.0.0.0\r\n"
                                                      "a=candidate:1 1 udp 1 192.168.1.2 9 typ host\r\na=%s\r\na=candidate:2 1 udp 1 192.0.2.1 9 typ host\r\na=mid:0\r\n" % mc).encode()))
    # every pool address, every spelling, as host and as srflx
    for a in V4_POOL:
        for s in spellings(rng, a):
            texts.append(("pool-address", ("v=0\r\no=- 1 2 IN IP4 127.0.0.1\r\ns=-\r\nt=0 0\r\nm=application 9 UDP/DTLS/SCTP webrtc-datachannel\r\nc=IN IP4 0.0.0.0\r\n"
                                           "a=ice-ufrag:x\r\na=candidate:1 1 udp 1 %s 9 typ host\r\na=candidate:2 1 udp 1 %s 9 typ srflx raddr 0.0.0.0 rport 0\r\na=mid:0\r\n" % (s, s)).encode()))
    for a in V6_POOL:
        texts.append(("pool-address", ("v=0\r\no=- 1 2 IN IP4 127.0.0.1\r\ns=-\r\nt=0 0\r\nm=application 9 UDP/DTLS/SCTP webrtc-datachannel\r\nc=IN IP6 ::\r\n"
                                       "a=candidate:1 1 udp 1 %s 9 typ host\r\na=ice-ufrag:x\r\na=candidate:2 1 tcp 1 %s 9 typ host tcptype passive\r\n" % (a, a)).encode()))
    base = gen_sdp(rng, stats).encode()
    for _ in range(300 if not thorough else 4000):
        if rng.random() < 0.1:
            base = gen_sdp(rng, stats, malformed=rng.random() < 0.3).encode()
        texts.append(("non-sdp/mutated", non_sdp(rng, base)))
    ctx.extra["generated_candidates"] = dict(sorted(stats.items()))

    # phase 1: pion's view of every text (library boundary), raw output and pion's re-marshalling of the input
    pl = ["%s parse x%s" % (AREA, t.hex()) for _, t in texts]
    rc, res, err = vlib.run_impl(exe, pl)
    if rc != 0 or len(res) != len(pl):
        ctx.violation("driver-crash", "StripLocalAddresses killed the driver at input %r: %s" % (texts[len(res)][1][:300] if len(res) < len(texts) else None, err[-400:]),
                      dict(label="parse", case=pl[len(res)] if len(res) < len(pl) else None))
        return
    lines, kinds = [], []
    nparsed = 0
    mstat = dict(cases=0, marshal_failed=0, fallback_taken=0)
    ctx.extra["marshal_contract"] = mstat
    for (k, t), r in zip(texts, res):
        if r.startswith("!panic"):
            ctx.violation("strip-panic", "StripLocalAddresses panicked on %r: %s" % (t[:300], r[:200]), dict(label="parse", case="%s parse x%s" % (AREA, t.hex())))
            continue
        st, out, rem, stable, mf = r.split(" ")
        out, rem, mf = bytes.fromhex(out[1:]), bytes.fromhex(rem[1:]), int(mf)
        # library contract "Marshal does not fail on an unmarshalled description", observed on every case
        mstat["cases"] += 1
        if mf:
            mstat["marshal_failed"] += 1
        fellback = bool(st != "U" and (mf & 2) and out == t)
        if fellback:
            mstat["fallback_taken"] += 1
        line = "%s %s %s x%s" % (AREA, "stripmf" if mf & 2 else "strip", st, t.hex())
        if st == "U":
            if out != t:
                ctx.violation("unparsable-changed", "input that does not parse as SDP was not returned unchanged: %r" % t[:200], dict(label="text", case=line))
        else:
            nparsed += 1
            # the fall-back returns the text as it was: judge that text itself
            bad = text_oracle(t if (fellback or mf & 1) else rem, out)
            if bad:
                key, msg = bad
                if fellback and key == "local-host-candidate-kept":
                    key, msg = "marshal-failed-fallback-leaks", "desc.Marshal() failed and the fall-back returned the unstripped description: " + msg
                ctx.violation(key, "text level: " + msg, dict(label="text", case=line, input=t.decode("utf-8", "replace")[:4000],
                                                              output=out.decode("utf-8", "replace")[:4000]))
        if st != "U" and stable != "1":
            # pion's Marshal/Unmarshal do not round-trip on this text (e.g. a bare CR inside a value): only the
            # text-level comparison against pion's own re-marshalling and the no-panic observation apply
            ctx.count(line, kind="strip:" + k + ":pion-unstable(text-level only)")
            continue
        lines.append(line)
        kinds.append("strip:" + k + (":unparsable" if st == "U" else "") + (":marshal-failed" if mf & 2 else ""))
    ctx.extra["texts_parsed_by_pion"] = nparsed
    ctx.extra["texts_rejected_by_pion"] = len(texts) - nparsed
    ll, lk, usable = lines_cases(ctx, exe, texts)
    # one model run / driver run / in-Coq cross-check for the three ops of the black-box driver
    bl = il + lines + ll
    model, _ = ctx.correspond(exe, bl, ik + kinds + lk, label="ipclass+strip+lines", prop=bb_prop, key_of=bb_key, crosscheck=0)
    pools = [(bl, model)]
    sites_part(ctx, usable, pools)
    crosscheck_once(ctx, pools, 80)


C08_ARGS = ["-test.run", "^TestVerifC08Driver$", "-verif.c08"]


IGNORED_LAST = ("strip", "stripmf", "lines", "psend", "csend", "csendc", "peer", "peerg")


def crosscheck_once(ctx, pools, n):
    """one in-Coq (vm_compute) cross-check of the extracted runner over a sample of all case lines of the run; for
    ops whose last argument is only read by the Go driver (the text itself) it is replaced by x00 so that long
    cases qualify too - the model output cannot depend on it (see `run` in coq/Run/SdpstripRun.v)"""
    pairs = []
    for lines, model in pools:
        for l, m in zip(lines, model):
            a = l.split(" ")
            if a[1] in IGNORED_LAST:
                l = " ".join(a[:-1] + ["x00"])
            if len(l) < 400 and len(m) < 2000 and not m.startswith("!"):
                pairs.append((l, m))
    ctx.rng.shuffle(pairs)
    byop = {}
    for l, m in pairs:
        byop.setdefault(l.split(" ")[1], []).append((l, m))
    sample = []
    while len(sample) < n and any(byop.values()):
        for op in sorted(byop):
            if byop[op] and len(sample) < n:
                sample.append(byop[op].pop())
    if sample:
        bad = vlib.coq_crosscheck(sample)
        ctx.extra["vm_compute_crosschecked"] = ctx.extra.get("vm_compute_crosschecked", 0) + len(sample)
        for i in bad:
            ctx.not_shown("extraction cross-check: vm_compute and extracted runner differ on `%s`" % sample[i][0][:300])


def bb_prop(line, impl, model):
    return (lines_prop if line.split(" ")[1] == "lines" else prop)(line, impl, model)


def bb_key(line, impl, model):
    return (lines_key if line.split(" ")[1] == "lines" else key_of)(line, impl, model)


def lines_cases(ctx, exe, texts):
    """cases of the whole description at line level (op `lines`); also returns the texts usable at the call sites"""
    ctx.assumptions += ["line level: model = coq/Model/SdpStripLines.v; a line id stands for the exact text of a line of pion's re-marshalling of the input; "
                        "the driver prints the ids of ALL lines of the real output",
                        "call sites: proxy sendAnswer is driven with a peer connection whose LocalDescription() is the case's text (field set by reflection) "
                        "and with peer connections made by pion (host address rewritten with SetNAT1To1IPs); client Negotiate is driven on a channel built by "
                        "newBrokerChannelFromConfig whose rendezvous object is the real one with a recording http.RoundTripper underneath"]
    classes = class_sdps()
    texts = list(texts) + [("class:" + k, t) for k, t in classes]
    pl = ["%s lparse x%s" % (AREA, t.hex()) for _, t in texts]
    rc, res, err = vlib.run_impl(exe, pl)
    if rc != 0 or len(res) != len(pl):
        ctx.violation("driver-crash", "lparse phase died at input %r: %s" % (texts[len(res)][1][:300] if len(res) < len(texts) else None, err[-400:]),
                      dict(label="lparse", case=pl[len(res)] if len(res) < len(pl) else None))
        return [], [], []
    lines, kinds, usable = [], [], []
    for (k, t), r in zip(texts, res):
        if r.startswith("!"):
            ctx.violation("strip-panic", "pion panicked on %r: %s" % (t[:300], r[:200]), dict(label="lparse", case="%s lparse x%s" % (AREA, t.hex())))
            continue
        tok, stable, mf = r.split(" ")
        ms = ctx.extra.setdefault("marshal_contract_lines", dict(cases=0, marshal_failed=0))
        ms["cases"] += 1
        ms["marshal_failed"] += 1 if int(mf) else 0
        if tok != "U" and stable != "1":
            continue    # pion does not read its own output back to the same lines: covered at text level above
        lines.append("%s lines %s x%s" % (AREA, tok, t.hex()))
        kinds.append("lines:" + k + (":unparsable" if tok == "U" else ""))
        if utf8_ok(t):
            usable.append((k, tok, t))
    return lines, kinds, usable


def sites_part(ctx, usable, pools):
    """the two call sites (ops `psend`, `psendreal`, `csend`)"""
    rng = ctx.rng
    thorough = ctx.tier == "thorough"
    # ---- call sites.  Texts that are not UTF-8 are changed by encoding/json on the way (C13 note) and are left out.
    cls = [(k, tok, t) for k, tok, t in usable if k.startswith("class:")]
    rest = [(k, tok, t) for k, tok, t in usable if not k.startswith("class:")]
    rng.shuffle(rest)
    rest = rest[:(260 if not thorough else 4000)]
    pexe = vlib.go_test_build("./proxy/lib", name="proxy_lib_c08c13.test")
    pl2, pk = [], []
    for k, tok, t in cls + rest:
        for keep in "01":
            pl2.append("%s psend %s %s x%s" % (AREA, keep, tok, t.hex()))
            pk.append("psend:keep=%s:%s" % (keep, k if k.startswith("class:") else ("unparsable" if tok == "U" else "generated")))
    from checks import c13
    model, _ = c13.correspond_robust(ctx, pexe, pl2, pk, C08_ARGS, "proxy-sendAnswer", send_prop, send_key)
    pools.append((pl2, model))
    real_pc_part(ctx, pexe)

    cexe = vlib.go_test_build("./client/lib", name="client_lib_c08c13.test")
    cl, ck = [], []

    def amp_ok(url):
        # going through an AMP cache rules out publisher URLs with an explicit port or an IPv6 literal host (C11's subject)
        from urllib.parse import urlsplit
        u = urlsplit(url)
        return u.port is None and ":" not in (u.hostname or "")

    def add(keep, uk, url, mk, cache, front, k, tok, t, op="csend"):
        if cache and not amp_ok(url):
            return
        cl.append("%s %s %s x%s x%s x%s %s x%s" % (AREA, op, keep, url.encode().hex(), cache.encode().hex(), front.encode().hex(), tok, t.hex()))
        ck.append("%s:keep=%s:url=%s:%s:%s" % (op, keep, uk, mk, k if k.startswith("class:") else ("unparsable" if tok == "U" else "generated")))
    # every kind of broker URL x every rendezvous method x keep x {all, some, none} local
    pick = {}
    for k, tok, t in cls:
        pick.setdefault(k, (k, tok, t))
    trio = [pick[k] for k in ("class:all-local", "class:some-local", "class:none-local") if k in pick]
    for uk, url in BROKER_URLS:
        for mk, cache, front in METHODS:
            for keep in "01":
                for k, tok, t in trio:
                    add(keep, uk, url, mk, cache, front, k, tok, t)
    # the same through the exported constructor NewSnowflakeClient (op csendc)
    for uk, url in BROKER_URLS:
        for mk, cache, front in (METHODS[0], METHODS[4]):
            for keep in "01":
                for k, tok, t in trio:
                    add(keep, uk, url, mk, cache, front, k, tok, t, op="csendc")
    for k, tok, t in cls + rest:
        for keep in "01":
            uk, url = rng.choice(BROKER_URLS)
            mk, cache, front = rng.choice(METHODS if amp_ok(url) else METHODS[:4])
            add(keep, uk, url, mk, cache, front, k, tok, t)
    model, _ = c13.correspond_robust(ctx, cexe, cl, ck, C08_ARGS, "client-Negotiate", send_prop, send_key)
    pools.append((cl, model))


def real_pc_part(ctx, pexe):
    """sendAnswer on peer connections made by pion: the machine's own candidates, and the host address rewritten
    to a local one (then every IPv4 host candidate is local)"""
    cases = [(keep, addr) for addr in ("-", "10.0.0.7", "192.168.3.4", "100.64.1.1", "198.51.100.7") for keep in "01"]
    pl = ["%s psendreal %s %s" % (AREA, keep, addr) for keep, addr in cases]
    rc, res, err = vlib.run_impl(pexe, pl, args=C08_ARGS)
    res = res + ["!died"] * (len(pl) - len(res))
    shapes = {}
    pending = []
    for (keep, addr), l, r in zip(cases, pl, res):
        ctx.count(l + " " + r[:40], kind="psendreal:keep=%s:%s" % (keep, "own-address" if addr == "-" else "host=" + addr))
        if r.startswith("!") and not r.startswith("!panic"):
            ctx.not_shown("psendreal: the driver could not make a peer connection: %s" % r[:200])
            continue
        tok, _, sent = r.partition(" ")
        line = "%s psend %s %s x00" % (AREA, keep, tok)
        if r.startswith("!panic"):
            line, sent = "%s psend %s U x00" % (AREA, keep), r
        bad = send_prop(line, sent, None)
        if bad:
            ctx.violation(send_key(line, sent, None), "peer connection made by pion (host address %s): %s" % (addr, bad), dict(label="psendreal", case=l, impl=r[:4000]))
            continue
        pending.append((l, line, sent))
        d = parse_lstruct(tok)
        if d:
            ncand = sum(1 for _, attrs in d["media"] for a in attrs if a[1] == "c")
            shapes["%s" % addr] = "%d candidates, %d local" % (ncand, ndrop(d))
    # SnowflakeProxy{KeepLocalAddresses}.Start(): the answer of the session it runs has the machine's own candidates
    own_local = None
    for (keep, addr), r in zip(cases, res):
        if addr == "-" and not r.startswith("!"):
            d = parse_lstruct(r.split(" ")[0])
            own_local = ndrop(d) if d else None
    sl = ["%s pstart %s" % (AREA, keep) for keep in "01"]
    rc, sres, err = vlib.run_impl(pexe, sl, args=C08_ARGS)
    sres = sres + ["!died"] * (len(sl) - len(sres))
    for l, r in zip(sl, sres):
        keep = l.split(" ")[2]
        ctx.count(l + " " + r[:60], kind="pstart:keep=" + keep)
        if r.startswith("!panic") or r == "!died":
            ctx.violation("proxy-answer-panic", "SnowflakeProxy.Start panicked before the answer was sent: " + r[:200], dict(label="pstart", case=l, impl=r[:4000]))
            continue
        d = parse_lstruct(r) if not r.startswith("!") else None
        if d is None:
            ctx.not_shown("pstart: the driver could not observe an answer: %s" % r[:200])
            continue
        n = ndrop(d)
        if keep == "0" and n:
            ctx.violation("proxy-answer-leaks-local", "SnowflakeProxy{KeepLocalAddresses: false}.Start(): the answer sent to the broker contains %d local host "
                          "candidate line(s)" % n, dict(label="pstart", case=l, impl=r[:4000]))
        if keep == "1" and own_local and n == 0:
            ctx.violation("proxy-answer-altered-when-kept", "SnowflakeProxy{KeepLocalAddresses: true}.Start(): the answer sent to the broker has no local host candidate "
                          "although this machine has %d" % own_local, dict(label="pstart", case=l, impl=r[:4000]))
    ctx.extra["pstart_discriminates"] = bool(own_local)
    if pending:
        for (l, line, sent), m in zip(pending, vlib.run_model([x[1] for x in pending])):
            if m != sent:
                ctx.not_shown("psendreal: model and implementation disagree on `%s`: model=%s impl=%s" % (l, m[:200], sent[:200]))
    ctx.extra["psendreal_descriptions"] = shapes


def replay(ctx, doc):
    exe = vlib.go_build("./zz_verif/sdpstrip")
    bad = 0
    for v in doc.get("violations", []):
        case = v["replay"].get("case")
        if not case:
            continue
        a = case.split(" ")
        if a[1] in ("lines", "psend", "csend", "csendc", "psendreal", "pstart", "lparse"):
            bad += replay_lines(case)
            continue
        if a[1] == "parse":
            a = [a[0], "strip", "U", a[2]]
        if a[1] in ("strip", "stripmf"):
            rc, r1, err = vlib.run_impl(exe, ["%s parse %s" % (AREA, a[3])])
            if not r1 or r1[0].startswith("!"):
                print("case: %s\n impl: %s\n property: fails (panic)" % (case[:300], r1[:1] or err[-300:]))
                bad += 1
                continue
            st, out, rem, stable, mf = r1[0].split(" ")
            case = "%s %s %s %s" % (AREA, "stripmf" if int(mf) & 2 else "strip", st, a[3])
            fellback = st != "U" and int(mf) and out[1:] == a[3][1:]
            print("desc.Marshal() failures when the driver re-runs the library calls (1 as parsed, 2 as stripped, 4 without candidates): %s%s" % (
                mf, "; the function returned its input: fall-back branch" if fellback else ""))
            t = text_oracle(bytes.fromhex(a[3][1:] if fellback else rem[1:]), bytes.fromhex(out[1:])) if st != "U" else None
            print("input:\n%s\noutput:\n%s\ntext-level property: %s" % (bytes.fromhex(a[3][1:]).decode("utf-8", "replace"),
                                                                       bytes.fromhex(out[1:]).decode("utf-8", "replace"), t[1] if t else "holds"))
            bad += 1 if t else 0
            if st != "U" and stable != "1":
                continue
        m = vlib.run_model([case])[0]
        rc, r, err = vlib.run_impl(exe, [case])
        r = r[0] if r else "!died"
        p = prop(case, r, m)
        print("case: %s\n model: %s\n impl:  %s\n property: %s" % (case[:300], m[:300], r[:300], p or "holds"))
        bad += 1 if p else 0
    return 1 if bad else 0


def replay_lines(case):
    a = case.split(" ")
    op = a[1]
    if op == "lparse":
        a = [a[0], "lines", "U", a[2]]
        op = "lines"
    if op == "pstart":
        pexe = vlib.go_test_build("./proxy/lib", name="proxy_lib_c08c13.test")
        rc, r, err = vlib.run_impl(pexe, [case], args=C08_ARGS)
        r = r[0] if r else "!died"
        d = parse_lstruct(r) if not r.startswith("!") else None
        n = ndrop(d) if d else None
        bad = r.startswith("!panic") or r == "!died" or (a[2] == "0" and n)
        print("case: %s\n answer the broker got: %s\n local host candidate lines in it: %s\n property: %s" % (case, r[:600], n, "fails" if bad else "holds (keep=1 needs the comparison with psendreal)"))
        return 1 if bad else 0
    if op == "psendreal":
        pexe = vlib.go_test_build("./proxy/lib", name="proxy_lib_c08c13.test")
        rc, r, err = vlib.run_impl(pexe, [case], args=C08_ARGS)
        r = r[0] if r else "!died"
        tok, _, sent = r.partition(" ")
        line = "%s psend %s %s x00" % (AREA, a[2], tok)
        p = send_prop(line, sent, None)
        print("case: %s\n impl: %s\n property: %s" % (case, r[:600], p or "holds"))
        return 1 if p else 0
    if op == "lines":
        exe, args, pr = vlib.go_build("./zz_verif/sdpstrip"), (), lines_prop
        text = a[3]
    elif op == "psend":
        exe, args, pr = vlib.go_test_build("./proxy/lib", name="proxy_lib_c08c13.test"), C08_ARGS, send_prop
        text = a[4]
    else:
        exe, args, pr = vlib.go_test_build("./client/lib", name="client_lib_c08c13.test"), C08_ARGS, send_prop
        text = a[7]
    m = vlib.run_model([case])[0]
    rc, r, err = vlib.run_impl(exe, [case], args=args)
    r = r[0] if r else "!died"
    p = pr(case, r, m)
    print("input:\n%s\ncase: %s\n model: %s\n impl:  %s\n property: %s" % (bytes.fromhex(text[1:]).decode("utf-8", "replace"), case[:400], m[:300], r[:300], p or "holds"))
    return 1 if p else 0
