"""C06 — proxies relay only to bridges inside their accepted pattern
(common/namematcher, broker CheckProxyRelayPattern/ProxyPolls, proxy runSession/datachannelHandler)."""
import json
import os
import time
import vlib

AREA = "namematcher"
ALPHA = [b"a", b".", b"^", b"$"]
CONFIGURED_HOST = b"configured.relay.invalid"
G = b"snowflake.torproject.net"
TEST_ARGS = ["-test.run", "^TestVerifDriverC06$"]


def hx(b):
    return "x" + b.hex()


def unhx(t):
    assert t[0] == "x"
    return bytes.fromhex(t[1:])


# ---- reference reading of the property (independent of the Coq model and of the Go code) ----
def new_matcher(rule):
    r = rule[:-1] if rule.endswith(b"$") else rule
    return (True, r[1:]) if r.startswith(b"^") else (False, r)


def member(m, s):
    return s == m[1] if m[0] else s.endswith(m[1])


def judged_superset(m, o):
    if m[0]:
        return o[0] and m[1] == o[1]
    return o[1].endswith(m[1])


def well_formed(rule):
    """[^]body$ with no ^ or $ inside body: the rules whose meaning the repo documents ('if the pattern starts
    with ^ an exact match is required; the rest of the pattern is the suffix of the domain name') and which
    theorems C06_rule_anchored / C06_rule_suffix characterise."""
    if not rule.endswith(b"$"):
        return False
    body = rule[1:-1] if rule.startswith(b"^") and len(rule) >= 2 else rule[:-1]
    return b"^" not in body and b"$" not in body


def documented_nonmember(rule, host):
    return well_formed(rule) and not member(new_matcher(rule), host)


def words(n):
    if n == 0:
        return [b""]
    return [c + w for w in words(n - 1) for c in ALPHA]


SMALL = words(0) + words(1) + words(2) + words(3)      # same order as NameMatcher.small_words


def fields(s):
    return dict(kv.split("=", 1) for kv in s.split(" ") if "=" in kv)


# Answers of the implementation's OWN exported matcher (NewNameMatcher/IsSupersetOf/IsMember on the
# tree under test), so that the broker and proxy properties are evaluated against what the code's
# matcher says, not against this file's reading of the rule syntax.
FACTS = {}


def ensure_facts(exe_nm, triples):
    todo = sorted({t for t in triples if t not in FACTS})
    if not todo:
        return
    rc, out, err = vlib.run_impl(exe_nm, ["%s nm %s %s %s" % ((AREA,) + t) for t in todo])
    if rc != 0 or len(out) != len(todo):
        raise RuntimeError("namematcher driver failed: " + err[-300:])
    for t, o in zip(todo, out):
        FACTS[t] = fields(o)


def impl_judged_superset(a_hex, b_hex):
    return FACTS[(a_hex, b_hex, "x")]["sup"] == "1"


def impl_member(rule_hex, host_hex):
    return FACTS[(rule_hex, rule_hex, host_hex)]["ma"] == "1"


SEQ_OPS = {"pollseq": "poll", "urlseq": "url", "urlseqfull": "urlfull"}
SEQ_SIDE = {"pollseq": "broker", "urlseq": "proxy", "urlseqfull": "proxy"}


def seq_steps(line, impl, model):
    """A history line taken apart: -> list of (single-shot case line for that request ALONE, implementation's
    answer to the request inside the history, model's answer, position), or a string when the answers cannot be
    aligned with the requests.  Re-installations of the broker patterns are consumed here (they change the
    configuration the following single-shot lines carry)."""
    a = line.split(" ")
    op = a[1]
    evs = a[4].split(",")
    sep = " | " if op == "urlseqfull" else ","
    ri, rm = impl.split(sep), model.split(",")
    if impl.startswith("!") or len(ri) != len(evs) or len(rm) != len(evs):
        return "history of %d requests answered with: %s" % (len(evs), impl[:300])
    out = []
    if op == "pollseq":
        al, pr = a[2], a[3]
        for i, (ev, r, m) in enumerate(zip(evs, ri, rm)):
            if ev[0] == "c":
                al, pr = ev[1:].split(";")
                if r != "installed":
                    return "re-installation of the patterns answered with: " + r[:200]
                continue
            out.append(("%s poll %s %s %s %s" % (AREA, al, pr, ev[0], ev[1:] if ev[0] == "s" else "x"), r, m, i))
    else:
        for i, (ev, r, m) in enumerate(zip(evs, ri, rm)):
            out.append(("%s %s %s %s %s" % (AREA, SEQ_OPS[op], a[2], a[3], ev.replace(";", " ")), r, m, i))
    return out


def show_history(line, upto):
    a = line.split(" ")
    evs = a[4].split(",")[:upto]
    def one(ev):
        if a[1] == "pollseq":
            if ev[0] == "s":
                return "poll(pattern=%r)" % unhx(ev[1:])
            if ev[0] == "c":
                return "install(allowed=%r, presumed=%r)" % tuple(unhx(x) for x in ev[1:].split(";"))
            return {"l": "poll(legacy)", "n": "poll(legacy, null field)"}[ev]
        return repr(unhx(ev.split(";")[0]))
    return "[" + ", ".join(one(e) for e in evs) + "]"


# Fresh single-shot runs of a request that failed inside a history (to tell a history-dependent decision
# from one that is wrong on its own); EXES is filled by run()/replay().
EXES = {}
FRESH = {}


def fresh_answer(single):
    if single in FRESH:
        return FRESH[single]
    if len(FRESH) >= 60:
        return None
    op = single.split(" ")[1]
    exe = EXES.get("br" if op in ("poll", "gate", "bseq") else "px")
    res = None
    if exe:
        rc, out, err = vlib.run_impl(exe, [single], args=TEST_ARGS)
        if rc == 0 and len(out) == 1:
            res = out[0]
            if "nm" in EXES:
                ensure_facts(EXES["nm"], sess_dialled(single, res) if op == "sess" else dialled_hosts(single, res))
    FRESH[single] = res
    return res


def facts_needed(line):
    a = line.split(" ")
    if a[1] in ("gate", "bseq"):
        return hist_facts_needed(line)
    if a[1] == "sess":
        return sess_facts_needed(line)
    if a[1] == "pollseq":
        al, need = a[2], []
        pr = a[3]
        for ev in a[4].split(","):
            if ev[0] == "c":
                al, pr = ev[1:].split(";")
            else:
                need.append((ev[1:] if ev[0] == "s" else pr, al, "x"))
        return need
    if a[1] in ("urlseq", "urlseqfull"):
        return [(a[2], a[2], ev.split(";")[3]) for ev in a[4].split(",") if ev.split(";")[1] == "P"]
    if a[1] == "poll":
        eff = a[5] if a[4] == "s" else a[3]
        return [(eff, a[2], "x")]
    if a[1] in ("url", "urlfull") and a[5] == "P":
        return [(a[2], a[2], a[7])]
    return []


# ---------------------------------------------------------------- machines: gate / bseq (one broker context), sess (one proxy)

MACHINE_OPS = ("gate", "bseq", "sess")


def fold_field(k):
    return k.lower()


def read_poll_body(body):
    """Reference reading of a proxy poll body, independent of the Go decoder and of the Coq model:
    None = not a well-formed version-1 poll as far as this reading can tell (no judgement is based on it);
    else dict(sid=..., pattern=<bytes or None: field absent or null>, version=...)."""
    try:
        pairs = json.loads(body.decode("utf-8"), object_pairs_hook=list)
    except (ValueError, UnicodeDecodeError):
        return None
    if not isinstance(pairs, list) or any(not isinstance(kv, tuple) for kv in pairs):
        return None
    st = dict(sid="", version="", type="", nat="", clients=0, accepted=None)
    names = {"sid": "sid", "version": "version", "type": "type", "nat": "nat", "clients": "clients",
             "acceptedrelaypattern": "accepted"}
    for k, v in pairs:
        f = names.get(fold_field(k))
        if f is None:
            continue
        if v is None:
            if f == "accepted":
                st[f] = None
            continue
        if f == "clients":
            if isinstance(v, bool) or not isinstance(v, int):
                return None
            st[f] = v
        else:
            if not isinstance(v, str):
                return None
            st[f] = v
    if st["version"].split(".")[0] != "1" or st["sid"] == "" or st["nat"] not in ("", "unknown", "restricted", "unrestricted"):
        return None
    pat = st["accepted"]
    return dict(sid=st["sid"], version=st["version"], pattern=None if pat is None else pat.encode("utf-8"))


def hist_events(line):
    """-> list of per-event dicts for a gate / bseq line: kind in poll|client|install; for polls: eff (hex of the
    pattern the poll is to be judged by, None when this reading cannot tell), allowed (hex), explicit (bool), desc"""
    a = line.split(" ")
    al, pr = a[2], a[3]
    out = []
    for ev in a[4].split(","):
        f = ev.split(":")
        if f[0] == "c":
            out.append(dict(kind="client", desc="client(%s)" % f[1]))
        elif f[0] == "i":
            al, pr = f[1], f[2]
            out.append(dict(kind="install", desc="install(allowed=%r, presumed=%r)" % (unhx(al), unhx(pr))))
        elif f[0] == "p":
            explicit = f[3] == "s"
            out.append(dict(kind="poll", eff=f[4] if explicit else pr, allowed=al, explicit=explicit,
                            desc="poll(pattern=%r)" % unhx(f[4]) if explicit else "poll(legacy)"))
        elif f[0] == "b":
            body = unhx(f[1])
            rd = read_poll_body(body)
            if rd is None:
                out.append(dict(kind="poll", eff=None, allowed=al, explicit=False, desc="poll(body=%r)" % body))
            else:
                explicit = rd["pattern"] is not None
                out.append(dict(kind="poll", eff=hx(rd["pattern"]) if explicit else pr, allowed=al, explicit=explicit,
                                desc="poll(body=%r)" % body))
        else:
            out.append(dict(kind="?", desc=ev))
    return out


def hist_facts_needed(line):
    return [(e["eff"], e["allowed"], "x") for e in hist_events(line) if e["kind"] == "poll" and e["eff"] is not None]


def hist_prop(line, impl):
    """C06 on the implementation's account of a history on one broker context -> (message, key) or None"""
    parts = impl.split(" ")
    res = parts[0].split(",")
    evs = hist_events(line)
    if impl.startswith("!") or len(res) != len(evs):
        return ("history of %d events answered with: %s" % (len(evs), impl[:300]), "broker-history-irregular")
    waiting = set()
    for i, (e, r) in enumerate(zip(evs, res)):
        pos = i + 1
        earlier = "[" + ", ".join(x["desc"] for x in evs[:i]) + "]"
        if e["kind"] == "poll":
            if r == "registered":
                waiting.add(pos)
                if e["eff"] is not None:
                    sup = impl_judged_superset(e["eff"], e["allowed"])
                    eff, allowed = unhx(e["eff"]), unhx(e["allowed"])
                    if well_formed(eff) and well_formed(allowed):
                        sup = sup and judged_superset(new_matcher(eff), new_matcher(allowed))
                    if not sup:
                        return ("event %d of a history on one broker context: broker registered a %s %s whose pattern %r is "
                                "not a superset of the allowed pattern %r; earlier events: %s"
                                % (pos, "pattern-carrying" if e["explicit"] else "legacy", e["desc"], eff, allowed, earlier),
                                "broker-accept-" + ("pattern" if e["explicit"] else "legacy"))
            elif r == "returned-but-registered":
                return ("event %d of a history on one broker context: %s was answered at once (not admitted) but its session "
                        "id is registered; earlier events: %s" % (pos, e["desc"], earlier), "broker-registration-leak")
            elif r not in ("rejected", "badrequest"):
                return ("event %d of a history on one broker context: %s answered irregularly: %s" % (pos, e["desc"], r[:100]),
                        "broker-history-irregular")
        elif e["kind"] == "client":
            if r.startswith("served:"):
                k = int(r[7:]) if r[7:].isdigit() else -1
                if k not in waiting:
                    what = ("the poll at position %d, which was answered %r" % (k, res[k - 1])
                            if 1 <= k <= len(res) else "an unknown poll")
                    return ("event %d of a history on one broker context: a client was handed to %s (not a registered, "
                            "waiting poll); earlier events: %s" % (pos, what, earlier), "broker-client-to-unregistered-poll")
                waiting.discard(k)
            elif r != "noproxies":
                return ("event %d of a history on one broker context: client offer ended irregularly: %s" % (pos, r[:100]),
                        "broker-history-irregular")
        elif e["kind"] == "install":
            if r != "installed":
                return ("re-installation of the patterns answered with: " + r[:100], "broker-history-irregular")
    f = fields(impl)
    if "avail" not in f or "heap" not in f:
        return ("unreadable driver answer: " + impl[:200], "broker-history-irregular")
    if f["avail"] != str(len(waiting)) or f["heap"] != str(len(waiting)):
        return ("after the history %d polls are registered and waiting, but the broker holds %s session ids and %s heap "
                "entries: a rejected or served poll left a registration behind (or a registered one vanished)"
                % (len(waiting), f["avail"], f["heap"]), "broker-registration-leak")
    return None


def sess_offers(line):
    """-> (config dict, list of offers) for a sess line; offer = dict(raw, parse=None|(scheme, host), reparse=None|'-'|(scheme, host))"""
    a = line.split(" ")
    def tok(t):
        f = t.split(";")
        raw = unhx(f[0])
        if f[1] == "E":
            return dict(raw=raw, rawhex=f[0], parse=None, reparse="-")
        parse = (unhx(f[2]), unhx(f[3]))
        if f[4] == "E":
            return dict(raw=raw, rawhex=f[0], parse=parse, hosthex=f[3], reparse=None)
        return dict(raw=raw, rawhex=f[0], parse=parse, hosthex=f[3], reparse=(unhx(f[5]), unhx(f[6])))
    cfg = dict(stopper=a[2], pattern=unhx(a[7]), pathex=a[7], allow=a[8] == "1", relay=tok(a[9]),
               broker=unhx(a[10]), probe=unhx(a[11]), stun=unhx(a[12]))
    return cfg, [tok(t) for t in a[13].split(",")]


def sess_facts_needed(line):
    cfg, offers = sess_offers(line)
    return [(cfg["pathex"], cfg["pathex"], o["hosthex"]) for o in offers if o["parse"] is not None]


def sess_dialled(line, impl):
    cfg, _ = sess_offers(line)
    out = []
    for r in impl.split(","):
        m = r.split("dial:")
        if len(m) == 2 and m[1] != "none" and m[1].count(":") == 1:
            out.append((cfg["pathex"], cfg["pathex"], m[1].split(":")[1]))
    return out


def sess_prop_one(cfg, o, r, where):
    pattern, allow, raw = cfg["pattern"], cfg["allow"], o["raw"]
    if r == "refuse":
        return None
    if not r.startswith("dial:") :
        if "+dial:" in r:
            return ("%srelay dial (%s) although the session was refused, relay URL %r" % (where, r, raw), "proxy-relay-url")
        return ("%ssession ended irregularly: %s" % (where, r[:200]), "proxy-session-irregular")
    # the session proceeded
    if o["parse"] is None:
        return ("%ssession proceeds although the relay URL %r does not parse" % (where, raw), "proxy-proceeds-unparsable")
    scheme, host = o["parse"]
    if raw != b"":
        if not impl_member(cfg["pathex"], o["hosthex"]) or documented_nonmember(pattern, host):
            return ("%ssession proceeds with relay URL %r whose hostname %r fails the proxy's pattern %r "
                    "(configured: RelayURL=%r BrokerURL=%r NATProbeURL=%r STUNURL=%r)"
                    % (where, raw, host, pattern, cfg["relay"]["raw"], cfg["broker"], cfg["probe"], cfg["stun"]), "proxy-relay-url")
        if not allow and scheme != b"wss":
            return ("%ssession proceeds with relay URL %r of scheme %r while non-TLS relays are not allowed "
                    "(configured: RelayURL=%r)" % (where, raw, scheme, cfg["relay"]["raw"]), "proxy-relay-url")
    if r == "dial:none":
        return None
    d = r.split(":")
    if len(d) != 3 or d[1] not in "01" or not d[2].startswith("x"):
        return ("%sunreadable driver answer: %s" % (where, r[:200]), "proxy-session-irregular")
    tls, dh = d[1] == "1", unhx(d[2])
    if raw == b"":
        cr = cfg["relay"]
        want = cr["parse"][1] if cr["parse"] else None
        if dh != want:
            return ("%sbroker sent no relay URL but the proxy dialled %r instead of its configured relay %r"
                    % (where, dh, cr["raw"]), "proxy-relay-url")
        return None
    if dh != host:
        return ("%sthe proxy checked hostname %r of relay URL %r but dialled %r" % (where, host, raw, dh), "proxy-dial-host-differs")
    if not impl_member(cfg["pathex"], d[2]) or documented_nonmember(pattern, dh):
        return ("%sproxy dialled relay host %r (URL %r) which fails its pattern %r" % (where, dh, raw, pattern), "proxy-relay-url")
    if not tls and not allow:
        return ("%sproxy dialled %r without TLS while non-TLS relays are not allowed" % (where, raw), "proxy-relay-url")
    if tls != (scheme == b"wss"):
        return ("%sthe proxy checked scheme %r of relay URL %r but dialled with tls=%s" % (where, scheme, raw, tls), "proxy-dial-host-differs")
    return None


def sess_prop(line, impl):
    cfg, offers = sess_offers(line)
    # what the theorems assume of net/url, on the URLs of this case
    for o in [cfg["relay"]] + offers:
        if o["parse"] is not None and o["reparse"] not in (None, "-") and tuple(o["reparse"]) != tuple(o["parse"]):
            return ("net/url: %r parses to scheme %r host %r, but the string printed from that parse (client_ip set) parses to "
                    "scheme %r host %r: the host checked would not be the host dialled"
                    % (o["raw"], o["parse"][0], o["parse"][1], o["reparse"][0], o["reparse"][1]), "url-reparse-changes-host", 0)
    res = impl.split(",")
    if impl.startswith("!") or len(res) != len(offers):
        return ("history of %d sessions answered with: %s" % (len(offers), impl[:300]), "proxy-history-irregular", 0)
    for i, (o, r) in enumerate(zip(offers, res)):
        where = ""
        if len(offers) > 1:
            prev = [x["raw"] for x in offers[:i]]
            where = "session %d of a history on one long-lived proxy (earlier relay URLs: %s%s): " % (
                i + 1, "... " if len(prev) > 4 else "", prev[-4:])
        bad = sess_prop_one(cfg, o, r, where)
        if bad:
            return bad + (i,)
    return None


def sess_single(line, i):
    a = line.split(" ")
    return " ".join(a[:13] + [a[13].split(",")[i]])


def sess_agree(line, model, impl):
    """model and implementation agree on a sess line; a dial that the websocket library declines (dial:none) where the
    model expects one is tolerated (user info in the URL, ...: the library's own refusals are not modelled)"""
    ms, rs = model.split(","), impl.split(",")
    if len(ms) != len(rs):
        return False
    return all(m == r or (r == "dial:none" and m.startswith("dial:")) for m, r in zip(ms, rs))


def prop(line, impl, model):
    """C06 evaluated on the implementation's own answers (ensure_facts must have been called for the line)."""
    a = line.split(" ")
    op = a[1]
    if impl.startswith("!panic") or impl == "!died":
        return "implementation panicked/died: " + impl[:300]
    if op in ("gate", "bseq"):
        bad = hist_prop(line, impl)
        return bad[0] if bad else None
    if op == "sess":
        bad = sess_prop(line, impl)
        return bad[0] if bad else None
    if op in SEQ_OPS:
        # every request of the history is judged as if it were alone: C06 quantifies over histories, and the
        # single-request reading of the property does not mention earlier requests
        st = seq_steps(line, impl, model)
        if isinstance(st, str):
            return st
        for single, r, m, i in st:
            bad = prop(single, r, m)
            if bad:
                return ("request %d of a history on one long-lived %s: %s; earlier requests: %s"
                        % (i + 1, {"broker": "broker context", "proxy": "proxy"}[SEQ_SIDE[op]], bad, show_history(line, i)))
        return None
    if op in ("sup", "nm"):
        f = fields(impl)
        if not {"sup", "ma", "mb"} <= set(f):
            return "unreadable driver answer: " + impl[:100]
        hosts = SMALL if op == "sup" else [unhx(a[4])]
        if len(f["ma"]) != len(hosts) or len(f["mb"]) != len(hosts):
            return "unreadable driver answer: " + impl[:100]
        for rule, bits_ in ((unhx(a[2]), f["ma"]), (unhx(a[3]), f["mb"])):
            if well_formed(rule):
                for h, x in zip(hosts, bits_):
                    if x == "1" and documented_nonmember(rule, h):
                        return "pattern %r accepts hostname %r, contrary to its documented meaning" % (rule, h)
        if f["sup"] == "1":
            for h, x, y in zip(hosts, f["ma"], f["mb"]):
                if y == "1" and x != "1":
                    return ("pattern %r is judged a superset of %r but rejects hostname %r which the latter accepts"
                            % (unhx(a[2]), unhx(a[3]), h))
    elif op == "poll":
        allowed, presumed, kind, pat = unhx(a[2]), unhx(a[3]), a[4], unhx(a[5])
        eff = pat if kind == "s" else presumed
        sup = impl_judged_superset(a[5] if kind == "s" else a[3], a[2])
        if well_formed(eff) and well_formed(allowed):
            sup = sup and judged_superset(new_matcher(eff), new_matcher(allowed))
        if impl == "accept":
            if not sup:
                return ("broker registered a %s poll whose pattern %r is not a superset of the allowed pattern %r"
                        % ({"s": "pattern-carrying", "l": "legacy", "n": "legacy (null field)"}[kind], eff, allowed))
        elif impl == "reject":
            pass        # over-rejection is not a C06 failure; correspondence reports it
        else:
            if not sup:
                return "poll with a non-superset pattern was not cleanly rejected: " + impl[:200]
            return "poll with a superset pattern was not served: " + impl[:200]
    elif op in ("url", "urlfull"):
        pattern, allow, raw = unhx(a[2]), a[3] == "1", unhx(a[4])
        parsed = None if a[5] == "E" else (unhx(a[6]), unhx(a[7]))
        toks = impl.split(" ")
        dec = toks[0]
        if dec not in ("refuse", "proceed"):
            return "unreadable driver answer: " + impl[:200]
        if dec == "proceed":
            if parsed is None:
                return "session proceeds although the relay URL %r does not parse" % raw
            if raw != b"":
                if not impl_member(a[2], a[7]) or documented_nonmember(pattern, parsed[1]):
                    return "session proceeds with relay URL %r whose hostname %r fails the proxy's pattern %r" % (raw, parsed[1], pattern)
                if not allow and parsed[0] != b"wss":
                    return "session proceeds with relay URL %r of scheme %r while non-TLS relays are not allowed" % (raw, parsed[0])
        if op == "urlfull":
            f = fields(impl)
            if "dial" not in f:
                return "unreadable driver answer: " + impl[:200]
            if f["dial"] != "none":
                for d in f["dial"].split(";"):
                    sch, h = d.split(",")
                    h = unhx(h)
                    if dec == "refuse":
                        return "relay dial to %r after the session was refused" % h
                    if raw == b"" and h == CONFIGURED_HOST:
                        continue
                    if raw == b"":
                        return "broker sent no relay URL but the proxy dialled %r instead of its configured relay" % h
                    if not impl_member(a[2], hx(h)) or documented_nonmember(pattern, h):
                        return "proxy dialled relay host %r (URL %r) which fails its pattern %r" % (h, raw, pattern)
                    if not allow and sch != "https":
                        return "proxy dialled %r without TLS while non-TLS relays are not allowed" % raw
    return None


def key_of(line, impl, model):
    a = line.split(" ")
    op = a[1]
    if impl.startswith("!panic") or impl == "!died":
        return "driver-panic"
    if op in ("gate", "bseq"):
        bad = hist_prop(line, impl)
        return bad[1] if bad else "broker-history-irregular"
    if op == "sess":
        bad = sess_prop(line, impl)
        if not bad:
            return "proxy-history-irregular"
        if bad[2] > 0 and bad[1] in ("proxy-relay-url", "proxy-dial-host-differs", "proxy-proceeds-unparsable"):
            single = sess_single(line, bad[2])
            fr = fresh_answer(single)
            if fr is not None and sess_prop(single, fr) is None:
                return "proxy-decision-depends-on-history"
        return bad[1]
    if op in SEQ_OPS:
        st = seq_steps(line, impl, model)
        if isinstance(st, str):
            return SEQ_SIDE[op] + "-history-irregular"
        for single, r, m, i in st:
            if prop(single, r, m):
                fr = fresh_answer(single)
                if fr is not None and prop(single, fr, m) is None:
                    return SEQ_SIDE[op] + "-decision-depends-on-history"
                return key_of(single, r, m)
        return SEQ_SIDE[op] + "-history-irregular"
    if op in ("sup", "nm"):
        return "member-semantics" if "documented meaning" in (prop(line, impl, model) or "") else "superset-unsound"
    if op == "poll":
        return "broker-" + (impl if impl in ("accept", "reject") else "irregular") + "-" + {"s": "pattern", "l": "legacy", "n": "legacy"}[a[4]]
    if a[5] == "E":
        return "proxy-proceeds-unparsable"
    return "proxy-relay-url"


# ---------------------------------------------------------------- generators

LABELS = [b"snowflake", b"torproject", b"net", b"evil", b"a", b"", b"02", b"SNOWFLAKE", b"xn--nt-bja", b"n\xc3\xa9t", b"org"]


def rand_host(rng):
    k = rng.choice([1, 2, 3, 3, 3, 4])
    h = b".".join(rng.choice(LABELS) for _ in range(k))
    r = rng.random()
    if r < 0.1:
        h += b"."
    elif r < 0.15:
        h = h.upper()
    elif r < 0.2:
        h = bytes([rng.randrange(256)]) + h
    return h


def rule_from(rng, host):
    """a rule related to host: some suffix of it (so that suffixes overlap), decorated"""
    r = rng.random()
    if r < 0.7:
        cut = rng.choice([0, 0, host.find(b".") + 1, host.rfind(b".") + 1, host.rfind(b"."), rng.randrange(len(host) + 1)])
        s = host[max(cut, 0):]
    elif r < 0.85:
        s = rng.choice([b"evil", b"x", b"-", b"."]) + host
    else:
        s = rand_host(rng)
    pre = rng.choice([b"", b"", b"^", b"^", b"^^", b"$", b"a^"])
    post = rng.choice([b"$", b"$", b"$", b"", b"$$", b"^", b"$^", b"^$"])
    if rng.random() < 0.05:
        s = b""
    return pre + s + post


POLL_POOL = [b"snowflake.torproject.net$", b"^snowflake.torproject.net$", b"torproject.net$", b".torproject.net$",
             b"^torproject.net$", b"net$", b"$", b"^$", b"", b"^", b"snowflake.torproject.net", b"^snowflake.torproject.net",
             b"evilsnowflake.torproject.net$", b"^02.snowflake.torproject.net$", b"02.snowflake.torproject.net$",
             b"snowflake.torproject.org$", b"SNOWFLAKE.TORPROJECT.NET$", b"snowflake.torproject.net$$", b"^^snowflake.torproject.net$",
             b"nowflake.torproject.net$", b"snowflake.torproject.net.$", b"t$", b"^snowflake.torproject.net$ ", b"\"quoted\\pattern$",
             b"n\xc3\xa9t$"]

URL_PATTERNS = [b"snowflake.torproject.net$", b"^snowflake.torproject.net$", b"torproject.net$", b".torproject.net$", b"$", b"^$", b"",
                b"^a$", b"a$", b"net$", b"^snowflake.torproject.net", b"^[::1]$", b"1$"]


def url_pool():
    g = G
    u = [b"", b"wss://" + g + b"/", b"wss://" + g, b"wss://" + g + b":443/", b"wss://" + g + b":8443/path?x=1&client_ip=9.9.9.9",
         b"ws://" + g + b"/", b"WSS://" + g + b"/", b"wss://" + g + b"./", b"wss://SNOWFLAKE.TORPROJECT.NET/",
         b"wss://evil" + g + b"/", b"wss://" + g + b".evil.com/", b"wss://evil.com/" + g, b"wss://evil.com/?" + g,
         b"wss://evil.com#" + g, b"wss://evil.com/#@" + g, b"wss://" + g + b"@evil.com/", b"wss://evil.com@" + g + b"/",
         b"wss://" + g + b":pw@evil.com/", b"wss://evil.com\\@" + g + b"/", b"wss://" + g + b"%2eevil.com/",
         b"wss://evil.com%2f" + g + b"/", b"wss://[::1]/", b"wss://[::1]:443/", b"wss://127.0.0.1/", b"wss://1/", b"wss:" + g + b"/",
         b"wss:///" + g, b"//" + g + b"/", g, b"/" + g, b" wss://" + g + b"/", b"wss://" + g + b"/ ", b"wss://" + g + b"\x00/",
         b"wss://" + g + b"\t/", b"://", b"%zz", b"wss://" + g + b"/%zz", b"http://" + g + b"/", b"https://" + g + b"/",
         b"wss://" + g + b":99999/", b"wss://" + g + b":abc/", b"wss://a", b"wss://.a/", b"ws://a/", b"wss://", b"wss:", b"wss",
         b"wss://snowflake.torproject.n\xc3\xa9t/", b"wss://02." + g + b"/", b"wss://" + g + b"?x", b"wss://" + g + b"#f",
         b"wss://" + g + b":/", b"wss://evil.com:443:" + g + b"/", b"wss://evil.com/\n" + g, b"wss://" + g + b"\xff/",
         b"wss://" + CONFIGURED_HOST + b"x/", b"wsss://" + g + b"/", b"ws+s://" + g + b"/", b"wss://evil.com;" + g + b"/",
         b"wss://evil.com," + g + b"/", b"wss://[" + g + b"]/", b"wss://[evil.com]" + g + b"/", b"wss://evil.com%00" + g + b"/"]
    return u


def mutate(rng, u):
    u = bytearray(u)
    for _ in range(rng.choice([1, 1, 2, 3])):
        r = rng.random()
        pos = rng.randrange(len(u) + 1)
        c = rng.choice(b":/@?#%.[]\\ \t$^aZ0-_~") if rng.random() < 0.8 else rng.randrange(128)
        if r < 0.4:
            u.insert(pos, c)
        elif r < 0.7 and u:
            del u[min(pos, len(u) - 1)]
        elif u:
            u[min(pos, len(u) - 1)] = c
    return bytes(u)


def gen_matcher(ctx):
    rng, thorough = ctx.rng, ctx.tier == "thorough"
    lines, kinds = [], []
    for ra in SMALL:
        for rb in SMALL:
            lines.append("%s sup %s %s" % (AREA, hx(ra), hx(rb)))
            kinds.append("matcher-exhaustive-rules<=3xrules<=3xhosts<=3")
    for _ in range(3000 if not thorough else 40000):
        h = rand_host(rng)
        ra, rb = rule_from(rng, h), rule_from(rng, h)
        if rng.random() < 0.3:
            rb = rule_from(rng, new_matcher(ra)[1] or h)
        hh = h if rng.random() < 0.6 else rng.choice([new_matcher(ra)[1], new_matcher(rb)[1], b"x" + new_matcher(rb)[1], rand_host(rng)])
        lines.append("%s nm %s %s %s" % (AREA, hx(ra), hx(rb), hx(hh)))
        kinds.append("matcher-random-overlapping-suffixes")
    for _ in range(300 if not thorough else 3000):
        bs = [bytes(rng.choice([36, 94, 46, 97, 0, 255, rng.randrange(256)]) for _ in range(rng.randrange(0, 7))) for _ in range(3)]
        lines.append("%s nm %s %s %s" % (AREA, hx(bs[0]), hx(bs[1]), hx(bs[2])))
        kinds.append("matcher-raw-bytes")
    return lines, kinds


def gen_poll(ctx):
    rng, thorough = ctx.rng, ctx.tier == "thorough"
    lines, kinds = [], []
    def add(al, pr, k, pat, kind):
        lines.append("%s poll %s %s %s %s" % (AREA, hx(al), hx(pr), k, hx(pat)))
        kinds.append(kind)
    for al in POLL_POOL:
        for p in POLL_POOL:
            add(al, rng.choice(POLL_POOL), "s", p, "poll-pattern-pool")
            add(al, p, "l", rng.choice(POLL_POOL), "poll-legacy-pool")
            add(al, p, "n", rng.choice(POLL_POOL), "poll-legacy-null-pool")
    small = [w for w in SMALL if len(w) <= 2]
    for al in small:
        for p in small:
            k = rng.choice("sln")
            add(al, p if k != "s" else rng.choice(small), k, p if k == "s" else rng.choice(small), "poll-exhaustive<=2")
    for _ in range(400 if not thorough else 8000):
        h = rand_host(rng)
        while True:
            al, pr, p = rule_from(rng, h), rule_from(rng, h), rule_from(rng, h)
            try:
                p.decode("utf-8")          # the pattern travels inside JSON
                break
            except UnicodeDecodeError:
                h = rand_host(rng)
        add(al, pr, rng.choice("ssln"), p, "poll-random")
    return lines, kinds


def gen_urls(ctx):
    """-> list of (raw url, kind, patterns to try it against)"""
    rng, thorough = ctx.rng, ctx.tier == "thorough"
    pool = url_pool()
    out = [(u, "pool", URL_PATTERNS if thorough else URL_PATTERNS[:5] + rng.sample(URL_PATTERNS[5:], 1)) for u in pool]
    derived = []
    for pat in URL_PATTERNS:          # hosts around each pattern's own suffix, so that many sessions proceed
        suf = new_matcher(pat)[1]
        for host in [suf, b"x" + suf, b"x." + suf, suf + b"x", suf[1:], suf.upper()]:
            for sch, tail in [(b"wss", b"/"), (b"ws", b"/"), (b"wss", b":8443/p?q=1"), (b"https", b"/")]:
                u = sch + b"://" + host + tail
                derived.append(u)
                out.append((u, "derived", [pat, rng.choice(URL_PATTERNS)]))
    for _ in range(150 if not thorough else 2500):
        out.append((mutate(rng, rng.choice(pool[1:12] + derived)), "mutated", rng.sample(URL_PATTERNS, 3)))
    for _ in range(60 if not thorough else 600):
        sch = rng.choice([b"wss", b"wss", b"ws", b"WSS", b"https", b""])
        u = (sch + rng.choice([b"://", b"://", b":", b":/"]) + rng.choice([b"", b"", b"u@", b"u:p@"]) + rand_host(rng)
             + rng.choice([b"", b"/", b":443/", b":80", b"/p?q#f"]))
        out.append((u, "random", rng.sample(URL_PATTERNS, 3)))
    return out


def utf8_ok(b):
    try:
        b.decode("utf-8")
        return True
    except UnicodeDecodeError:
        return False


def dedupe(xs):
    out = []
    for x in xs:
        if x not in out:
            out.append(x)
    return out


SEQ_CFGS = [(b"snowflake.torproject.net$", b"snowflake.bamsoftware.com$"), (b"snowflake.torproject.net$", b"torproject.net$"),
            (b"^snowflake.torproject.net$", b"^02.snowflake.torproject.net$"), (b"snowflake.torproject.net$", b""),
            (b"$", b"net$"), (b"torproject.net$", b"^torproject.net$"), (b"^snowflake.torproject.net$", b"snowflake.torproject.net$")]


def gen_pollseq(ctx):
    """histories for ONE broker context: polls of all kinds (and re-installations of the patterns) in sequence"""
    rng, thorough = ctx.rng, ctx.tier == "thorough"
    lines, kinds = [], []
    def add(al, pr, evs, kind):
        lines.append("%s pollseq %s %s %s" % (AREA, hx(al), hx(pr), ",".join(evs)))
        kinds.append(kind)
    def pats_around(al, pr):
        suf = new_matcher(al)[1]
        return [p for p in dedupe([b"", al, pr, b"$", suf[1:] + b"$", b"x" + al, b"^$", b"^" + suf + b"$"]) if utf8_ok(p)]
    # (a) does one earlier poll change the answer to a later one? all ordered pairs of a pool, as [a, b, a]
    cfgs = list(SEQ_CFGS)
    for _ in range(2 if not thorough else 12):
        h = rand_host(rng)
        cfgs.append((rule_from(rng, h), rule_from(rng, h)))
    for al, pr in cfgs:
        pool = ["l", "n"] + ["s" + hx(p) for p in pats_around(al, pr)]
        for x in pool:
            for y in pool:
                if x != y:
                    add(al, pr, [x, y, x], "pollseq-pairwise-interference")
        # ... and does the answer follow a re-installation of the patterns (and back)?
        for nal, npr in ((pr, al), (b"x" + al, pr), (al, b"x" + pr)):
            for x in pool:
                add(al, pr, [x, "c%s;%s" % (hx(nal), hx(npr)), x, "c%s;%s" % (hx(al), hx(pr)), x], "pollseq-reinstall-interference")
    # (b) random histories, some with re-installations
    for _ in range(300 if not thorough else 4000):
        if rng.random() < 0.5:
            al, pr = rng.choice(SEQ_CFGS) if rng.random() < 0.6 else (rng.choice(POLL_POOL), rng.choice(POLL_POOL))
        else:
            h = rand_host(rng)
            al, pr = rule_from(rng, h), rule_from(rng, h)
        h = new_matcher(al)[1] or b"a.b"
        cand = pats_around(al, pr) + [p for p in (rule_from(rng, h) for _ in range(3)) if utf8_ok(p)] + [rng.choice(POLL_POOL)]
        pool = [b""] + rng.sample(cand, rng.randrange(2, 5))
        reinstall = rng.random() < 0.25
        evs = []
        for _ in range(rng.randrange(4, 13)):
            if reinstall and evs and rng.random() < 0.2:
                r = rng.random()
                nal, npr = (pr, al) if r < 0.3 else (al, rng.choice(pool)) if r < 0.6 else (rng.choice(pool), pr) if r < 0.8 else (al, pr)
                evs.append("c%s;%s" % (hx(nal), hx(npr)))
                continue
            k = rng.choice("ssssslln")
            evs.append("s" + hx(rng.choice(pool)) if k == "s" else k)
        add(al, pr, evs, "pollseq-random-history" + ("-with-reinstall" if any(e[0] == "c" for e in evs) else ""))
    return lines, kinds


def offers_around(pat):
    suf = new_matcher(pat)[1] or b"relay.example"
    us = [b"", b"%zz"]
    for h in (suf, b"01." + suf, b"evil.com"):
        for sch in (b"wss", b"ws", b"https"):
            us.append(sch + b"://" + h + b"/")
    us += [b"wss://" + suf + b":443/", b"ws://" + suf + b":443/", b"WSS://" + suf + b"/", b"ws://" + suf + b"/p?q=1"]
    return us


def gen_urlseq(ctx):
    """histories for ONE proxy: -> list of (op, pattern, allow, [raw relay URLs], kind)"""
    rng, thorough = ctx.rng, ctx.tier == "thorough"
    seqs = []
    # (a) does one earlier relay URL change the decision on a later one? all ordered pairs, as [a, b, a]
    for pat in URL_PATTERNS[:2] if not thorough else URL_PATTERNS[:6]:
        for allow in "01":
            us = offers_around(pat)
            if not thorough and (allow == "1" or pat != URL_PATTERNS[0]):
                us = [u for u in us if u.split(b"://")[-1].startswith(new_matcher(pat)[1])]      # same host[:port], all schemes
            for x in us:
                for y in us:
                    if x != y:
                        seqs.append(("urlseq", pat, allow, [x, y, x], "urlseq-pairwise-interference"))
    # (b) random histories: few hosts, several schemes and ports, repeats
    pool_all = url_pool()
    for n in range(120 if not thorough else 2000):
        pat = rng.choice(URL_PATTERNS[:5] + [rng.choice(URL_PATTERNS)])
        cand = offers_around(pat) + [rng.choice(pool_all), mutate(rng, rng.choice(offers_around(pat)[2:]))]
        pool = rng.sample(cand, rng.randrange(3, 7))
        seqs.append(("urlseq", pat, rng.choice("001"), [rng.choice(pool) for _ in range(rng.randrange(4, 11))], "urlseq-random-history"))
    # (c) the same with the data channel opened and the relay dial observed, per session
    for n in range(16 if not thorough else 200):
        pat = rng.choice(URL_PATTERNS[:4])
        suf = new_matcher(pat)[1] or b"relay.example"
        h = rng.choice([suf, b"01." + suf])
        pool = [sch + b"://" + h + tail for sch in (b"wss", b"ws") for tail in (b"/", b":443/")] + [b"wss://evil.com/", b""]
        seqs.append(("urlseqfull", pat, rng.choice("001"), [rng.choice(pool) for _ in range(rng.randrange(3, 6))],
                     "urlseq-random-history-dial-monitored"))
    return seqs


# ---------------------------------------------------------------- generators for the machines

def pats_around(al, pr):
    suf = new_matcher(al)[1]
    return [p for p in dedupe([b"", al, pr, b"$", suf[1:] + b"$", b"x" + al, b"^$", b"^" + suf + b"$"]) if utf8_ok(p)]


def gen_gate(ctx):
    """histories for ONE broker context through the gate: polls of all kinds stay registered while client offers arrive"""
    rng, thorough = ctx.rng, ctx.tier == "thorough"
    lines, kinds = [], []
    def add(al, pr, evs, kind):
        lines.append("%s gate %s %s %s" % (AREA, hx(al), hx(pr), ",".join(evs)))
        kinds.append(kind)
    def poll(nat, cl, kind, pat=b""):
        return "p:%s:%d:%s:%s" % (nat, cl, kind, hx(pat) if kind == "s" else "x")
    for al, pr in SEQ_CFGS:
        ps = pats_around(al, pr)
        rej = [p for p in ps if not judged_superset(new_matcher(p), new_matcher(al))]
        acc = [p for p in ps if judged_superset(new_matcher(p), new_matcher(al))]
        for r in rej[:3]:
            for a in acc[:2]:
                # a rejected poll must not be there when a client comes; an admitted one must
                add(al, pr, [poll("u", 8, "s", r), "c:k", poll("u", 0, "s", a), poll("r", 16, "s", r), "c:k", "c:u", "c:k"],
                    "gate-rejected-then-client")
                add(al, pr, [poll("r", 8, "s", a), poll("r", 0, "l"), poll("r", 24, "n"), poll("r", 16, "s", r), "c:u", "c:u", "c:u", "c:u"],
                    "gate-mixed-polls-then-clients")
    for _ in range(120 if not thorough else 2500):
        if rng.random() < 0.6:
            al, pr = rng.choice(SEQ_CFGS)
        else:
            h = rand_host(rng)
            al, pr = rule_from(rng, h), rule_from(rng, h)
        h = new_matcher(al)[1] or b"a.b"
        pool = pats_around(al, pr) + [p for p in (rule_from(rng, h) for _ in range(2)) if utf8_ok(p)]
        counts = rng.sample(range(0, 64), 12)
        evs = []
        for _ in range(rng.randrange(3, 11)):
            if evs and rng.random() < 0.35:
                evs.append("c:" + rng.choice("uurk"))
            else:
                evs.append(poll(rng.choice("uurk"), counts.pop(), rng.choice("sssssllln"), rng.choice(pool)))
        add(al, pr, evs, "gate-random-history")
    return lines, kinds


VERSIONS = ["1.0", "1.1", "1.2", "1.3", "1.2.1", "1.2.x", "1", "1.10", "1.03", "1.", None, "", "2.0", "1x", ".1", "0.3"]


def jstr(b):
    return json.dumps(b.decode("utf-8") if isinstance(b, bytes) else b, ensure_ascii=False)


def poll_body(sid, version, field, nat="unknown", clients=0, typ="standalone", order=None, key="AcceptedRelayPattern"):
    """field: None = absent, "null", or bytes"""
    ents = [("Sid", jstr(sid))]
    if version is not None:
        ents.append(("Version", jstr(version)))
    ents += [("Type", jstr(typ)), ("NAT", jstr(nat)), ("Clients", str(clients))]
    if field is not None:
        ents.append((key, "null" if field == "null" else jstr(field)))
    if order == "field-first":
        ents = ents[-1:] + ents[:-1]
    return ("{" + ",".join(json.dumps(k) + ":" + v for k, v in ents) + "}").encode("utf-8")


NATNAME = {"u": "unrestricted", "r": "restricted", "k": "unknown"}
PROXY_TYPES = ["standalone", "webext", "badge", "iptproxy", "", "someembedder", "WebExt", "webext ", None]   # None = no Type member


def gen_bseq(ctx):
    """histories for ONE broker context through the wire decoder -> list of (allowed, presumed, [event specs], kind);
    event spec: ("b", body bytes) | ("i", allowed, presumed) | ("c", nat)"""
    rng, thorough = ctx.rng, ctx.tier == "thorough"
    out = []
    G_ = b"snowflake.torproject.net$"
    cfgs = [(G_, G_), (G_, b"torproject.net$"), (G_, b"snowflake.bamsoftware.com$"), (G_, b"^snowflake.torproject.net$"),
            (b"^snowflake.torproject.net$", b"snowflake.torproject.net$"), (b"^snowflake.torproject.net$", b"^02.snowflake.torproject.net$")]
    # (a) every combination of announced version x state of the field x presumed pattern covering or not
    for al, pr in cfgs if thorough else cfgs[:4] + [rng.choice(cfgs[4:])]:
        suf = new_matcher(al)[1]
        sup, nonsup = (b"net$" if not new_matcher(al)[0] else al), b"x" + suf + b"$"
        for ver in VERSIONS:
            fields_ = [None, "null", b"", sup, nonsup, al]
            rng.shuffle(fields_)
            evs, counts = [], rng.sample(range(0, 64), len(fields_))
            for j, f in enumerate(fields_):
                nat = rng.choice("uurk")
                evs.append(("b", poll_body("s%d" % (j + 1), ver, f, nat=NATNAME[nat], clients=counts[j])))
            evs += [("c", "k"), ("c", "u"), ("c", "k"), ("c", "u")]
            out.append((al, pr, evs, "bseq-version-x-field-x-presumed"))
    # (b) other shapes of the same request on the wire
    al, pr = G_, b"torproject.net$"
    non = b"x" + G_
    def raw(t):
        return t.encode("utf-8") if isinstance(t, str) else t
    shapes = [
        poll_body("s1", "1.2", non, key="acceptedrelaypattern"),
        poll_body("s1", "1.2", non, key="ACCEPTEDRELAYPATTERN"),
        poll_body("s1", "1.0", non, order="field-first"),
        raw('{"Sid":"s1","Version":"1.2","AcceptedRelayPattern":%s,"AcceptedRelayPattern":null}' % jstr(non)),
        raw('{"Sid":"s1","Version":"1.2","AcceptedRelayPattern":null,"AcceptedRelayPattern":%s}' % jstr(non)),
        raw('{"Sid":"s1","Version":"1.2","AcceptedRelayPattern":"net$","acceptedrelaypattern":%s}' % jstr(non)),
        raw('{"Sid":"s1","Version":"1.3","AcceptedRelayPattern":%s,"Version":"1.0"}' % jstr(non)),
        raw('{"Sid":"s1","Version":"1.0","AcceptedRelayPattern":%s,"Version":"1.3"}' % jstr(non)),
        raw('{"Sid":"s1","Version":1.2,"AcceptedRelayPattern":%s}' % jstr(non)),
        raw('{"Sid":"s1","Version":"1.2","AcceptedRelayPattern":7}'),
        raw('{"Sid":"s1","Version":"1.2","AcceptedRelayPattern":[%s]}' % jstr(non)),
        raw('{"Sid":"s1","Version":"1.2","AcceptedRelayPattern":{"x":%s}}' % jstr(non)),
        raw(' {\n"Sid" : "s1" ,\t"Version":"1.1", "Extra":{"AcceptedRelayPattern":"net$"}, "AcceptedRelayPattern" : %s } ' % jstr(non)),
        raw('{"Sid":"s1","Version":"1.2","\\u0041cceptedRelayPattern":%s}' % jstr(non)),
        raw('{"Sid":"s1","Version":"1.2","AcceptedRelayPattern":"\\u0078%s"}' % G_.decode()),
        raw('{"Sid":"s1","Version":"1.2","AcceptedRelayPattern":%s' % jstr(non)),
        raw('{"Sid":"","Version":"1.2","AcceptedRelayPattern":"net$"}'),
        raw('{"Sid":"s1","Version":"1.2","NAT":"weird","AcceptedRelayPattern":"net$"}'),
        raw('null'), raw('[]'), raw(''), raw('{}'),
        poll_body("s1", "1.2", non, typ="webext"), poll_body("s1", "1.2", non, typ="someembedder"),
    ]
    for b in shapes:
        good = poll_body("s2", "1.3", b"net$", clients=8)
        out.append((al, pr, [("b", b), ("c", "k"), ("b", good), ("b", b.replace(b'"s1"', b'"s3"')), ("c", "k"), ("c", "k")], "bseq-wire-shapes"))
    # (b') the announced proxy Type x legacy / pattern-carrying x presumed pattern covering or not: the verdict must
    # not depend on the type (messages.KnownProxyTypes, the empty string, an unknown name, no Type member at all)
    for al, pr in cfgs if thorough else cfgs[:4] + [rng.choice(cfgs[4:])]:
        suf = new_matcher(al)[1]
        sup, nonsup = (b"net$" if not new_matcher(al)[0] else al), b"x" + suf + b"$"
        for mode in ("legacy", "pattern-nonsuperset", "pattern-superset"):
            types = list(PROXY_TYPES)
            rng.shuffle(types)
            counts = rng.sample(range(0, 64), len(types))
            evs = []
            for j, ty in enumerate(types):
                f = {"legacy": rng.choice([None, None, "null"]), "pattern-nonsuperset": nonsup, "pattern-superset": rng.choice([sup, al])}[mode]
                ver = rng.choice(["1.0", "1.1", "1.2", "1.3"]) if mode == "legacy" else rng.choice(["1.2", "1.3", "1.0"])
                b = poll_body("s%d" % (j + 1), ver, f, nat=NATNAME[rng.choice("uurk")], clients=counts[j], typ=ty if ty is not None else "standalone")
                if ty is None:
                    b = b.replace(b'"Type":"standalone",', b"")
                evs.append(("b", b))
            evs += [("c", rng.choice("ku")) for _ in range(4)]
            out.append((al, pr, evs, "bseq-proxy-type-x-" + mode))
    # (c) random histories with re-installations
    for _ in range(60 if not thorough else 1500):
        al, pr = rng.choice(cfgs)
        suf = new_matcher(al)[1]
        pool = [None, "null", b"", b"net$", b"x" + suf + b"$", al, pr, b"$", b"^$"]
        counts = rng.sample(range(0, 64), 12)
        evs = []
        for j in range(rng.randrange(3, 10)):
            r = rng.random()
            if evs and r < 0.3:
                evs.append(("c", rng.choice("uurk")))
            elif evs and r < 0.4:
                nal, npr = rng.choice([(pr, al), (al, b"x" + pr), (al, b"$"), (al, pr)])
                evs.append(("i", nal, npr))
            else:
                nat = rng.choice("uurk")
                evs.append(("b", poll_body("s%d" % (j + 1), rng.choice(VERSIONS[:6] + [rng.choice(VERSIONS)]), rng.choice(pool),
                                           nat=NATNAME[nat], clients=counts.pop())))
        out.append((al, pr, evs, "bseq-random-history" + ("-with-reinstall" if any(e[0] == "i" for e in evs) else "")))
    return out


def bseq_lines(exe_msg, specs):
    """phase 1: the JSON value Go's parser sees in every body (driver zz_verif/messages op gen), then the case lines"""
    bodies = sorted({e[1] for _, _, evs, _ in specs for e in evs if e[0] == "b"})
    rc, jv, err = vlib.run_impl(exe_msg, ["messages gen " + hx(b) for b in bodies])
    if rc != 0 or len(jv) != len(bodies):
        raise RuntimeError("messages driver failed in the generic parse: " + err[-300:])
    jv_of = {b: ("!" if j.startswith("!") else j) for b, j in zip(bodies, jv)}
    lines, kinds = [], []
    for al, pr, evs, kind in specs:
        toks = []
        for e in evs:
            if e[0] == "b":
                toks.append("b:%s:%s" % (hx(e[1]), jv_of[e[1]]))
            elif e[0] == "i":
                toks.append("i:%s:%s" % (hx(e[1]), hx(e[2])))
            else:
                toks.append("c:" + e[1])
        lines.append("%s bseq %s %s %s" % (AREA, hx(al), hx(pr), ",".join(toks)))
        kinds.append(kind)
    return lines, kinds


# (how Start() is made to return [-ProxyType], RelayURL, BrokerURL, NATProbeURL, STUNURL) as the operator gives them; b"" = not given
SESS_CONFIGS = [("s", b"", b"", b"", b""), ("p", b"", b"", b"", b""),
                ("p-webext", b"wss://relay.example.net/", b"https://broker.example.net/", b"https://probe.example.net:8443/probe",
                 b"stun:stun.example.net:3478"),
                ("s-iptproxy", b"wss://" + CONFIGURED_HOST + b"/", b"", b"", b""),
                ("p", b"ws://127.0.0.1:8080/", b"https://broker.example.net/", b"", b"")]


def host_of(u):
    h = u.split(b"://", 1)[-1].split(b"/", 1)[0]
    return h.rsplit(b":", 1)[0] if b":" in h else h


def gen_sess(ctx, effective):
    """sessions of ONE proxy configured through Start() -> list of (config index, pattern, allow, [raw relay URLs], kind).
    effective[i] = (RelayURL, BrokerURL, NATProbeURL, STUNURL) as Start() leaves them for SESS_CONFIGS[i]"""
    rng, thorough = ctx.rng, ctx.tier == "thorough"
    out = []
    pool_all = url_pool()
    for ci, eff in enumerate(effective):
        relay, brk, probe, stun = eff
        rh = host_of(relay)
        pats = dedupe([b"snowflake.torproject.net$", b"^" + rh + b"$", b"$", rh.split(b".", 1)[-1] + b"$", b"^$", b"torproject.net$"])
        if not thorough:
            pats = pats[:3] + [rng.choice(pats[3:])]
        scheme = relay.split(b":", 1)[0]
        other = b"ws" if scheme == b"wss" else b"wss"
        eq = [relay, brk, probe, stun]
        near = [relay + b"x", relay[:-1], other + relay[len(scheme):], relay + b"?a=1", relay.replace(rh, b"x" + rh), relay.replace(rh, rh + b".evil.com"),
                scheme.upper() + relay[len(scheme):], relay.replace(rh, rh.upper()), b"wss://" + host_of(brk) + b"/", b"ws://" + rh + b"/", b"wss://" + rh + b"/other"]
        std = [b"", b"wss://" + G + b"/", b"ws://" + G + b"/", b"wss://evil.com/", b"%zz", b"wss://u@" + G + b"/"]
        for pat in pats:
            for allow in "01":
                # a broker-supplied URL equal to / close to each configured string, alone and after one another
                us = eq + near + std
                rng.shuffle(us)
                out.append((ci, pat, allow, us, "sess-url-equal-to-configured-string"))
                out.append((ci, pat, allow, [relay, b"", relay], "sess-url-equal-to-configured-string"))
        for _ in range(6 if not thorough else 80):
            pat = rng.choice(pats + URL_PATTERNS[:4])
            cand = eq + near + std + offers_around(pat) + [rng.choice(pool_all), mutate(rng, rng.choice(eq[:1] + near))]
            out.append((ci, pat, rng.choice("001"), [rng.choice(cand) for _ in range(rng.randrange(3, 8))], "sess-random-history"))
    # the adversarial pool once under a Start()-made configuration
    for u in pool_all:
        ci = rng.randrange(len(effective))
        out.append((ci, rng.choice(URL_PATTERNS[:5]), rng.choice("01"), [u], "sess-pool"))
    return out


# ---------------------------------------------------------------- the proxy binary: main()'s flag -> configuration wiring
# One process per command line: the real main() runs in-process in the test binary of ./proxy against a stub broker
# (harness/overlay/proxy/zz_verif_c06_main_test.go).  The poll interval of the proxy is 5 s, so a case takes 10-15 s of
# wall time and next to no CPU: all cases are started together at the beginning of run() and collected at its end.

MAIN_TEST_ARGS = ["-test.run", "^TestVerifC06Main$"]
MAIN_DEFAULT_PATTERN = b"snowflake.torproject.net$"
MAIN_DEFAULT_RELAY = b"wss://snowflake.bamsoftware.com/"
MAIN_DEADLINE = 150


def main_inside(pat):
    """a host name inside a (valid) pattern"""
    m = new_matcher(pat)
    return m[1] if m[0] else (b"01." + m[1] if m[1] and not m[1].startswith(b".") else b"relay01" + m[1])


def gen_main(ctx):
    """-> list of dict(relay, pattern, allow (None | '' | '=true' | '=false'), extras [str], broker_path, offers [bytes], kind)"""
    rng, thorough = ctx.rng, ctx.tier == "thorough"
    out = []

    def offers_for(relay, pattern):
        pat = pattern if pattern is not None else MAIN_DEFAULT_PATTERN
        inside, outside = main_inside(pat), b"relay.evil.example"
        first = b"ws://" + inside + rng.choice([b"/", b":8080/x"])
        if relay is not None and relay.startswith(b"ws://") and member(new_matcher(pat), host_of(relay)) and rng.random() < 0.7:
            first = relay            # the broker hands back the operator's own plain-WebSocket relay
        second = rng.choice([b"wss://" + outside + b"/", b"wss://" + outside + b"/", b"ws://" + outside + b"/", b"wss://" + inside + b".evil.example/"])
        if relay and relay != b"%zz" and not member(new_matcher(pat), host_of(relay)) and rng.random() < 0.6:
            second = b"wss://" + relay.split(b"://", 1)[1]      # the operator's own relay host, outside the pattern: judged like any other
        return [first, second, b"wss://" + inside + b"/"]

    def case(relay, pattern, allow, kind, extras=None, offers=None, broker_path="/"):
        out.append(dict(relay=relay, pattern=pattern, allow=allow, extras=extras or [], broker_path=broker_path,
                        offers=offers if offers is not None else offers_for(relay, pattern), kind=kind))

    relays = [None, b"wss://relay.example.net/", b"ws://127.0.0.1:9/"]
    patterns = [None, rng.choice([b"^relay.example.net$", b"example.net$", b"$"])]
    for relay in relays:
        for allow in (None, ""):
            for pattern in patterns:
                case(relay, pattern, allow, "main-grid-relay-%s" % ("absent" if relay is None else relay.split(b":")[0].decode()))
    # the operator's own ws:// relay inside the pattern, handed back by the broker
    case(b"ws://snowflake.torproject.net:8080/", None, None, "main-own-ws-relay-inside-pattern")
    case(b"ws://bridge.example.net/", b"example.net$", rng.choice([None, "=false"]), "main-own-ws-relay-inside-pattern")
    # command lines main() must refuse (Start() returns a configuration error)
    case(None, b"snowflake.torproject.net", None, "main-fatal", offers=[])
    case(None, b"", "", "main-fatal", offers=[])
    case(b"%zz", None, None, "main-fatal", offers=[])
    # the empty relay URL from the broker: the session proceeds (the operator's relay would be dialled)
    case(rng.choice(relays), None, None, "main-empty-relay-url", offers=[b"", b"ws://" + main_inside(MAIN_DEFAULT_PATTERN) + b"/"])
    extra_pool = [["-capacity", "1"], ["-capacity", "3"], ["-keep-local-addresses"], ["-unsafe-logging"], ["-verbose"], ["-summary-interval", "2h"],
                  ["-nat-retest-interval", "0s"], ["-nat-retest-interval", "12h"], ["-unsafe-logging", "-verbose"], ["-relay", ""]]
    for _ in range(5 if not thorough else 40):
        ex = [x for e in rng.sample(extra_pool, rng.randrange(1, 4)) for x in e]
        relay = rng.choice(relays + [b"ws://snowflake.torproject.net/", b"wss://snowflake.torproject.net/", b"ws://relay.example.net:80/"])
        if "-relay" in ex:
            relay = b""
            ex = [x for x in ex if x not in ("-relay", "")]
        case(relay, rng.choice([None, None, b"torproject.net$", b"^snowflake.torproject.net$", b"example.net$"]),
             rng.choice([None, None, "", "=true", "=false"]), "main-random-flags", extras=ex, broker_path=rng.choice(["/", "/", "/b/", "/deep/er/"]))
    return out


def main_args(c):
    args = []
    if c["relay"] is not None:
        args += ["-relay", c["relay"].decode()]
    if c["allow"] is not None:
        args += ["-allow-non-tls-relay" + c["allow"]]
    if c["pattern"] is not None:
        args += ["-allowed-relay-hostname-pattern", c["pattern"].decode()]
    return args + list(c["extras"]) + ["-stun", "stun:stun.invalid:3478"]


def main_allow(c):
    return c["allow"] in ("", "=true")


def main_shown(c):
    return "proxy " + " ".join(a if a else "''" for a in main_args(c)) + " -broker <stub>" + c["broker_path"]


def main_start(exe, cases):
    import subprocess
    import tempfile
    procs = []
    for c in cases:
        spec = json.dumps(dict(args=main_args(c), broker_path=c["broker_path"], offers=[o.decode() for o in c["offers"]], deadline_s=MAIN_DEADLINE))
        so, se = tempfile.TemporaryFile(), tempfile.TemporaryFile()
        p = subprocess.Popen([exe] + MAIN_TEST_ARGS, stdin=subprocess.DEVNULL, stdout=so, stderr=se, cwd=tempfile.gettempdir(),
                             env=dict(os.environ, VERIF_C06_MAIN=spec))
        procs.append((p, so, se))
    return procs


def main_collect(procs):
    """-> per case: 'fatal' | 'pattern=.. path=.. res=..' | '!...'"""
    res = []
    t_end = time.time() + MAIN_DEADLINE + 60
    for p, so, se in procs:
        try:
            p.wait(timeout=max(1, t_end - time.time()))
        except Exception:
            p.kill()
            p.wait()
        so.seek(0)
        se.seek(0)
        out, err = so.read().decode("utf-8", "replace"), se.read().decode("utf-8", "replace")
        so.close()
        se.close()
        line = [l for l in out.split("\n") if l.startswith("@@c06main ")]
        if line:
            res.append(line[-1][len("@@c06main "):].strip())
        elif p.returncode == 1 and "panic" not in err and "panic" not in out:
            res.append("fatal")
        else:
            res.append("!died rc=%s %s" % (p.returncode, (err or out)[-300:].replace("\n", " ")))
    return res


def main_line(c, tok):
    relay = "n" if c["relay"] is None else tok[c["relay"]]
    pat = "n" if c["pattern"] is None else hx(c["pattern"])
    return "%s mainrun %s %s %s %s %s" % (AREA, relay, pat, "1" if main_allow(c) else "0", hx(" ".join(c["extras"]).encode()),
                                          ",".join(tok[o] for o in c["offers"]) or "-")


def main_facts_needed(c, tok):
    pat = hx(c["pattern"] if c["pattern"] is not None else MAIN_DEFAULT_PATTERN)
    return [(pat, pat, tok[o].split(";")[3]) for o in c["offers"] if tok[o].split(";")[1] == "P"]


def main_prop(c, tok, impl):
    """the property on what the process did -> None or (message, key)"""
    shown = main_shown(c)
    pattern = c["pattern"] if c["pattern"] is not None else MAIN_DEFAULT_PATTERN
    relay = c["relay"] if c["relay"] else MAIN_DEFAULT_RELAY
    must_fatal = not pattern.endswith(b"$") or tok[relay].split(";")[1] == "E"
    if impl.startswith("!"):
        return None
    if impl == "fatal":
        return None if must_fatal else ("`%s`: main() ended in log.Fatal although the command line is well formed" % shown, "proxy-main-config")
    if must_fatal:
        return ("`%s`: main() went on to poll although %s" % (shown, "the pattern does not end in $" if not pattern.endswith(b"$") else "the -relay URL does not parse"),
                "proxy-main-config")
    f = fields(impl)
    res = f.get("res", "").split(",") if f.get("res") else []
    if len(res) != len(c["offers"]) or any(r not in ("proceed", "refuse") for r in res):
        return ("`%s`: %d sessions answered with: %s" % (shown, len(c["offers"]), impl[:200]), "proxy-main-config")
    allow = main_allow(c)
    late = None
    for o, r in zip(c["offers"], res):
        t = tok[o].split(";")
        if t[1] == "E":
            ok = False
        elif o == b"":
            ok = True
        else:
            scheme = unhx(t[2])
            ok = impl_member(hx(pattern), t[3]) and (allow or scheme == b"wss")
        if r == "proceed" and not ok:
            why = ("its scheme is %r and -allow-non-tls-relay was not given" % unhx(t[2]).decode() if t[1] == "P" and impl_member(hx(pattern), t[3])
                   else "its host is outside the pattern %r" % pattern if t[1] == "P" else "it does not parse")
            return ("`%s`: the session for the broker-supplied relay URL %r proceeds although %s" % (shown, o, why), "proxy-relay-url")
        if r == "refuse" and ok and late is None:
            late = ("`%s`: the session for the broker-supplied relay URL %r is refused although its host is inside the pattern %r and %s"
                    % (shown, o, pattern, "-allow-non-tls-relay was given" if allow else "its scheme is wss"), "proxy-main-config")
    if f.get("pattern") != hx(pattern):
        return ("`%s`: the polls announce the relay pattern %r, the command line says %r"
                % (shown, unhx(f["pattern"]) if f.get("pattern", "n") != "n" else None, pattern), "proxy-main-config")
    if unhx(f.get("path", "x")) != (c["broker_path"] + "proxy").encode():
        return ("`%s`: the polls go to %r" % (shown, unhx(f.get("path", "x"))), "proxy-main-config")
    return late


def main_strip(impl):
    return " ".join(t for t in impl.split(" ") if not t.startswith("path="))


def run_main(ctx, exe_nm, cases, procs):
    raws = sorted({o for c in cases for o in c["offers"]} | {c["relay"] for c in cases if c["relay"] is not None} | {MAIN_DEFAULT_RELAY})
    rc, parsed, err = vlib.run_impl(exe_nm, ["%s urlparse %s" % (AREA, hx(u)) for u in raws])
    if rc != 0 or len(parsed) != len(raws):
        raise RuntimeError("urlparse driver failed: " + err[-300:])
    tok = {u: p.replace(" ", ";") for u, p in zip(raws, parsed)}
    ensure_facts(exe_nm, [t for c in cases for t in main_facts_needed(c, tok)])
    impl = main_collect(procs)
    lines = [main_line(c, tok) for c in cases]
    model = vlib.run_model(lines)
    ndis = 0
    for c, l, m, r in zip(cases, lines, model, impl):
        ctx.count(l + " " + main_shown(c), kind=c["kind"])
        if m == "!badcase":
            raise RuntimeError("model rejected case line: " + l[:200])
        bad = main_prop(c, tok, r)
        rp = dict(label="proxy-main", case=l, main=dict(relay=None if c["relay"] is None else c["relay"].decode(), pattern=None if c["pattern"] is None else c["pattern"].decode(),
                                                         allow=c["allow"], extras=c["extras"], broker_path=c["broker_path"], offers=[o.decode() for o in c["offers"]], kind=c["kind"]),
                  impl=r[:2000], model=m)
        if bad:
            ctx.violation(bad[1], bad[0], rp)
        elif main_strip(r) != m:
            ndis += 1
            if ndis <= 5:
                ctx.not_shown("correspondence proxy-main: model and implementation disagree on `%s` (%s): model=%s impl=%s; "
                              "the property predicate found no failure on it" % (main_shown(c), l[:300], m[:200], r[:300]))
    short = [(l, m) for l, m in zip(lines, model) if len(l) < 600]
    bad = vlib.coq_crosscheck(short[:10])
    ctx.extra["vm_compute_crosschecked"] = ctx.extra.get("vm_compute_crosschecked", 0) + len(short[:10])
    for i in bad:
        ctx.not_shown("extraction cross-check: vm_compute and extracted runner differ on `%s`" % short[i][0][:300])
    ctx.extra["proxy_main_processes"] = len(cases)
    ctx.extra["proxy_main_sessions"] = sum(len(c["offers"]) for c in cases)


def stage(ctx, name):
    now = time.time()
    last = ctx.extra.get("_t")
    if last is not None:
        ctx.extra.setdefault("stage_seconds", {})[last[0]] = round(now - last[1], 1)
    ctx.extra["_t"] = (name, now)


def run(ctx):
    os.environ["VERIF_DRIVER"] = "1"
    stage(ctx, "build")
    ctx.assumptions += [
        "models = coq/Model/NameMatcher.v, coq/Model/RelayCheck.v (hand written); tie = correspondence on generated cases",
        "url.Parse / URL.Hostname / encoding/json are library boundaries: the scheme and hostname of each relay URL are "
        "computed by the Go library (driver op urlparse) and handed to the model; the proxy driver re-checks them",
        "the websocket dial is observed at gorilla's Dialer.Proxy callback (scheme+host of the request about to be sent) and aborted there",
        "'never gives a rejected proxy a client' is covered here for sequential histories (poll -> client offer, repeated "
        "on one broker context: ops pollseq); all concurrent histories belong to the broker interleaving model (C02-C04)",
        "histories: one long-lived BrokerContext per pollseq line (polls of all kinds and InstallBridgeListProfile "
        "re-installations in sequence) and one long-lived SnowflakeProxy per urlseq/urlseqfull line (one session per "
        "broker-supplied relay URL); every answer is compared with the model's history-free decision for that request alone"]
    ctx.trusted.append("scripted broker RoundTripper and pion client in harness/overlay/proxy/lib/zz_verif_c06_test.go; "
                       "poll/offer/answer choreography in harness/overlay/broker/zz_verif_c06_test.go")
    ctx.trusted.append("HTTP stub broker in harness/overlay/proxy/zz_verif_c06_main_test.go (the real main() of ./proxy run in-process, one "
                       "process per command line; a session counts as accepted when the proxy POSTs its answer before its next poll)")
    ctx.assumptions.append("proxy main(): -broker (the stub) and -stun (an unresolvable host) are always given by the harness; NATProbeURL has no "
                           "flag; the observation is the session decision (answer sent or not), the pattern announced in the polls, and exit by log.Fatal")
    # (i) exported namematcher API
    exe_nm = vlib.go_build("./zz_verif/namematcher")
    lines, kinds = gen_matcher(ctx)
    stage(ctx, "namematcher-api")
    ctx.correspond(exe_nm, lines, kinds, label="namematcher-api", prop=prop, key_of=key_of)
    stage(ctx, "build-broker-proxy")
    # (ii) broker decision through IPC.ProxyPolls
    exe_br = vlib.go_test_build("./broker")
    exe_px = vlib.go_test_build("./proxy/lib")
    EXES.update(nm=exe_nm, br=exe_br, px=exe_px)
    # the proxy binary's main(), one process per command line: started now, collected at the end (they mostly wait)
    main_cases, main_procs = gen_main(ctx), None
    try:
        exe_main = vlib.go_test_build("./proxy", name="c06_main.test")
        main_procs = main_start(exe_main, main_cases)
    except vlib.GoBuildError as e:
        ctx.not_shown("proxy main(): the overlay test of package main (./proxy) does not build: %s" % str(e)[-400:])
    lines, kinds = gen_poll(ctx)
    stage(ctx, "broker-proxypolls")
    ensure_facts(exe_nm, [t for l in lines for t in facts_needed(l)])
    ctx.correspond(exe_br, lines, kinds, label="broker-proxypolls", prop=prop, key_of=key_of, impl_args=TEST_ARGS)
    # (ii') histories on one broker context
    lines, kinds = gen_pollseq(ctx)
    stage(ctx, "broker-proxypolls-history")
    ensure_facts(exe_nm, [t for l in lines for t in facts_needed(l)])
    ctx.correspond(exe_br, lines, kinds, label="broker-proxypolls-history", prop=prop, key_of=key_of, impl_args=TEST_ARGS)
    ctx.extra["broker_polls_in_histories"] = sum(1 for l in lines for e in l.split(" ")[4].split(",") if e[0] != "c")
    # (ii'') the gated matching machine: polls stay registered while client offers arrive (grun), and the same through
    # the wire decoder with the counters and re-installations (brun)
    lines, kinds = gen_gate(ctx)
    stage(ctx, "broker-gate-history")
    ensure_facts(exe_nm, [t for l in lines for t in facts_needed(l)])
    ctx.correspond(exe_br, lines, kinds, label="broker-gate-history", prop=prop, key_of=key_of, impl_args=TEST_ARGS)
    stage(ctx, "broker-wire-history")
    exe_msg = vlib.go_build("./zz_verif/messages")
    lines, kinds = bseq_lines(exe_msg, gen_bseq(ctx))
    ensure_facts(exe_nm, [t for l in lines for t in facts_needed(l)])
    ctx.correspond(exe_br, lines, kinds, label="broker-wire-history", prop=prop, key_of=key_of, impl_args=TEST_ARGS)
    ctx.extra["broker_polls_through_wire_decoder"] = sum(1 for l in lines for e in l.split(" ")[4].split(",") if e[0] == "b")
    # (iii) proxy decision: library boundary first, then runSession / datachannelHandler
    stage(ctx, "proxy-dial")
    urls = gen_urls(ctx)
    seqs = gen_urlseq(ctx)
    seq_raws = sorted({u for _, _, _, us, _ in seqs for u in us})
    rc, parsed, err = vlib.run_impl(exe_nm, ["%s urlparse %s" % (AREA, hx(u)) for u in [x for x, _, _ in urls] + seq_raws])
    if rc != 0 or len(parsed) != len(urls) + len(seq_raws):
        raise RuntimeError("urlparse driver failed: " + err[-300:])
    offer_of = {u: p.replace(" ", ";") for u, p in zip(seq_raws, parsed[len(urls):])}       # "<raw>;E" | "<raw>;P;<scheme>;<host>"
    parsed = parsed[:len(urls)]
    hcheap, hckinds, hfull, hfkinds = [], [], [], []
    for op, pat, allow, us, kind in seqs:
        l = "%s %s %s %s %s" % (AREA, op, hx(pat), allow, ",".join(offer_of[u] for u in us))
        (hfull if op == "urlseqfull" else hcheap).append(l)
        (hfkinds if op == "urlseqfull" else hckinds).append(kind)
    cheap, ckinds, full, fkinds = [], [], [], []
    rng = ctx.rng
    for (u, ukind, pats), p in zip(urls, parsed):
        raw, rest = p.split(" ", 1)
        kind = "relay-url-" + ukind + ("-unparsable" if rest == "E" else "")
        for pat in pats:
            for allow in "01":
                args = "%s %s %s %s" % (hx(pat), allow, raw, rest)
                full.append("%s urlfull %s" % (AREA, args)); fkinds.append(kind + "-dial-monitored")
                if ctx.tier == "thorough" and rng.random() < 0.25:
                    cheap.append("%s url %s" % (AREA, args)); ckinds.append(kind)
    ensure_facts(exe_nm, [t for l in cheap + full for t in facts_needed(l)])
    if cheap:       # decision only (no data channel): thorough tier; every case is also run with the dial monitor below
        ctx.correspond(exe_px, cheap, ckinds, label="proxy-runSession", prop=prop, key_of=key_of, impl_args=TEST_ARGS)
    correspond_full(ctx, exe_px, exe_nm, full, fkinds)
    # (iii') histories on one proxy
    stage(ctx, "proxy-histories")
    ensure_facts(exe_nm, [t for l in hcheap + hfull for t in facts_needed(l)])
    ctx.correspond(exe_px, hcheap, hckinds, label="proxy-runSession-history", prop=prop, key_of=key_of, impl_args=TEST_ARGS)
    correspond_full(ctx, exe_px, exe_nm, hfull, hfkinds, label="proxy-dial-history")
    ctx.extra["proxy_sessions_in_histories"] = sum(len(l.split(" ")[4].split(",")) for l in hcheap + hfull)
    # (iii'') one proxy configured through the real Start(), end to end: relay URL string -> check -> dial target
    stage(ctx, "proxy-started-session")
    run_sess(ctx, exe_px, exe_nm)
    stage(ctx, "proxy-main")
    if main_procs is not None:
        run_main(ctx, exe_nm, main_cases, main_procs)
    stage(ctx, "end")
    del ctx.extra["_t"]


def run_sess(ctx, exe_px, exe_nm):
    rc, eff, err = vlib.run_impl(exe_px, ["%s startcfg %s %s" % (AREA, c[0], " ".join(hx(x) for x in c[1:])) for c in SESS_CONFIGS],
                                 args=TEST_ARGS)
    if rc != 0 or len(eff) != len(SESS_CONFIGS) or any(len(e.split(" ")) != 5 or not e.startswith("x") for e in eff):
        ctx.violation("proxy-start-irregular", "SnowflakeProxy.Start() did not return its configuration error after applying "
                      "the defaults: %s %s" % (eff[:3], err[-300:]), dict(label="proxy-start", case=None))
        return
    effective = [tuple(unhx(t) for t in e.split(" ")[:4]) for e in eff]
    specs = gen_sess(ctx, effective)
    raws = sorted({u for _, _, _, us, _ in specs for u in us} | {e[0] for e in effective})
    rc, parsed, err = vlib.run_impl(exe_nm, ["%s urlparse2 %s" % (AREA, hx(u)) for u in raws])
    if rc != 0 or len(parsed) != len(raws):
        raise RuntimeError("urlparse2 driver failed: " + err[-300:])
    tok = dict(zip(raws, parsed))
    lines, kinds = [], []
    for ci, pat, allow, us, kind in specs:
        us = [u for u in us if not unhx(tok[u].split(";")[0]).startswith(b"\x00")]
        if not us:
            continue
        c, e = SESS_CONFIGS[ci], effective[ci]
        lines.append("%s sess %s %s %s %s %s %s %s" % (AREA, c[0], " ".join(hx(x) for x in c[1:]), hx(pat), allow,
                                                        tok[e[0]], " ".join(hx(x) for x in e[1:]), ",".join(tok[u] for u in us)))
        kinds.append(kind)
    ensure_facts(exe_nm, [t for l in lines for t in facts_needed(l)])
    correspond_full(ctx, exe_px, exe_nm, lines, kinds, label="proxy-started-session", agree=sess_agree, dialled=sess_dialled, maxlen=3000)
    ctx.extra["proxy_sessions_after_start"] = sum(len(l.split(" ")[13].split(",")) for l in lines)


def full_class(impl):
    """projection of the urlfull observation onto the model's three-way decision (None = not determined)"""
    toks = impl.split(" ")
    if toks[0] == "refuse":
        return "refuse"
    f = fields(impl)
    d = f.get("dial", "none")
    if d == "none":
        return None           # session proceeded, the websocket library itself declined the URL
    hosts = {unhx(x.split(",")[1]) for x in d.split(";")}
    return "proceed:configured" if hosts == {CONFIGURED_HOST} else "proceed:broker"


def dialled_hosts(line, impl):
    if line.split(" ")[1] == "urlseqfull":
        return [t for r in impl.split(" | ") for t in dialled_hosts("%s urlfull %s" % (AREA, line.split(" ")[2]), r)]
    d = fields(impl).get("dial", "none")
    if d == "none" or "," not in d:
        return []
    return [(line.split(" ")[2], line.split(" ")[2], x.split(",")[1]) for x in d.split(";")]


def full_agrees(m, r):
    c = full_class(r)
    ok = (c == m) if c is not None else m.startswith("proceed")
    return ok and " dial=" in r


def correspond_full(ctx, exe, exe_nm, lines, kinds, label="proxy-dial", agree=None, dialled=None, maxlen=400):
    model = vlib.run_model(lines)
    rc, impl, err = vlib.run_impl(exe, lines, args=TEST_ARGS)
    ensure_facts(exe_nm, [t for l, r in zip(lines, impl) for t in (dialled or dialled_hosts)(l, r)])
    if rc != 0 or len(impl) != len(lines):
        idx = len(impl)
        ctx.violation("driver-crash", "implementation driver died (rc=%s) at case %d: %s" % (rc, idx, err[-600:]),
                      dict(label=label, case=lines[idx] if idx < len(lines) else None, stderr=err[-2000:]))
        impl = impl + ["!died"] * (len(lines) - len(impl))
    ndis = 0
    for l, k, m, r in zip(lines, kinds, model, impl):
        ctx.count(l, kind=k)
        if m == "!badcase":
            raise RuntimeError("model rejected case line: " + l[:200])
        bad = prop(l, r, m)
        if bad:
            ctx.violation(key_of(l, r, m), bad, dict(label=label, case=l[:20000], impl=r[:4000], model=m[:4000]))
            continue
        if agree is not None:
            ok = agree(l, m, r)
        elif l.split(" ")[1] == "urlseqfull":       # prop() has checked that the answers align with the requests
            ok = all(full_agrees(sm, sr) for _, sr, sm, _ in seq_steps(l, r, m))
        else:
            ok = full_agrees(m, r)
        if not ok:
            ndis += 1
            if ndis <= 5:
                ctx.not_shown("correspondence %s: model and implementation disagree on case `%s`: model=%s impl=%s; "
                              "the property predicate found no failure on it" % (label, l[:500], m[:300], r[:300]))
    short = [(l, m) for l, m in zip(lines, model) if len(l) < maxlen]
    ctx.rng.shuffle(short)
    bad = vlib.coq_crosscheck(short[:40])
    ctx.extra["vm_compute_crosschecked"] = ctx.extra.get("vm_compute_crosschecked", 0) + len(short[:40])
    for i in bad:
        ctx.not_shown("extraction cross-check: vm_compute and extracted runner differ on `%s`" % short[i][0][:300])
    ctx.extra["relay_dials_observed"] = ctx.extra.get("relay_dials_observed", 0) + sum(
        1 for r in impl for x in r.split(" | ") if " dial=" in x and " dial=none" not in x) + sum(
        1 for l, r in zip(lines, impl) if l.split(" ")[1] == "sess" for x in r.split(",") if x.startswith("dial:") and x != "dial:none")


def replay(ctx, doc):
    os.environ["VERIF_DRIVER"] = "1"
    exes = {}
    bad = 0
    for v in doc.get("violations", []):
        case = v["replay"].get("case")
        if not case:
            continue
        op = case.split(" ")[1]
        if op == "mainrun":
            mc = v["replay"]["main"]
            c = dict(relay=None if mc["relay"] is None else mc["relay"].encode(), pattern=None if mc["pattern"] is None else mc["pattern"].encode(),
                     allow=mc["allow"], extras=mc["extras"], broker_path=mc["broker_path"], offers=[o.encode() for o in mc["offers"]], kind=mc["kind"])
            exe_nm = exes.setdefault("nm", vlib.go_build("./zz_verif/namematcher"))
            raws = sorted(set(c["offers"]) | ({c["relay"]} if c["relay"] is not None else set()) | {MAIN_DEFAULT_RELAY})
            rc, parsed, err = vlib.run_impl(exe_nm, ["%s urlparse %s" % (AREA, hx(u)) for u in raws])
            tok = {u: p.replace(" ", ";") for u, p in zip(raws, parsed)}
            ensure_facts(exe_nm, main_facts_needed(c, tok))
            r = main_collect(main_start(vlib.go_test_build("./proxy", name="c06_main.test"), [c]))[0]
            m = vlib.run_model([main_line(c, tok)])[0]
            p = main_prop(c, tok, r)
            print("case: %s\n model: %s\n impl:  %s\n property: %s" % (main_shown(c), m[:300], r[:300], p[0] if p else "holds"))
            bad += 1 if p else 0
            continue
        if op in ("sup", "nm"):
            exe, args = exes.setdefault("nm", vlib.go_build("./zz_verif/namematcher")), ()
        elif op in ("poll", "pollseq", "gate", "bseq"):
            exe, args = exes.setdefault("br", vlib.go_test_build("./broker")), TEST_ARGS
        else:
            exe, args = exes.setdefault("px", vlib.go_test_build("./proxy/lib")), TEST_ARGS
        m = vlib.run_model([case])[0]
        rc, r, err = vlib.run_impl(exe, [case], args=args)
        r = r[0] if r else "!died"
        exe_nm = exes.setdefault("nm", vlib.go_build("./zz_verif/namematcher"))
        EXES.update(exes)
        ensure_facts(exe_nm, facts_needed(case) + (dialled_hosts(case, r) if op in ("urlfull", "urlseqfull") else [])
                     + (sess_dialled(case, r) if op == "sess" else []))
        p = prop(case, r, m)
        print("case: %s\n model: %s\n impl:  %s\n property: %s" % (case[:300], m[:300], r[:300], p or "holds"))
        bad += 1 if p else 0
    return 1 if bad else 0
