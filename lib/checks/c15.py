"""C15 — client peer pool: bounded, never hands out closed peers, End/Close always returns and
closes everything, failed rendezvous is reported, retried and never kills the client (client/lib peers.go,
webrtc.go, snowflake.go connectLoop; the event listener of client/snowflake.go)."""
import itertools
import os
import threading
import vlib

AREA = "peers"
TEST_ARGS = ["-test.run", "^TestC15VerifDriver$"]


# ------------------------------------------------------------------ property on the implementation's answer

def split_result(res):
    """'tok,tok,... closed=.. melt=.. pend=a/b/c' -> (tokens, dict) ; ' dead' summary -> dead=True"""
    parts = res.split(" ")
    toks = parts[0].split(",") if parts[0] != "-" else []
    info = {}
    for p in parts[1:]:
        if p == "dead":
            info["dead"] = True
        elif "=" in p:
            k, v = p.split("=", 1)
            info[k] = v
    return toks, info


def peers_prop(line, impl, model):
    """Returns None or 'key|what'. Evaluates C15 on what the implementation did for this script."""
    a = line.split(" ")
    maxp = int(a[2])
    ops = a[4].split(",") if a[4] != "-" else []
    if impl.startswith("!panic") or impl == "!died":
        return "driver-panic|implementation panicked outside a scripted call: " + impl[:200]
    toks, info = split_result(impl)
    if len(toks) != len(ops):
        return None
    created = set()      # peers handed out by Catch so far (ids known from ok:<id>)
    closed = set()       # peers somebody has begun to close (x<k>, xb<k>)
    closing = set()      # of those: the Close call is parked inside its teardown (xb<k> without xe<k> yet)
    end_started = 0
    end_returned = False
    gated = False        # a Catch is parked (the one rendezvous attempt in flight)
    m_seen = False
    for i, (op, t) in enumerate(zip(ops, toks)):
        where = "op %d (%s) of %s" % (i, op, a[4])
        if t == "dead":
            break
        if t == "panic":
            if op in ("e", "ew") and end_started >= 1:
                return "end-twice-panic|End called again panicked (%s)" % where
            return "call-panic|a call panicked (%s)" % where
        if t in ("nilnil", "unknown") or t.endswith(":unknown"):
            return "bad-result|Collect/Pop returned something that is neither a peer nor an error (%s)" % where
        if op == "c+" and t == "fail":
            return ("no-retry-after-failure|Collect returned a rendezvous failure although this time the dialer had a peer to give "
                    "(an earlier failed attempt must not latch) (%s)" % where)
        if op in ("c+", "c-", "cb"):
            if end_started and t not in ("refused", "skip"):
                return "collect-after-end|Collect started after End began was not refused: %s (%s)" % (t, where)
            if t == "catching":
                gated = True
            if t.startswith("ok:"):
                created.add(int(t[3:]))
        elif op in ("g+", "g-"):
            if t != "skip":
                gated = False
            if t.startswith("ok:"):
                created.add(int(t[3:]))
            if t == "m":
                m_seen = True
        elif op == "cw":
            if t.startswith("ok:"):
                created.add(int(t[3:]))
        elif op == "e":
            end_started += 1
        if op in ("e", "ew"):
            if t == "ret-early" or (t == "ret" and gated):
                return ("end-returned-before-peers-closed|an End call returned while the rendezvous attempt was still in flight or a peer "
                        "caught for this collection was still open (every End call, also a second overlapping one, may return only once "
                        "the collection is over) (%s)" % where)
            if t == "ret":
                end_returned = True
            if t == "blocked" and not gated:
                blocked_col = any(o in ("c+", "c-", "cb", "g+", "g-", "cw") and tk == "blocked" for o, tk in zip(ops[:i], toks[:i]))
                if blocked_col:
                    return "end-blocked-by-collect|End did not return within the watchdog although no rendezvous attempt was in flight: Collect is blocked handing a peer over while holding the lock (%s)" % where
                return "end-blocked|End did not return within the watchdog although no rendezvous attempt was in flight (%s)" % where
        if op.startswith("xb") and t == "xb":
            closed.add(int(op[2:]))
            closing.add(int(op[2:]))
        elif op.startswith("xe") and t == "xe":
            closing.discard(int(op[2:]))
        elif op.startswith("x") and t == "x":
            closed.add(int(op[1:]))
        if op in ("p", "pw") and t.startswith("some:"):
            pid = int(t[5:])
            if op == "p" and pid in closing:
                return ("pop-returned-closing-peer|Pop returned peer %d although a Close call of that peer had begun before Pop was called and was "
                        "still tearing the peer down (Closed() must answer true from the moment Close begins) (%s)" % (pid, where))
            if op == "p" and pid in closed:
                return "pop-closed|Pop returned peer %d which had closed before Pop was called (%s)" % (pid, where)
            if op == "p" and end_returned:
                return "pop-after-end|Pop returned a peer after End had returned (%s)" % where
        if op in ("p", "pw") and t == "blocked" and end_returned:
            return "pop-blocked-after-end|Pop did not return although End had returned (%s)" % where
        if t.startswith("n="):
            if int(t[2:]) > maxp:
                return "over-capacity|Count() = %s exceeds the maximum %d (%s)" % (t[2:], maxp, where)
            if not end_started and not m_seen and int(t[2:]) < len(created - closed):
                return ("live-peer-dropped-from-pool|Count() = %s although Collect has returned %d peers that nobody has closed (%s): the purge "
                        "dropped a live peer, which is then neither counted against the maximum nor closed by End (%s)"
                        % (t[2:], len(created - closed), ",".join(str(x) for x in sorted(created - closed)), where))
        if not end_started and not m_seen and len(created - closed) > maxp:
            return "over-capacity|%d live peers held with maximum %d (%s)" % (len(created - closed), maxp, where)
    if info.get("dead"):
        return None
    if end_returned and "0" in info.get("closed", ""):
        return "end-leaves-peer-open|End returned but a peer is still open: closed=%s (%s)" % (info["closed"], a[4])
    if end_returned and info.get("melt") != "1":
        return "end-not-melted|End returned but Melted() is not closed (%s)" % a[4]
    pend = info.get("pend", "0/0/0").split("/")
    if end_started and not gated and pend[2] != "0":
        return "end-blocked|an End call never returned (%s)" % a[4]
    return None


INVALID_ICE = ("empty", "garbage", "stunnohost", "http", "turnnocred", "mixed")


def connect_prop(line, impl, model):
    a = line.split(" ")
    ice, rv = a[2], a[3]
    if impl.startswith("!panic") or impl == "!died":
        return "driver-panic|implementation panicked: " + impl[:200]
    f = dict(p.split("=", 1) for p in impl.split(" ") if "=" in p)
    res = f.get("res")
    if f.get("term") == "1":
        return ("client-process-terminated|rendering the events of the attempt as the client binary's logger does (String() on every event) "
                "panicked on the goroutine that emitted them: a failed attempt terminates the client process (ice=%s rendezvous=%s events=%s)" % (ice, rv, f.get("events")))
    if "failed?nil" in f.get("events", "").split(","):
        return "failure-event-without-error|EventOnSnowflakeConnectionFailed was emitted with a nil Error (ice=%s rendezvous=%s)" % (ice, rv)
    if res == "panic":
        if ice in INVALID_ICE:
            return "nil-peerconnection-deref|NewWebRTCPeerWithEvents panicked for an ICE configuration the WebRTC library rejects (%s): a failed attempt must be an error" % ice
        if rv == "typenum":
            return "answer-nonstring-type-panic|NewWebRTCPeerWithEvents panicked on a broker answer whose \"type\" is not a string (same defect as C13 deserialize-nonstring-member)"
        return "connect-panic|NewWebRTCPeerWithEvents panicked (ice=%s rendezvous=%s)" % (ice, rv)
    if res == "hung":
        return "connect-hung|NewWebRTCPeerWithEvents did not return (ice=%s rendezvous=%s)" % (ice, rv)
    if res not in ("ok", "err"):
        return "connect-bad-result|NewWebRTCPeerWithEvents returned %s (ice=%s rendezvous=%s)" % (res, ice, rv)
    if res == "ok" and (rv != "good" or ice in INVALID_ICE):
        return "connect-ok-on-failure|a failed attempt returned a peer (ice=%s rendezvous=%s)" % (ice, rv)
    if f.get("leak") == "1":
        return "connect-leak|resources of the attempt were not released after %s (ice=%s rendezvous=%s)" % (res, ice, rv)
    return None


CLOSE_WHAT = {
    "fail": "the broker has no proxies", "good": "one live peer held", "hold": "a rendezvous attempt in flight",
    "holdgood": "a peer being collected", "none": "healthy connection", "sess": "the smux session had died before",
    "pconn": "the packet conn had been closed before", "stream": "the stream had been closed before",
    "c": "Close once", "cc": "Close twice", "c2": "two overlapping Close calls",
    "ice": "unusable ICE configuration (every attempt fails)", "unreach": "broker unreachable (connection dropped without an answer)",
    "refuse": "broker refusing (HTTP 503)", "badjson": "malformed answer (not a poll response)",
    "badsdp": "malformed answer (not a usable session description)", "noopen": "data channel never opening",
    "silent": "broker accepts the request and never sends a response header (a rendezvous attempt in flight that only the client's own 15 s limit ends)",
}
# retry scenarios: does a failed attempt of the kind tell the event listeners? (SetRemoteDescription refusing the answer is
# only returned to connectLoop, which logs it)
RETRY_EVENTED = ("ice", "unreach", "refuse", "badjson", "noopen", "silent")


def retry_prop(spec, sp, r):
    """scenario <max>.<failure>.<k>.retry: k failed attempts, then a proxy"""
    kind, k = sp[1], int(sp[2])
    where = "scenario %s: Max=%s, the first %d rendezvous attempt(s) fail: %s" % (spec, sp[0], k, CLOSE_WHAT.get(kind, kind))
    f = dict(p.split("=", 1) for p in r.split(";") if "=" in p)
    try:
        att, peer, opn, melt, nilerr = [int(f[x]) for x in ("att", "peer", "open", "melt", "nilerr")]
        ret = int(f["ret"].split("/")[0])
    except (KeyError, ValueError):
        return None
    evs = [] if f.get("ev", "-") == "-" else f["ev"].split("+")
    if f.get("term") == "1":
        return ("client-process-terminated|rendering the events as the client binary's logger does (String() on every event) panicked on the "
                "collecting goroutine: a failed attempt terminates the client process (%s; events %s)" % (where, f.get("ev")))
    if nilerr > 0 or "failed?nil" in evs:
        return "failure-event-without-error|EventOnSnowflakeConnectionFailed was emitted with a nil Error (%s)" % where
    if kind == "silent" and f.get("fly", "0") != "0":
        return ("rendezvous-attempt-unbounded|the broker accepted the request and stayed silent; %s rendezvous attempt(s) were still in flight when the "
                "client's own limit (ResponseHeaderTimeout of the broker transport, 15 s) plus 10 s per attempt had long passed: the attempt is not "
                "bounded, so neither is a Close that waits for it (%s; attempts made %d)" % (f.get("fly"), where, att))
    if att < k + 1:
        return ("no-retry-after-failure|the client made %d rendezvous attempt(s) and then none for more than a ReconnectTimeout although the "
                "connection was not closed: a failed attempt must be retried (%s)" % (att, where))
    if kind != "ice" and peer < 1:
        return "no-retry-after-failure|attempt %d met a proxy but the client holds no peer (%s; events %s)" % (k + 1, where, f.get("ev"))
    flagged = sum(1 for e in evs if e.endswith("!") or e.startswith("failed"))
    want = (k + 1) if kind == "ice" else k
    if kind in RETRY_EVENTED and flagged < want:
        return "failure-not-reported|%d failed attempt(s) but only %d failure event(s) reached the listeners (%s; events %s)" % (want, flagged, where, f.get("ev"))
    if ret < 1:
        return "close-did-not-return|Close did not return within 15 s (%s)" % where
    if opn > 0:
        return "close-leaves-peer-open|Close returned but %d peer(s) are still open (%s)" % (opn, where)
    if melt != 1:
        return "close-leaves-collection-running|Close returned but Melted() is not closed (%s)" % where
    return None



def close_prop(line, impl, model):
    """C15 on SnowflakeConn.Close through the exported API: returns in bounded time, closes every peer,
    stops the rendezvous attempts."""
    a = line.split(" ")
    specs = a[2].split(",")
    if impl.startswith("!panic") or impl == "!died":
        return "driver-panic|implementation panicked: " + impl[:200]
    res = impl.split(",")
    if len(res) != len(specs):
        return None
    for spec, r in zip(specs, res):
        sp = spec.split(".")
        where = "scenario %s: Max=%s, %s; %s; %s" % (spec, sp[0], CLOSE_WHAT.get(sp[1], sp[1]), CLOSE_WHAT.get(sp[2], sp[2]), CLOSE_WHAT.get(sp[3], sp[3]))
        if r == "panic":
            return "close-panic|Dial/Close panicked (%s)" % where
        if r.startswith("setup="):
            continue     # the scenario could not be set up: left to the comparison with the model
        if sp[3] == "retry":
            bad = retry_prop(spec, sp, r)
            if bad:
                return bad
            continue
        f = dict(p.split("=", 1) for p in r.split(";") if "=" in p)
        try:
            ret, n = [int(x) for x in f["ret"].split("/")]
            inflight, melt, opn, after, late = [int(f[k]) for k in ("inflight", "melt", "open", "after", "late")]
        except (KeyError, ValueError):
            continue
        if f.get("term") == "1":
            return ("client-process-terminated|rendering the events as the client binary's logger does (String() on every event) panicked on the "
                    "goroutine that emitted them: the client process is terminated (%s)" % where)
        if f.get("nilerr", "0") != "0":
            return "failure-event-without-error|EventOnSnowflakeConnectionFailed was emitted with a nil Error (%s)" % where
        if ret < n and sp[1] == "silent":
            return ("rendezvous-attempt-unbounded|%d of %d Close calls did not return within 25 s (the 15 s the broker transport allows a broker to "
                    "stay silent after the request, plus 10 s) while the broker held the rendezvous attempt in flight without answering: Close waits "
                    "for an attempt that nothing bounds (%s)" % (n - ret, n, where))
        if ret < n:
            return "close-did-not-return|%d of %d Close calls did not return within 15 s although the rendezvous attempt in flight was over after 1.5 s (%s)" % (n - ret, n, where)
        if late > 0 or after > 1:
            return ("rendezvous-continues-after-close|the broker was polled %d more time(s) after Close had returned (%d later than 5 s after it): "
                    "the connect loop was not stopped (%s)" % (after, late, where))
        if opn > 0:
            return "close-leaves-peer-open|Close returned but %d peer(s) are still open (%s)" % (opn, where)
        if inflight > 0:
            return "close-returned-with-rendezvous-in-flight|a Close call returned while the broker was still holding the rendezvous attempt: Close must wait for the End in progress (%s)" % where
        if melt != 1:
            return "close-leaves-collection-running|Close returned but Melted() is not closed (%s)" % where
    return None


def any_prop(line, impl, model):
    if line.startswith("peers "):
        return peers_prop(line, impl, model)
    if line.startswith("closeconn "):
        return close_prop(line, impl, model)
    return connect_prop(line, impl, model)


def prop(line, impl, model):
    r = any_prop(line, impl, model)
    return r.split("|", 1)[1] if r else None


def key_of(line, impl, model):
    r = any_prop(line, impl, model)
    return r.split("|", 1)[0] if r else "prop"


# ------------------------------------------------------------------ generators

DIRECTED = [
    # (max, script) — scenario families named in the property statement
    (1, "c+,n,p,n,e,e"),                              # End twice
    (1, "e,e,e,c+,p,n"),
    (2, "c+,c+,e,n,e,p,c+"),
    (2, "c+,p,c+,x1,c+,x2,c+,e,cw,ew"),              # spares gone stale, Collect blocked on the full channel, then End
    (2, "c+,p,c+,x1,c+,x2,c+,e,cw,ew,e,p,c+"),
    (1, "c+,p,c+,x1,c+,e,cw,ew,n"),                   # wait: max 1 -> second collect refused while 0 live
    (3, "c+,c+,c+,p,x1,x2,c+,c+,c+,e,cw,ew"),
    (2, "c+,p,c+,x1,c+,x2,c+,p,cw,n,e"),             # blocked Collect released by a Pop
    (2, "cb,e,g+,ew,p,n"),                            # End while a peer is being collected (Catch succeeds)
    (2, "cb,e,g-,ew,p,n"),                            # ... Catch fails
    (2, "cb,e,e,g+,ew,ew,e"),                         # two Close calls while a peer is being collected
    (2, "c+,p,cb,e,e,g+,ew,ew"),                      # ... with a peer in use: the second End must wait for the first
    (1, "c+,p,x0,cb,e,e,e,g-,ew,ew,ew"),
    (3, "c+,c+,cb,e,n,e,g+,ew,ew,p"),
    (1, "cb,e,g+,ew,c+,p"),
    (2, "c+,cb,e,x0,g+,ew"),
    (2, "p,e,pw,p"),                                  # Pop blocked, End wakes it up with nil
    (2, "p,c+,pw,n,x0,n,e,p"),
    (2, "p,cb,g+,pw,e"),
    (2, "c+,c+,x0,x1,p,c+,pw,e"),                     # Pop skips closed peers and waits
    (2, "c+,c+,x0,p,n,c+,n,c+,e"),
    (1, "c-,c-,c+,c-,p,x0,c-,c+,p,e"),                # rendezvous failures are retried
    (2, "cb,g-,cb,g-,cb,g+,p,e"),
    (3, "c+,c+,c+,c+,n,p,p,p,x0,n,c+,n,e,n"),
    (5, "c+,c+,c+,c+,c+,c+,n,x2,x4,n,c+,c+,c+,n,p,p,p,p,e"),
    (1, "x0,n,p,e,pw"),
    (2, "-"),
    (0, "c+,n,e"),                                    # Max 0 (outside the quantifier, but the code accepts it): never collects
    # a Close call of a spare is inside its teardown (xb<k> ... xe<k>) when the data path pops / Count runs / End is called
    (2, "c+,c+,xb0,p,xe0,n,e"),
    (3, "c+,c+,c+,xb0,xb1,p,n,xe1,xe0,n,p,e"),
    (2, "c+,c+,p,xb1,n,c+,p,xe1,n,e"),
    (2, "c+,c+,xb0,e,xe0,p,n"),                       # End does not wait for a teardown somebody else began
    (2, "c+,xb0,x0,xb0,p,xe0,xe0,x0,xb0,n"),          # sync.Once: one teardown per peer
    (1, "c+,xb0,c+,p,xe0,pw,e"),
    # a peer looks stale (quiet for longer than SnowflakeTimeout, the checker has not looked yet) while Count/Collect/End
    # run, then hears from its proxy again: it must stay in the pool, count against the maximum, be closed by End
    (1, "c+,p,s0,n,c+,r0,n,c+,e"),
    (2, "c+,p,c+,s0,s1,n,c+,r0,p,n,r1,e"),
    (1, "c+,s0,p,c+,n,e"),
    (2, "c+,c+,s0,p,n,x0,n,s1,c+,n,p,e"),
    (1, "c+,s0,e"),
    (3, "c+,c+,c+,s1,xb0,n,p,xe0,r1,n,c+,c+,n,e"),
]

SYNC_OPS = ["c+", "c-", "p", "e", "n", "x0", "x1"]
ALL_OPS = ["c+", "c+", "c+", "c-", "cb", "g+", "g+", "g-", "cw", "p", "p", "pw", "e", "ew", "n", "x0", "x1", "x2", "x3", "x4",
           "xb0", "xb1", "xb2", "xe0", "xe1", "xe2", "s0", "s1", "r0", "n"]
# the life cycle of a peer: every sequence of up to 3 of these after one or two successful Collects
LIFE_OPS = ["c+", "p", "n", "e", "x0", "xb0", "xe0", "xb1", "s0", "r0"]


def rand_script(rng, maxp):
    n = rng.randrange(3, 16)
    ops = []
    nxt = 0
    for _ in range(n):
        r = rng.random()
        if r < 0.15 and nxt > 0:
            ops.append("x%d" % rng.randrange(0, nxt + 1))
        else:
            o = rng.choice(ALL_OPS)
            if o in ("c+", "g+"):
                nxt += 1
            ops.append(o)
    if rng.random() < 0.5:
        ops.append("e")
        if rng.random() < 0.5:
            ops += rng.choice([["e"], ["ew"], ["cw", "ew"], ["g+", "ew"], ["g-", "ew", "p"], ["p", "c+"]])
    return ",".join(ops)


def stale_script(rng, maxp):
    """fill the pool, pop one, let the spares go stale, refill, then End / Pop in some order"""
    ops = ["c+"] * maxp + ["p"]
    ids = list(range(1, maxp))
    rng.shuffle(ids)
    nxt = maxp
    for k in ids:
        ops += ["x%d" % k, "c+"]
        nxt += 1
    # now the channel is full of closed spares plus live ones; more staleness and refills
    for _ in range(rng.randrange(0, 3)):
        ops += ["x%d" % rng.randrange(0, nxt), "c+"]
        nxt += 1
    tail = rng.choice([["e", "cw", "ew"], ["p", "cw", "e"], ["e", "e", "cw", "ew", "ew"], ["n", "e", "cw", "ew", "p"], ["cw", "p", "pw", "e"]])
    return ",".join(ops + tail)


def est_cost(model_out, wait_ms):
    toks, _ = split_result(model_out)
    if "blocked" not in toks:
        return 0.0
    first = toks.index("blocked")
    return (len(toks) - first) * wait_ms / 1000.0


def gen_peers(ctx):
    rng = ctx.rng
    thorough = ctx.tier == "thorough"
    cand = []   # (kind, max, wait, script)
    for j, (m, s) in enumerate(DIRECTED):
        # the watchdog is 1 s where End is expected to wait (for the in-flight Catch) or was seen to hang
        cand.append(("directed", m, 1000 if j in (3, 8, 9) else 300, s))
    # exhaustive small scope: every script of synchronous ops up to length 4 (5 in thorough), Max 1 and 2
    for m in (1, 2):
        for n in range(1, 6 if thorough else 5):
            for t in itertools.product(SYNC_OPS, repeat=n):
                cand.append(("exhaustive-sync-len%d" % n, m, 300, ",".join(t)))
    for m in (1, 2):
        for pre in (["c+"], ["c+", "c+"]):
            for n in range(1, 5 if thorough else 4):
                for t in itertools.product(LIFE_OPS, repeat=n):
                    cand.append(("exhaustive-life-len%d" % (len(pre) + n), m, 300, ",".join(pre + list(t))))
    for _ in range(3000 if not thorough else 30000):
        m = rng.choice([1, 1, 2, 2, 2, 3, 5])
        cand.append(("random", m, 300, rand_script(rng, m)))
    for _ in range(40 if not thorough else 400):
        m = rng.choice([1, 2, 2, 3, 4])
        cand.append(("stale-spares", m, 1000 if rng.random() < 0.1 else 300, stale_script(rng, m)))
    lines = ["%s run %d %d %s" % (AREA, m, w, s) for _, m, w, s in cand]
    model = vlib.run_model(lines)
    # keep every script that never blocks; of the blocking ones keep what the time budget allows
    budget = {"directed": 1e9, "stale-spares": 8.0 if not thorough else 150.0, "random": 6.0 if not thorough else 150.0,
              "exhaustive": 5.0 if not thorough else 100.0}
    out_lines, out_kinds = [], []
    racy = 0
    order = list(range(len(cand)))
    rng.shuffle(order)
    order.sort(key=lambda i: 0 if cand[i][0] == "directed" else 1)
    for i in order:
        kind, m, w, s = cand[i]
        if model[i] == "!racy":
            racy += 1
            continue
        c = est_cost(model[i], w)
        fam = kind.split("-")[0] if kind.startswith("exhaustive") else kind
        if c > 0:
            if budget[fam] < c:
                continue
            budget[fam] -= c
            kind += "+blocking"
        out_lines.append(lines[i])
        out_kinds.append(kind)
    ctx.extra["scripts_skipped_as_schedule_dependent"] = racy
    return out_lines, out_kinds


ICE_KINDS = ["none", "empty", "garbage", "stunnohost", "http", "turnnocred", "mixed", "stun"]
RV_FAST = ["good", "neterr", "badjson", "brokererr", "emptyanswer", "badanswer", "typenum", "unknowntype", "garbagesdp", "wrongtype"]


def gen_connect(ctx):
    thorough = ctx.tier == "thorough"
    lines, kinds = [], []
    for ice in ICE_KINDS:
        if ice == "stun":
            rvs = ["good"] if not thorough else ["good", "neterr", "wrongtype"]   # ~5 s each: STUN query to a closed port times out
        elif ice == "none":
            rvs = RV_FAST + ["noopen"]                                             # noopen waits DataChannelTimeout (10 s)
        else:
            rvs = ["good", "neterr"] if not thorough else RV_FAST
        for rv in rvs:
            lines.append("connect conn %s %s" % (ice, rv))
            kinds.append("connect-ice-%s" % ("valid" if ice in ("none", "stun") else "invalid") + ("-rv-" + rv))
    if thorough:
        for _ in range(3):
            lines.append("connect conn none noopen")
            kinds.append("connect-ice-valid-rv-noopen")
    return lines, kinds


CLOSE_QUICK = [
    # Max.broker.pre.closes — each scenario watches the broker for 2 x ReconnectTimeout (10 s) after Close: one batch, run concurrently
    "1.fail.none.c",        # healthy connection, no proxies, Close once
    "1.fail.sess.cc",       # the smux session died first (keep-alive timeout, server gone), Close twice
    "1.fail.pconn.c",       # the packet conn was closed first
    "2.fail.stream.c",      # the stream was closed first
    "2.good.none.c2",       # a live peer held, two overlapping Close calls
    "2.good.sess.c",        # a live peer held, session dead
    "1.hold.none.c2",       # Close (twice, overlapping) while a rendezvous attempt is in flight
    "2.hold.sess.c",
    "2.holdgood.none.c2",   # Close while a peer is being collected
    "1.holdgood.sess.cc",
    "1.silent.none.c2",     # Close while a rendezvous attempt is in flight with a broker that accepted the request and stays silent:
    "2.silent.sess.c",      # the attempt (and with it Close) is bounded by the transport's own ResponseHeaderTimeout (15 s)
]

# <max>.<failure>.<k>.retry — k failed rendezvous attempts of the given kind, ReconnectTimeout (10 s) apart, then a proxy: they run in the
# same batch, concurrently with the close scenarios (which watch the broker for 2 x ReconnectTimeout anyway)
RETRY_QUICK = [
    "1.ice.2.retry",        # unusable ICE configuration (-ice ""): every attempt fails before the broker is asked, and is made again
    "1.unreach.2.retry",    # broker unreachable twice, then a proxy
    "2.refuse.2.retry",     # broker refusing
    "1.badjson.1.retry",    # malformed answer: not a poll response
    "2.badsdp.2.retry",     # malformed answer: not a session description (reported to connectLoop only)
    "1.noopen.2.retry",     # the data channel never opens (DataChannelTimeout, 10 s, each time), then a proxy whose channel opens
    "2.noopen.1.retry",
    "1.refuse.0.retry",     # no failure at all: the first attempt meets the proxy
    "1.silent.1.retry",     # the broker reads the request and never answers: the attempt fails after 15 s by itself and is made again
    "2.silent.1.retry",
]
RETRY_KINDS = ("ice", "unreach", "refuse", "badjson", "badsdp", "noopen", "silent")


def gen_close(ctx):
    """batches of scenarios for `closeconn batch`; a batch takes ~30 s whatever its size"""
    if ctx.tier != "thorough":
        return [CLOSE_QUICK + RETRY_QUICK], ["close-api-directed"]
    allsc = ["%d.%s.%s.%s" % (m, k, p, c) for m in (1, 2, 3) for k in ("fail", "good", "hold", "holdgood", "silent")
             for p in ("none", "sess", "pconn", "stream") for c in ("c", "cc", "c2")]
    rest = [s for s in allsc if s not in CLOSE_QUICK]
    ctx.rng.shuffle(rest)
    batches, kinds = [CLOSE_QUICK + RETRY_QUICK], ["close-api-directed"]
    # every failure kind x k = 0..3 x Max 1, 2 (k = 3: 30 s of waiting) ride along with the close scenarios
    retry = ["%d.%s.%d.retry" % (m, kd, k) for m in (1, 2) for kd in RETRY_KINDS for k in (0, 1, 2, 3)]
    retry = [r for r in retry if r not in RETRY_QUICK]
    ctx.rng.shuffle(retry)
    for i in range(0, len(rest), 24):
        batches.append(rest[i:i + 24] + retry[:8])
        retry = retry[8:]
        kinds.append("close-api-product")
    if retry:
        batches.append(retry)
        kinds.append("retry-product")
    return batches, kinds


def longer_watchdog(line, impl, model):
    """`peers run <max> <watchdog ms> <script>`: an implementation answer with a "blocked" call where the model has none may
    only mean that the machine was too busy for the 300 ms watchdog: the same script once more with ten times the patience."""
    a = line.split(" ")
    if len(a) >= 5 and a[0] == "peers" and a[1] in ("run", "run0") and "blocked" in impl and impl != model:
        try:
            w = int(a[3])
        except ValueError:
            return None
        if w <= 1000:
            return " ".join(a[:3] + [str(10 * w)] + a[4:])
    return None


def run(ctx):
    os.environ["VERIF_DRIVER"] = "1"
    exe = vlib.go_test_build("./client/lib", name="c15_client_lib.test")
    ctx.trusted += [
        "scripted Tongue / RendezvousMethod and the watchdog in harness/overlay/client/lib/zz_verif_c15_test.go (blocked = not returned within the watchdog: 300 ms, 1 s for directed End scenarios)",
        "pion/webrtc, BrokerChannel.Negotiate, messages and util packages are exercised, not verified; connect is modelled as a sequence of library calls with ok/error outcomes",
        "closeconn: scripted broker (httptest, counts the polls of /client, may hold the first one) and in-process pion answerer in the same driver; smux/kcp-go/RedialPacketConn are exercised, not verified; Close bound 15 s, polls watched for 2 x ReconnectTimeout + 2 s after Close",
    ]
    ctx.assumptions += [
        "model = coq/Model/Peers.v (interleaving machine, V1 = code with proposed-fixes/C15-*.diff) under coq/Model/PeerLife.v (WebRTCPeer.Close as two steps - begin, with the flag Closed() reads set first, and end - and peers quiet for longer than SnowflakeTimeout; the peers scripts run on this composed machine), coq/Model/Connect.v and coq/Model/CloseConn.v (SnowflakeConn.Close over the Peers machine); tie = correspondence on scripted schedules run to quiescence after each op, and on Dial/Close scenarios through the exported API",
        "one collector thread (connectLoop) per Peers; WebRTCPeer.Close and library calls return",
        "scripted peers have a never-connected pion DataChannel as transport; xb<k> parks a Close call inside cleanup() by holding a read lock of that DataChannel's mutex (reached through reflect/unsafe: pion's DataChannel.Close begins with d.mu.Lock()), xe<k> releases it; s<k>/r<k> set the peer's lastReceive field to SnowflakeTimeout + 1 min ago / now (no staleness checker runs for scripted peers: the script decides when a peer is closed); 'closed' in the driver's answers is the state of the peer's closed channel itself, not what Closed() returns",
        "scripts whose outcome depends on the Go scheduler (flagged by the model adapter) are not compared",
        "failures of CreateDataChannel/CreateOffer/SetLocalDescription are covered by the theorem but cannot be provoked in the unmodified code (only webrtc.Configuration{ICEServers} reaches pion; reasons in the header of coq/Properties/C15.v), so the correspondence does not exercise them",
        "every connect / close / retry scenario has an event listener that does what client/snowflake.go's ptEventLogger does (pt.Log(pt.LogSeverityNotice, e.String()), goptlib's Stdout redirected to io.Discard); a panic in it is caught and reported as term=1 (key client-process-terminated): in the client binary it would end the process",
        "DataChannelTimeout and ReconnectTimeout are constants (10 s each), not variables: the driver cannot shorten them; the scenarios that wait for them (connect 'noopen', retry scenarios: up to 2 failures 10 s apart) run in background driver processes while the peers scripts run, so they add no wall time",
        "'silent' (close and retry scenarios) = the scripted broker reads the request and sends no response header until the client's connection goes away; the client side is built by NewSnowflakeClient -> NewBrokerChannel -> createBrokerTransport, so the limit on that silence is the code's own (ResponseHeaderTimeout 15 s); Close is given that limit + 10 s (key rendezvous-attempt-unbounded)",
        "retry scenarios: 'unreach' = the scripted broker drops the connection without an HTTP answer; 'ice' = ICEAddresses [\"\"] (what -ice \"\" gives): every attempt fails before the broker is asked; attempts are counted as EventOnOfferCreated events",
    ]
    # The close / retry scenarios mostly wait (ReconnectTimeouts): the driver is started on them now, in the
    # background, and its answers are compared at the end.  The same goes for the connect cases that wait for a
    # real timer (DataChannelTimeout = 10 s, a constant the driver cannot shorten; the STUN query to a closed
    # port): a second background driver process, so that they cost no wall time.
    batches, b_kinds = gen_close(ctx)
    b_lines = ["closeconn batch " + ",".join(b) for b in batches]
    c_lines, c_kinds = gen_connect(ctx)
    slow = [i for i, l in enumerate(c_lines) if l.split(" ")[2] == "stun" or l.split(" ")[3] == "noopen"]
    s_lines, s_kinds = [c_lines[i] for i in slow], [c_kinds[i] for i in slow]
    c_lines, c_kinds = ([l for i, l in enumerate(c_lines) if i not in slow], [k for i, k in enumerate(c_kinds) if i not in slow])

    def background(lines):
        box = {}

        def worker():
            try:
                box["res"] = vlib.run_impl(exe, lines, args=TEST_ARGS)
            except Exception as e:      # a timeout of the driver: reported as a driver crash below
                box["res"] = (1, [], str(e))
        th = threading.Thread(target=worker)
        th.start()
        return th, box
    th, box = background(b_lines)
    th2, box2 = background(s_lines)
    lines, kinds = gen_peers(ctx)
    # directed scenarios first; if they already fail, the bulk is cut short (a defect that makes calls
    # block costs one watchdog period per op, which would otherwise take very long)
    nd = sum(1 for k in kinds if k.startswith("directed"))
    ctx.correspond(exe, lines[:nd], kinds[:nd], label="peers-directed", prop=prop, key_of=key_of, impl_args=TEST_ARGS, crosscheck=10,
                   retry_if=longer_watchdog)
    rest_l, rest_k = lines[nd:], kinds[nd:]
    if ctx.violations:
        rest_l, rest_k = rest_l[:300], rest_k[:300]
        ctx.extra["bulk_cut_short_after_directed_failures"] = True
    ctx.correspond(exe, rest_l, rest_k, label="peers", prop=prop, key_of=key_of, impl_args=TEST_ARGS, retry_if=longer_watchdog)
    ctx.correspond(exe, c_lines, c_kinds, label="connect", prop=prop, key_of=key_of, impl_args=TEST_ARGS, crosscheck=20)
    os.makedirs(vlib.TMP, exist_ok=True)

    def compare_stored(th, box, lines, kinds, label, crosscheck):
        th.join()
        rc, out, err = box["res"]
        stored = os.path.join(vlib.TMP, "c15_%s_%d.out" % (label, os.getpid()))
        with open(stored, "w") as fh:
            fh.write("".join(l + "\n" for l in out))
        if rc != 0:
            ctx.violation("driver-crash", "implementation driver died on the %s scenarios (rc=%s): %s" % (label, rc, err[-600:]),
                          dict(label=label, case=None, stderr=err[-2000:]))
        # the stored answers of the driver are what is compared with the model here
        ctx.correspond("/bin/cat", lines, kinds, label=label, prop=prop, key_of=key_of, impl_args=[stored], crosscheck=crosscheck)
        os.remove(stored)
    compare_stored(th2, box2, s_lines, s_kinds, "connect-timers", 4)
    ctx.extra["close_api_scenarios"] = sum(len(b) for b in batches)
    ctx.extra["retry_scenarios"] = sum(1 for b in batches for x in b if x.endswith(".retry"))
    compare_stored(th, box, b_lines, b_kinds, "close-api", 4)
    # keep the replay file readable: at most 3 failing inputs per key, shortest first
    per_key, kept = {}, []
    for v in sorted(ctx.violations, key=lambda v: len(str(v["replay"].get("case")))):
        per_key[v["key"]] = per_key.get(v["key"], 0) + 1
        if per_key[v["key"]] <= 3:
            kept.append(v)
    ctx.extra["failing_inputs_per_key"] = per_key
    ctx.violations[:] = kept


def replay(ctx, doc):
    os.environ["VERIF_DRIVER"] = "1"
    exe = vlib.go_test_build("./client/lib", name="c15_client_lib.test")
    bad = 0
    for v in doc.get("violations", []):
        case = v["replay"].get("case")
        if not case:
            continue
        m = vlib.run_model([case])[0]
        rc, r, err = vlib.run_impl(exe, [case], args=TEST_ARGS)
        r = r[0] if r else "!died"
        p = prop(case, r, m)
        print("case: %s\n model: %s\n impl:  %s\n property: %s" % (case[:300], m[:300], r[:300], p or "holds"))
        bad += 1 if p else 0
    return 1 if bad else 0
