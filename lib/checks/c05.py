"""C05 — server binds packets to sessions by ClientID; sessions never mix (carrier layer)."""
import os
import vlib
from checks import c09

CID = "C05"
TOKEN = "1293605d278175f5"


def prefix(n):
    if n < 64:
        return "%02x" % (0x80 | n)
    if n < 8192:
        return "%02x%02x" % (0xc0 | (n >> 7), n & 0x7f)
    return "%02x%02x%02x" % (0xc0 | (n >> 14), 0x80 | ((n >> 7) & 0x7f), n & 0x7f)


def pad(n):
    # a padding chunk of total size n (1..64)
    return "%02x" % (n - 1) + "00" * (n - 1)


def gen_scen(rng, idx):
    """returns (ops for impl, ops for model, meta) ; packets are unique strings"""
    nsess = rng.randrange(1, 4)
    cids = ["%016x" % rng.getrandbits(64) for _ in range(nsess)]
    if rng.random() < 0.2 and nsess > 1:
        cids[1] = cids[0][:14] + "%02x" % ((int(cids[0][14:], 16) + 1) & 255)   # near-identical ids
    ops, mops = [], []
    carriers = []          # dict(cid or None, kind, open, sent=[pkts fully sent], bytes_sent)
    sendq = {c: [] for c in cids}
    written = {c: [] for c in cids}
    pk = [0]
    upn = [0]
    expdown = {}
    downn = {}
    closed_cids = set()   # a carrier of this ClientID was closed by the peer: its write loop may still take (and lose) one packet

    def newpkt(n=None):
        pk[0] += 1
        body = ("%04x%04x" % (idx & 0xffff, pk[0])) + "".join("%02x" % rng.randrange(256) for _ in range(n if n is not None else rng.choice([0, 1, 3, 20, 60, 62, 70, 200])))
        return body

    def open_carriers(c):
        return [i for i, k in enumerate(carriers) if k["cid"] == c and k["open"]]

    def flush_sends(c):
        oc = open_carriers(c)
        if len(oc) == 1:
            while sendq[c]:
                p = sendq[c].pop(0)
                mops.append("s%d" % oc[0])
                expdown.setdefault(oc[0], []).append(p)
                downn[oc[0]] = downn.get(oc[0], 0) + len(prefix(len(p) // 2)) // 2 + len(p) // 2
            if deterministic and c not in closed_cids and ops and oc[0] in downn:
                ops[-1] = ops[-1] + "@d%d=%d" % (oc[0], downn[oc[0]])
        # with several open carriers of one ClientID the choice is the scheduler's: relational check only

    deterministic = True
    for step in range(rng.randrange(4, 14)):
        r = rng.random()
        if r < 0.3 or not carriers:
            kind = rng.choices(["good", "badtoken", "short", "garbage"], [0.7, 0.12, 0.08, 0.1])[0]
            c = rng.choice(cids)
            i = len(carriers)
            carriers.append(dict(cid=c if kind in ("good", "garbage") else None, kind=kind, open=False, sent=[], dead=False))
            q = rng.choice([None, None, "client_ip=1.2.3.4", "", "client_ip=", "client_ip=fe80::1%eth0", "client_ip=%zz", "client_ip=::",
                            "a;b=c", "client_ip=1.2.3.4&client_ip=5.6.7.8", "%", "client_ip=2001:db8::1%25eth0", "x=%ff%fe&client_ip=0.0.0.0"])
            nop = "n" if q is None else "n:x" + q.encode().hex()
            ops.append(nop); mops.append(nop)
            if kind == "badtoken":
                hdr = "%016x" % (int(TOKEN, 16) ^ (1 << rng.randrange(64))) + c
            elif kind == "short":
                hdr = (TOKEN + c)[:2 * rng.randrange(0, 16)]
            else:
                hdr = TOKEN + c
            # header possibly fragmented
            cut = rng.randrange(0, len(hdr) // 2 + 1)
            for part in ([hdr[:2 * cut], hdr[2 * cut:]] if 0 < cut < len(hdr) // 2 else [hdr]):
                if part:
                    ops.append("r%d:x%s" % (i, part)); mops.append("r%d:x%s" % (i, part))
            if kind in ("good", "garbage"):
                if len(open_carriers(c)) >= 1:
                    deterministic = deterministic and not sendq[c]
                carriers[i]["open"] = True
                flush_sends(c)
            if kind == "badtoken":
                carriers[i]["dead"] = True
        elif r < 0.65:
            cand = [i for i, k in enumerate(carriers) if k["open"] and k["kind"] == "good"]
            if not cand:
                continue
            i = rng.choice(cand)
            # a burst of chunks, fragmented arbitrarily, maybe cut in the middle of the last one (then the carrier closes)
            stream, pkts = "", []
            for _ in range(rng.randrange(1, 4)):
                if rng.random() < 0.25:
                    stream += pad(rng.choice([1, 2, 5, 64]))
                else:
                    p = newpkt()
                    stream += prefix(len(p) // 2) + p
                    pkts.append((len(stream), p))
            cutat = len(stream)
            close_after = False
            if rng.random() < 0.25:
                cutat = 2 * rng.randrange(0, len(stream) // 2 + 1)
                close_after = True
            s = stream[:cutat]
            pos = 0
            while pos < len(s):
                n = 2 * rng.choice([1, 1, 2, 3, 7, 50, 1000])
                ops.append("r%d:x%s" % (i, s[pos:pos + n])); mops.append("r%d:x%s" % (i, s[pos:pos + n]))
                pos += n
            carriers[i]["sent"] += [p for end, p in pkts if end <= cutat]
            upn[0] += len([1 for end, p in pkts if end <= cutat])
            if ops and ops[-1].startswith("r%d:" % i):
                ops[-1] = ops[-1] + "@u%d" % upn[0]
            if close_after:
                ops.append("c%d" % i); mops.append("c%d" % i)
                carriers[i]["open"] = False
                closed_cids.add(carriers[i]["cid"])
        elif r < 0.9:
            c = rng.choice(cids)
            p = newpkt()
            ops.append("w:x%s:x%s" % (c, p)); mops.append("w:x%s:x%s" % (c, p))
            written[c].append(p)
            sendq[c].append(p)
            if len(open_carriers(c)) > 1 or c in closed_cids:
                deterministic = False
            flush_sends(c)
        else:
            cand = [i for i, k in enumerate(carriers) if k["open"]]
            if cand:
                i = rng.choice(cand)
                ops.append("c%d" % i); mops.append("c%d" % i)
                carriers[i]["open"] = False
                closed_cids.add(carriers[i]["cid"])
        if any(k["kind"] == "garbage" for k in carriers):
            pass
    # garbage carriers: random bytes after the header, upstream only
    for i, k in enumerate(carriers):
        if k["kind"] == "garbage" and k["open"]:
            g = "".join("%02x" % rng.choice([0x00, 0x3f, 0x40, 0x80, 0x81, 0xc0, 0xff, rng.randrange(256)]) for _ in range(rng.randrange(1, 10)))
            ops.append("r%d:x%s" % (i, g)); mops.append("r%d:x%s" % (i, g))
            deterministic_down = False
            k["garbage"] = g
    # final expectations: carriers that must end up closed (wrong token, closed by the peer) — the driver waits for them
    mustclose = [i for i, k in enumerate(carriers) if k["kind"] == "badtoken" or (k["kind"] in ("good", "garbage") and not k["open"] and k.get("cid"))]
    if mustclose:
        ops.append("z" + "".join("@k%d" % i for i in mustclose))
    return ops, mops, dict(cids=cids, carriers=carriers, written=written, deterministic=deterministic, expdown=expdown)


def parse_impl(o):
    d = {}
    for tok in o.split(" "):
        k, v = tok.split("=", 1)
        d[k] = v
    return d


def check_props(meta, d):
    bad = []
    carriers = meta["carriers"]
    ups = [] if d.get("up", "-") == "-" else [u.split(":") for u in d["up"].split(",")]
    ups = [(c[1:], p[1:]) for c, p in ups]
    sent_by_cid = {}
    for k in carriers:
        if k["cid"] and k["kind"] == "good":
            sent_by_cid.setdefault(k["cid"], []).extend(k["sent"])
    garbage_cids = set(k["cid"] for k in carriers if k["kind"] == "garbage")
    for c, p in ups:
        if c in garbage_cids:
            continue
        if p not in sent_by_cid.get(c, []):
            owner = [cc for cc, l in sent_by_cid.items() if p in l]
            bad.append(("upstream-wrong-session" if owner else "upstream-foreign-packet",
                        "packet %s.. surfaced for ClientID %s but was sent %s" % (p[:16], c, ("on a carrier of " + owner[0]) if owner else "by nobody (partial / merged / invented)")))
    for c, l in sent_by_cid.items():
        if c in garbage_cids:
            continue
        got = [p for cc, p in ups if cc == c]
        for p in l:
            if got.count(p) != 1:
                bad.append(("upstream-lost-or-duplicated", "packet %s.. sent whole on a carrier of %s surfaced %d times" % (p[:16], c, got.count(p))))
    # downstream
    seen = {}
    for i, k in enumerate(carriers):
        st, wire = d.get("k%d" % i, "open:x").split(":")
        wire = wire[1:]
        if k["kind"] in ("badtoken", "short"):
            if wire:
                bad.append(("no-token-carrier-got-data", "carrier %d (%s) received downstream bytes" % (i, k["kind"])))
            if k["kind"] == "badtoken" and st != "closed":
                bad.append(("no-token-carrier-not-closed", "carrier %d with a wrong token was not closed" % i))
            continue
        chunks, err = c09.py_decode(wire)
        if err != "eof":
            bad.append(("downstream-not-framed", "carrier %d downstream does not end at a chunk boundary (%s)" % (i, err)))
        for p in chunks:
            if p not in meta["written"].get(k["cid"], []):
                owner = [cc for cc, l in meta["written"].items() if p in l]
                bad.append(("downstream-wrong-session" if owner else "downstream-foreign-packet",
                            "carrier %d (ClientID %s) was written packet %s.. addressed to %s" % (i, k["cid"], p[:16], owner[0] if owner else "nobody")))
            seen[p] = seen.get(p, 0) + 1
        if meta["deterministic"] and chunks != meta["expdown"].get(i, []):
            bad.append(("downstream-not-delivered", "carrier %d (the only open carrier of ClientID %s) should have been written %d packets, got %d" % (
                i, k["cid"], len(meta["expdown"].get(i, [])), len(chunks))))
    for p, n in seen.items():
        if n > 1:
            bad.append(("downstream-duplicated", "packet %s.. was written to %d carriers" % (p[:16], n)))
    return bad


def run(ctx):
    exe = vlib.go_test_build("./server/lib", name="serverlib.test")
    env = dict(os.environ, VERIF_DRIVER="c05")
    ctx.assumptions += ["model = coq/Model/CarrierLayer.v over Model/Encap.v; QueuePacketConn queues as bounded FIFOs (proved for the code in C17)",
                        "which of two simultaneously open carriers of one ClientID takes a packet is the scheduler's choice: checked relationally",
                        "kcp-go/smux ('exactly one accepted connection whose stream continues') are outside the model: observed by C18's and C01's black-box runs"]
    ctx.trusted.append("harness/overlay/server/lib/zz_verif_c05_test.go (real httpHandler + gorilla/websocket carriers, driver-owned QueuePacketConn)")
    n = 220 if ctx.tier == "quick" else 2500
    scen = [gen_scen(ctx.rng, i) for i in range(n)]
    lines = ["carrierlayer run " + ",".join(ops) for ops, _, _ in scen]
    rc, out, err = vlib.run_impl(exe, lines, args=["-test.run", "^TestVerifC05Driver$"], env=env, timeout=1200)
    if rc != 0 or len(out) != len(lines):
        ctx.violation("driver-crash", "server carrier driver died rc=%s: %s" % (rc, err[-800:]), dict(stderr=err[-3000:]))
        return
    mlines = ["carrierlayer run " + ",".join(mops) for _, mops, _ in scen]
    mout = vlib.run_model(mlines)
    for (ops, mops, meta), line, o, ml, mo in zip(scen, lines, out, mlines, mout):
        kinds = "+".join(sorted(set(k["kind"] for k in meta["carriers"]))) + ("" if meta["deterministic"] else "+shared-cid")
        ctx.count(line, kind=kinds)
        rep = dict(case=line[:8000], impl=o[:3000], model=mo[:3000])
        if o.startswith("!"):
            ctx.violation("request-" + o.split(" ")[0].strip("!:"), "driver failure: " + o[:200], rep)
            continue
        d = parse_impl(o)
        for key, text in check_props(meta, d):
            ctx.violation(key, text, rep)
        md = parse_impl(mo)
        # upstream is deterministic (ops are settled one by one)
        same = d.get("up") == md.get("up")
        if same and meta["deterministic"]:
            for i, k in enumerate(meta["carriers"]):
                ist, iw = d.get("k%d" % i, ":x").split(":")
                mf = md.get("k%d" % i, "::").split(":")
                if iw != mf[2]:
                    same = False
                if (mf[0] == "dead") != (ist == "closed") and k["kind"] != "short":
                    same = False
        if not same:
            ctx.not_shown("correspondence carrierlayer: model and implementation disagree: case=%s impl=%s model=%s" % (ml[:400], o[:300], mo[:300]))
    sample = [(l, m) for l, m in zip(mlines, mout) if len(l) < 600][:20]
    for i in vlib.coq_crosscheck(sample):
        ctx.not_shown("extraction cross-check differs on " + sample[i][0][:300])
    ctx.extra["vm_compute_crosschecked"] = len(sample)


def replay(ctx, doc):
    exe = vlib.go_test_build("./server/lib", name="serverlib.test")
    env = dict(os.environ, VERIF_DRIVER="c05")
    bad = 0
    for v in doc.get("violations", []):
        case = v["replay"].get("case")
        if not case:
            continue
        rc, out, err = vlib.run_impl(exe, [case], args=["-test.run", "^TestVerifC05Driver$"], env=env)
        print("case: %s\n impl: %s" % (case[:400], out[0] if out else "!died"))
        bad += 1
    return 1 if bad else 0
