"""C05 — server binds packets to sessions by ClientID; sessions never mix (carrier layer)."""
import os
import vlib
from checks import c09

CID = "C05"
TOKEN = "1293605d278175f5"


def prefix(n):
    if n < 64:
        return "%02x" % (0x80 | n)
    if n < 8192:
        return "%02x%02x" % (0xc0 | (n >> 7), n & 0x7f)
    return "%02x%02x%02x" % (0xc0 | (n >> 14), 0x80 | ((n >> 7) & 0x7f), n & 0x7f)


def pad(n):
    # a padding chunk of total size n (1..64)
    return "%02x" % (n - 1) + "00" * (n - 1)


def gen_scen(rng, idx):
    """returns (ops for impl, ops for model, meta) ; packets are unique strings"""
    nsess = rng.randrange(1, 4)
    cids = ["%016x" % rng.getrandbits(64) for _ in range(nsess)]
    if rng.random() < 0.2 and nsess > 1:
        cids[1] = cids[0][:14] + "%02x" % ((int(cids[0][14:], 16) + 1) & 255)   # near-identical ids
    ops, mops = [], []
    carriers = []          # dict(cid or None, kind, open, sent=[pkts fully sent], bytes_sent)
    sendq = {c: [] for c in cids}
    written = {c: [] for c in cids}
    pk = [0]
    upn = [0]
    expdown = {}
    downn = {}
    closed_cids = set()   # a carrier of this ClientID was closed by the peer: its write loop may still take (and lose) one packet

    def newpkt(n=None):
        pk[0] += 1
        body = ("%04x%04x" % (idx & 0xffff, pk[0])) + "".join("%02x" % rng.randrange(256) for _ in range(n if n is not None else rng.choice([0, 1, 3, 20, 60, 62, 70, 200])))
        return body

    def open_carriers(c):
        return [i for i, k in enumerate(carriers) if k["cid"] == c and k["open"]]

    def flush_sends(c):
        oc = open_carriers(c)
        if len(oc) == 1:
            while sendq[c]:
                p = sendq[c].pop(0)
                mops.append("s%d" % oc[0])
                expdown.setdefault(oc[0], []).append(p)
                downn[oc[0]] = downn.get(oc[0], 0) + len(prefix(len(p) // 2)) // 2 + len(p) // 2
            if deterministic and c not in closed_cids and ops and oc[0] in downn:
                ops[-1] = ops[-1] + "@d%d=%d" % (oc[0], downn[oc[0]])
        # with several open carriers of one ClientID the choice is the scheduler's: relational check only

    deterministic = True
    for step in range(rng.randrange(4, 14)):
        r = rng.random()
        if r < 0.3 or not carriers:
            kind = rng.choices(["good", "badtoken", "short", "garbage"], [0.7, 0.12, 0.08, 0.1])[0]
            c = rng.choice(cids)
            i = len(carriers)
            carriers.append(dict(cid=c if kind in ("good", "garbage") else None, kind=kind, open=False, sent=[], dead=False))
            q = rng.choice([None, None, "client_ip=1.2.3.4", "", "client_ip=", "client_ip=fe80::1%eth0", "client_ip=%zz", "client_ip=::",
                            "a;b=c", "client_ip=1.2.3.4&client_ip=5.6.7.8", "%", "client_ip=2001:db8::1%25eth0", "x=%ff%fe&client_ip=0.0.0.0"])
            nop = "n" if q is None else "n:x" + q.encode().hex()
            ops.append(nop); mops.append(nop)
            if kind == "badtoken":
                # 8 bytes that are not the token, followed by 0..40 more (or by nothing at all), and then silence: the
                # server must close the carrier on the strength of the first 8 bytes
                hdr = "%016x" % (int(TOKEN, 16) ^ (1 << rng.randrange(64))) + rng.choice(
                    [c, c, "", c[:2], c[:14], c + "".join("%02x" % rng.randrange(256) for _ in range(rng.choice([1, 4, 24])))])
            elif kind == "short":
                hdr = (TOKEN + c)[:2 * rng.randrange(0, 16)]
            else:
                hdr = TOKEN + c
            # header possibly fragmented, or trickled byte by byte
            if rng.random() < 0.15:
                parts = [hdr[q:q + 2] for q in range(0, len(hdr), 2)]
            else:
                cut = rng.randrange(0, len(hdr) // 2 + 1)
                parts = [hdr[:2 * cut], hdr[2 * cut:]] if 0 < cut < len(hdr) // 2 else [hdr]
            for part in parts:
                if part:
                    ops.append("r%d:x%s" % (i, part)); mops.append("r%d:x%s" % (i, part))
            if kind in ("good", "garbage"):
                if len(open_carriers(c)) >= 1:
                    deterministic = deterministic and not sendq[c]
                carriers[i]["open"] = True
                flush_sends(c)
            if kind == "badtoken":
                carriers[i]["dead"] = True
        elif r < 0.65:
            cand = [i for i, k in enumerate(carriers) if k["open"] and k["kind"] == "good"]
            if not cand:
                continue
            i = rng.choice(cand)
            # a burst of chunks, fragmented arbitrarily, maybe cut in the middle of the last one (then the carrier closes)
            stream, pkts = "", []
            for _ in range(rng.randrange(1, 4)):
                if rng.random() < 0.25:
                    stream += pad(rng.choice([1, 2, 5, 64]))
                else:
                    p = newpkt()
                    stream += prefix(len(p) // 2) + p
                    pkts.append((len(stream), p))
            cutat = len(stream)
            close_after = False
            if rng.random() < 0.25:
                cutat = 2 * rng.randrange(0, len(stream) // 2 + 1)
                close_after = True
            s = stream[:cutat]
            pos = 0
            while pos < len(s):
                n = 2 * rng.choice([1, 1, 2, 3, 7, 50, 1000])
                ops.append("r%d:x%s" % (i, s[pos:pos + n])); mops.append("r%d:x%s" % (i, s[pos:pos + n]))
                pos += n
            if not close_after and rng.random() < 0.12:
                # many packets coalesced into ONE WebSocket message of several KiB (the model is given the same bytes in small
                # pieces: message boundaries must not matter, C05_arrivals_concatenate)
                bigmsg = ""
                while len(bigmsg) < 2 * rng.choice([2100, 3000, 6000]):
                    p = newpkt(rng.choice([10, 100, 400, 600]))
                    bigmsg += prefix(len(p) // 2) + p
                    carriers[i]["sent"].append(p)
                    upn[0] += 1
                ops.append("r%d:x%s" % (i, bigmsg))
                for q in range(0, len(bigmsg), 800):
                    mops.append("r%d:x%s" % (i, bigmsg[q:q + 800]))
            carriers[i]["sent"] += [p for end, p in pkts if end <= cutat]
            upn[0] += len([1 for end, p in pkts if end <= cutat])
            if ops and ops[-1].startswith("r%d:" % i):
                ops[-1] = ops[-1] + "@u%d" % upn[0]
            if close_after:
                ops.append("c%d" % i); mops.append("c%d" % i)
                carriers[i]["open"] = False
                closed_cids.add(carriers[i]["cid"])
        elif r < 0.9:
            c = rng.choice(cids)
            p = newpkt()
            ops.append("w:x%s:x%s" % (c, p)); mops.append("w:x%s:x%s" % (c, p))
            written[c].append(p)
            sendq[c].append(p)
            if len(open_carriers(c)) > 1 or c in closed_cids:
                deterministic = False
            flush_sends(c)
        else:
            cand = [i for i, k in enumerate(carriers) if k["open"]]
            if cand:
                i = rng.choice(cand)
                ops.append("c%d" % i); mops.append("c%d" % i)
                carriers[i]["open"] = False
                closed_cids.add(carriers[i]["cid"])
        if any(k["kind"] == "garbage" for k in carriers):
            pass
    # every ClientID that still has a carrier attached and never lost one to the peer must have been written everything
    # WriteTo accepted for it (whichever of its carriers took what): the driver waits for the byte total, so that a
    # loaded machine cannot make a packet look undelivered
    exps = []
    for c in cids:
        if c in closed_cids or not written[c] or not open_carriers(c):
            continue
        allc = [i for i, k in enumerate(carriers) if k["cid"] == c and k["kind"] in ("good", "garbage")]
        total = sum(len(prefix(len(p) // 2)) // 2 + len(p) // 2 for p in written[c])
        exps.append("@S%s=%d" % ("+".join(map(str, allc)), total))
    if exps:
        ops.append("z" + "".join(exps))
    # garbage carriers: random bytes after the header, upstream only
    for i, k in enumerate(carriers):
        if k["kind"] == "garbage" and k["open"]:
            g = "".join("%02x" % rng.choice([0x00, 0x3f, 0x40, 0x80, 0x81, 0xc0, 0xff, rng.randrange(256)]) for _ in range(rng.randrange(1, 10)))
            ops.append("r%d:x%s" % (i, g)); mops.append("r%d:x%s" % (i, g))
            deterministic_down = False
            k["garbage"] = g
    # final expectations: carriers that must end up closed (wrong token, closed by the peer) — the driver waits for them
    mustclose = [i for i, k in enumerate(carriers) if k["kind"] == "badtoken" or (k["kind"] in ("good", "garbage") and not k["open"] and k.get("cid"))]
    if mustclose:
        ops.append("z" + "".join("@k%d" % i for i in mustclose))
    return ops, mops, dict(cids=cids, carriers=carriers, written=written, deterministic=deterministic, expdown=expdown,
                           closed_cids=sorted(closed_cids))


# ------------------------------------------------------------------ timed scenarios (retention of the client map)

RETENTION = 60000    # clientMapTimeout in ms; the driver uses the server's own constant for this value


def timed_long(rng, mops):
    """the scenario of gen_scen on the timed model with the server's retention: clock readings on every op that reaches
    ClientMap.SendQueue, one idle gap of up to just under the retention somewhere, the sweeper running at arbitrary
    moments. The whole scenario spans less than the retention, so nothing may expire."""
    base = rng.choice([0, 0, 1, 1700000000000, -5, rng.randrange(0, 1 << 40)])
    budget = RETENTION - 1
    steps = [rng.choice([0, 0, 1, 2, 7, 20]) for _ in mops]
    small = sum(steps)
    gap = rng.choice([0, 1, 30000, budget - small, budget - small, rng.randrange(0, budget - small + 1)])
    gap_at = rng.randrange(0, len(mops) + 1)
    now = base
    out = []
    for j, (op, st) in enumerate(zip(mops, steps)):
        if j == gap_at:
            # the sweeper runs every half retention during the gap, and right at its end
            k = now + RETENTION // 2
            while k < now + gap:
                out.append("v%d" % k)
                k += RETENTION // 2
            now += gap
            out.append("v%d" % now)
        now += st
        if rng.random() < 0.1:
            out.append("v%d" % now)
        if op[0] in "rws":
            out.append("%s:%d" % (op, now))
        else:
            out.append(op)
    out.append("v%d" % (base + small + gap))
    return out


def gen_expiry(rng, idx, tmo, fresh=None):
    """an idle gap LONGER than retention + sweep period (the driver really waits 1.75 timeouts with a short timeout):
    every queue expires; packets queued for a session without a carrier are lost, an idle attached carrier is closed
    by the server, and afterwards the session gets a NEW queue that delivers only what was written after the gap.
    fresh = k: the first session's carrier is attached and idle through the gap (its record expires with an EMPTY queue)
    and after the gap k ClientIDs that have NO record (never seen before) are written to - first while they have no
    carrier at all, then on a carrier of their own: a new record gets a never-used queue (C05_new_queue_after_expiry), so
    nothing written to them may reach a carrier that presented another ClientID."""
    cids = ["%016x" % rng.getrandbits(64) for _ in range(rng.randrange(1, 3))]
    written = {}
    ops, mops = [], []
    now = [rng.randrange(0, 1000)]
    carriers = []     # dict(cid, open)
    expdown = {}
    downn = {}
    pk = [0]

    def tick():
        now[0] += rng.choice([0, 1, 3])

    def newpkt():
        pk[0] += 1
        return ("%04x%04x" % (idx & 0xffff, pk[0])) + "".join("%02x" % rng.randrange(256) for _ in range(rng.choice([0, 1, 5, 40])))

    def attach(c):
        i = len(carriers)
        carriers.append(dict(cid=c, kind="good", open=True, sent=[]))
        ops.append("n"); mops.append("n")
        tick()
        ops.append("r%d:x%s" % (i, TOKEN + c)); mops.append("r%d:x%s:%d" % (i, TOKEN + c, now[0]))
        return i

    def write(c, deliver_to):
        p = newpkt()
        tick()
        ops.append("w:x%s:x%s" % (c, p)); mops.append("w:x%s:x%s:%d" % (c, p, now[0]))
        written.setdefault(c, []).append(p)
        if deliver_to is not None:
            mops.append("s%d:%d" % (deliver_to, now[0]))
            expdown.setdefault(deliver_to, []).append(p)
            downn[deliver_to] = downn.get(deliver_to, 0) + len(prefix(len(p) // 2)) // 2 + len(p) // 2
            ops[-1] += "@d%d=%d" % (deliver_to, downn[deliver_to])
        return p

    lost = []
    attached = {}
    for n, c in enumerate(cids):
        mode = rng.choice(["idle-carrier", "no-carrier", "closed-carrier"])
        if fresh and n == 0:
            mode = "idle-carrier"
        if mode != "no-carrier":
            i = attach(c)
            for _ in range(rng.randrange(0, 3)):
                write(c, i)
            if mode == "closed-carrier":
                ops.append("c%d" % i); mops.append("c%d" % i)
                carriers[i]["open"] = False
            else:
                attached[c] = i
        if mode != "idle-carrier":
            for _ in range(rng.randrange(1, 4)):
                lost.append(write(c, None))
    # the gap: in the model the sweeper runs once, 1.75 timeouts after the last touch
    now[0] += tmo + tmo // 2 + tmo // 4
    ops.append("V%d" % now[0]); mops.append("V%d" % now[0])
    for c, i in attached.items():
        # the write loop of the idle carrier finds its queue closed and closes the carrier
        mops.append("s%d:%d" % (i, now[0]))
        carriers[i]["open"] = False
        carriers[i]["expired"] = True
    if attached:
        ops[-1] += "".join("@k%d" % i for i in attached.values())
    for _ in range(fresh or 0):
        # a ClientID without a record: packets queue for it while it has no carrier, then its own carrier takes them
        b = "%016x" % rng.getrandbits(64)
        cids.append(b)
        queued = [write(b, None) for _ in range(rng.randrange(1, 4))]
        j = attach(b)
        for p in queued:
            mops.append("s%d:%d" % (j, now[0]))
            expdown.setdefault(j, []).append(p)
            downn[j] = downn.get(j, 0) + len(prefix(len(p) // 2)) // 2 + len(p) // 2
        ops[-1] += "@d%d=%d" % (j, downn[j])
        for _ in range(rng.randrange(0, 3)):
            write(b, j)
    for c in cids[:len(cids) - (fresh or 0)]:
        if rng.random() < 0.8:
            i = attach(c)
            for _ in range(rng.randrange(1, 3)):
                write(c, i)
        else:
            write(c, None)
    return ops, mops, dict(cids=cids, carriers=carriers, expdown=expdown, lost=lost, written=written, fresh=fresh or 0)


def check_expiry(meta, d):
    """the property on what each carrier was written in a scenario with an expiry: only packets WriteTo was given for the
    ClientID the carrier presented (whichever side of the gap), none twice"""
    bad, seen = [], {}
    for i, k in enumerate(meta["carriers"]):
        st, wire = d.get("k%d" % i, "open:x").split(":")
        chunks, e = c09.py_decode(wire[1:])
        mine = meta["written"].get(k["cid"], [])
        for p in chunks:
            if p not in mine:
                owner = [cc for cc, l in meta["written"].items() if p in l]
                bad.append(("downstream-wrong-session" if owner else "downstream-foreign-packet",
                            "carrier %d (ClientID %s%s) was written packet %s.. addressed to %s%s" % (
                                i, k["cid"], ", attached and idle for longer than the retention: its record had expired with an empty queue"
                                if k.get("expired") else "", p[:16], owner[0] if owner else "nobody",
                                ", a ClientID that had no record when WriteTo was called" if owner and owner[0] in meta["cids"][len(meta["cids"]) - meta["fresh"]:] else "")))
            seen[p] = seen.get(p, 0) + 1
    for p, cnt in seen.items():
        if cnt > 1:
            bad.append(("downstream-duplicated", "packet %s.. was written to %d carriers" % (p[:16], cnt)))
    return bad


# ------------------------------------------------------------------ moving sessions through Listen/Accept

def kcp_seg(conv, sn, data, ts=0, una=0, wnd=128):
    import struct
    return struct.pack("<IBBHIIII", conv, 81, 0, wnd, ts & 0xffffffff, sn, una, len(data)) + data


def smux_frame(cmd, sid, data=b""):
    import struct
    return struct.pack("<BBHI", 2, cmd, len(data), sid) + data


def scen_id(idx, salt):
    return "%08x" % (0xC5000000 | ((salt & 0xff) << 16) | (idx & 0xffff))


def kcp_push_segments(wire_hex):
    """what a carrier received downstream: encapsulation chunks -> KCP segments; returns [(conv, cmd, sn, data)] or None if
    the bytes do not end at a chunk boundary / a packet is not a sequence of whole segments"""
    import struct
    chunks, err = c09.py_decode(wire_hex)
    if err != "eof":
        return None
    out = []
    for ch in chunks:
        p = bytes.fromhex(ch)
        while p:
            if len(p) < 24:
                return None
            conv, cmd, frg, wnd, ts, sn, una, ln = struct.unpack("<IBBHIIII", p[:24])
            if len(p) < 24 + ln:
                return None
            out.append((conv, cmd, sn, p[24:24 + ln]))
            p = p[24 + ln:]
    return out


def smux_payload(stream):
    import struct
    data = b""
    while len(stream) >= 8:
        ver, cmd, ln, sid = struct.unpack("<BBHI", stream[:8])
        if len(stream) < 8 + ln:
            break
        if cmd == 2:
            data += stream[8:8 + ln]
        stream = stream[8 + ln:]
    return data


def gen_move(rng, idx, salt=0):
    """Black-box scenario for the real Listen/Accept path. 1..3 client sessions (ClientID, KCP conversation, one smux
    stream, application bytes up and down), each moving over several carriers: sequentially, overlapping, after an idle gap
    shorter than the retention, cut in mid-packet; a new carrier re-sends segments the old one already carried (as KCP
    does) and continues; WebSocket message boundaries are arbitrary (one byte .. tens of KiB, many packets per message,
    packets split across messages); the application behind Accept writes downstream data at arbitrary moments (also while
    no carrier is attached); next to them carriers WITHOUT the token (wrong 8 bytes followed by 0..12 more, all at once or
    trickled) and carriers that send fewer than 8 bytes, all of which then stay silent.
    Returns impl ops, model ops, meta."""
    sid_hex = scen_id(idx, salt)
    nsess = rng.randrange(1, 4)
    S = []
    for j in range(nsess):
        cid = "%016x" % rng.getrandbits(64)
        conv = rng.choice([rng.getrandbits(32), 1, 0xffffffff, 0x00f10000 | rng.getrandbits(16)])
        big = rng.random() < 0.25
        app = bytes.fromhex(sid_hex) + bytes([j]) + bytes(rng.randrange(256) for _ in range(rng.choice([20000, 64000]) if big else rng.choice([1, 5, 40, 200, 700])))
        sid = rng.choice([1, 3, 7])
        stream = smux_frame(0, sid)
        pos = 0
        while pos < len(app):
            n = rng.choice([1000, 4000]) if big else rng.choice([1, 3, 16, 100, 400])
            if pos == 0:
                n = first_frame = rng.choice([5, 8, 16])   # the label by which the driver attributes the connection
            stream += smux_frame(2, sid, app[pos:pos + n])
            pos += n
        segs, pos = [], 0
        while pos < len(stream):
            n = rng.choice([500, 700]) if big else rng.choice([1, 7, 8, 20, 60, 300])
            if pos == 0:
                # stream open + the whole first frame (smux hands a frame to the stream only when it is complete) in the first
                # segment: the session is accepted and labelled as soon as that segment arrives
                n = max(n, 16 + first_frame)
            segs.append(kcp_seg(conv, len(segs), stream[pos:pos + n], ts=rng.getrandbits(20)))
            pos += n
        down = bytes(rng.randrange(256) for _ in range(rng.choice([0, 1, 30, 300, 1200])))
        S.append(dict(j=j, cid=cid, conv=conv, app=app, segs=segs, sent=0, carriers=[], hops=rng.randrange(1, 4), big=big,
                      down=down, down_written=0))
    if nsess > 1 and rng.random() < 0.3:
        S[1]["conv"] = S[0]["conv"]      # same KCP conversation id in two sessions: only the ClientID tells them apart
        S[1]["segs"] = [kcp_seg(S[0]["conv"], k, s[24:]) for k, s in enumerate(S[1]["segs"])]
    ops, mops = ["i" + sid_hex], []
    base = rng.choice([0, 5, 1700000000000])
    now = [base]
    ncar = [0]
    kinds = set()
    tokenless = []      # dict(i, kind, must_close)

    def both(o, timed=False):
        ops.append(o)
        mops.append(o + (":%d" % now[0] if timed else ""))

    def send_msgs(i, hexbytes, sizes):
        """one impl op = one WebSocket message; the model gets the same bytes in pieces of at most 400 bytes (the read loop
        does not depend on the fragmentation: C05_arrivals_concatenate)"""
        pos = 0
        while pos < len(hexbytes):
            n = 2 * rng.choice(sizes)
            msg = hexbytes[pos:pos + n]
            ops.append("r%d:x%s" % (i, msg))
            for q in range(0, len(msg), 800):
                now[0] += rng.choice([0, 1])
                mops.append("r%d:x%s:%d" % (i, msg[q:q + 800], now[0]))
            pos += n

    SMALL = [1, 5, 24, 30, 100, 1000]
    BIG = [3000, 9000, 30000, 65536]

    def new_carrier(s):
        i = ncar[0]
        ncar[0] += 1
        both("n")
        s["carriers"].append(i)
        send_msgs(i, TOKEN + s["cid"], [3, 8, 16, 1000])
        return i

    def seg_hex(seg):
        return prefix(len(seg)) + seg.hex()

    def progress(s, i, upto, replay):
        if replay == "all":
            idxs = list(range(0, s["sent"]))
        elif replay == "some":
            idxs = [k for k in range(0, s["sent"]) if rng.random() < 0.5]
        else:
            idxs = []
        idxs += list(range(s["sent"], upto))
        if rng.random() < 0.2:
            rng.shuffle(idxs)         # KCP copes with reordering
        # the segments as one byte stream, cut into WebSocket messages of arbitrary sizes
        send_msgs(i, "".join(seg_hex(s["segs"][k]) for k in idxs), BIG if (s["big"] or rng.random() < 0.15) else SMALL)
        if s["big"]:
            kinds.add("big-messages")
        s["sent"] = max(s["sent"], upto)

    def app_write(s):
        # the application behind Accept writes some of its downstream bytes (possible once the session was accepted)
        if s["sent"] == 0 or s["down_written"] >= len(s["down"]):
            return
        n = rng.randrange(1, len(s["down"]) - s["down_written"] + 1)
        ops.append("w%d:x%s" % (s["j"], s["down"][s["down_written"]:s["down_written"] + n].hex()))
        s["down_written"] += n
        kinds.add("downstream")

    def add_tokenless():
        i = ncar[0]
        ncar[0] += 1
        both("n")
        kind = rng.choice(["wrong-token", "wrong-token", "wrong-token-trickled", "short"])
        kinds.add(kind)
        if kind == "short":
            hdr = (TOKEN + "%016x" % rng.getrandbits(64))[:2 * rng.randrange(0, 8)]
            if hdr:
                send_msgs(i, hdr, [1, 3, 8])
            tokenless.append(dict(i=i, kind=kind, must_close=False))
        else:
            bad = "%016x" % (int(TOKEN, 16) ^ (1 << rng.randrange(64)))
            hdr = bad + "".join("%02x" % rng.randrange(256) for _ in range(rng.choice([0, 0, 1, 7, 8, 12, 40])))
            send_msgs(i, hdr, [1] if kind == "wrong-token-trickled" else [8, 16, 1000])
            tokenless.append(dict(i=i, kind=kind, must_close=True))
            ops[-1] += "@k%d" % i     # ... and then it stays silent: the server must close it

    active = list(range(nsess))
    cur = {}
    while active:
        if rng.random() < 0.15:
            add_tokenless()
        j = rng.choice(active)
        s = S[j]
        last = s["hops"] <= 1
        upto = len(s["segs"]) if last else rng.randrange(s["sent"], len(s["segs"]) + 1)
        if j not in cur:
            cur[j] = new_carrier(s)
            # kcp-go's receive window is 32 segments until acceptSessions has enlarged it: the first burst stays below that
            # and the driver waits for the connection to be accepted before more is sent
            first = min(len(s["segs"]), 25) if last else max(1, min(upto, 25))
            progress(s, cur[j], first, None)
            ops[-1] += "@a%d" % sum(1 for x in S if x["sent"] > 0)
            if first < upto:
                progress(s, cur[j], upto, None)
        else:
            mode = rng.choice(["sequential", "overlapping", "gap", "cut-mid-packet"])
            kinds.add(mode)
            old = cur[j]
            if mode == "sequential":
                both("c%d" % old)
                if rng.random() < 0.5:
                    app_write(s)       # while no carrier is attached: the packets wait in the session's queue
                cur[j] = new_carrier(s)
            elif mode == "overlapping":
                cur[j] = new_carrier(s)
                if s["sent"] < upto:
                    send_msgs(old, seg_hex(s["segs"][s["sent"]]), SMALL)
            elif mode == "gap":
                both("c%d" % old)
                if rng.random() < 0.5:
                    app_write(s)
                g = rng.choice([20, 80, 250])
                ops.append("g%d" % g)
                gm = min(rng.choice([g, 30000, RETENTION - 1]), max(0, RETENTION - 1 - (now[0] - base)))
                k = now[0] + RETENTION // 2
                while k < now[0] + gm:
                    mops.append("v%d" % k)
                    k += RETENTION // 2
                now[0] += gm
                mops.append("v%d" % now[0])
                cur[j] = new_carrier(s)
            else:
                if s["sent"] < len(s["segs"]):
                    h = seg_hex(s["segs"][s["sent"]])
                    send_msgs(old, h[:2 * rng.randrange(1, len(h) // 2)], SMALL)
                both("c%d" % old)
                cur[j] = new_carrier(s)
            progress(s, cur[j], upto, rng.choice(["all", "all", "some", None]) if not s["big"] else None)
        if rng.random() < 0.6:
            app_write(s)
        s["hops"] -= 1
        if last:
            if len(s["carriers"]) > 1 and not s["big"]:
                # always re-send from sn 0 on the last carrier: harmless for one session, but a session that was split on
                # the move then shows up as a second connection
                send_msgs(cur[j], "".join(seg_hex(x) for x in s["segs"]), SMALL)
            while s["down_written"] < len(s["down"]):
                app_write(s)
            active.remove(j)
    if rng.random() < 0.5:
        add_tokenless()
    total = sum(len(s["app"]) - 5 for s in S)
    fin = "z@a%d@t%d" % (nsess, total)
    for s in S:
        if s["down"]:
            fin += "@e%s=%d" % ("+".join(map(str, s["carriers"])), len(s["down"]))
    fin += "".join("@k%d" % t["i"] for t in tokenless if t["must_close"])
    ops.append(fin)
    return ops, mops, dict(sid=sid_hex, ncar=ncar[0], tokenless=tokenless, model=not any(s["big"] for s in S),
                           sessions=[dict(j=s["j"], cid=s["cid"], conv=s["conv"], app=s["app"].hex(), down=s["down"].hex(),
                                          carriers=s["carriers"], last=cur[s["j"]]) for s in S],
                           kinds=sorted(kinds) or ["single-carrier"])


def gen_oversize(rng, idx):
    """One carrier's OVERSIZED packet must not affect the other sessions. 1..2 sessions transfer; in mid-transfer some carrier
    (valid token) delivers ONE encapsulated data chunk of 1501..65535 bytes - legal in the encapsulation, longer than the
    1500-byte buffer kcp-go's listener reads into (QueuePacketConn.ReadFrom truncates it, KCP discards the stump): either a
    carrier of its own, with a fresh ClientID, or the carrier of one of the sessions. Afterwards the sessions finish their
    transfer in both directions, and a NEW session that starts only then is accepted and read to the end.
    These scenarios run against a server of their own (second c05bb process), so that whatever the packet does is
    attributed to it."""
    sid_hex = scen_id(idx, 0xb5)
    nsess = rng.randrange(1, 3)
    L = rng.choice([1501, 1501, 1502, 1600, 2000, 4096, 8192, 16384, 65535])
    own = rng.random() < 0.4          # on the carrier of session 0 (else: a carrier and ClientID of its own)
    S = []
    for j in range(nsess + 1):        # the last one starts after the oversized packet
        cid = "%016x" % rng.getrandbits(64)
        conv = rng.getrandbits(32) | 0x01000000
        app = bytes.fromhex(sid_hex) + bytes([j]) + bytes(rng.randrange(256) for _ in range(rng.choice([60, 200, 500])))
        stream = smux_frame(0, 3) + smux_frame(2, 3, app[:8]) + b"".join(smux_frame(2, 3, app[i:i + 64]) for i in range(8, len(app), 64))
        n0 = 24
        segs = [kcp_seg(conv, 0, stream[:n0])] + [kcp_seg(conv, 1 + k, stream[i:i + 48]) for k, i in enumerate(range(n0, len(stream), 48))]
        down = bytes(rng.randrange(256) for _ in range(rng.choice([1, 40, 300])))
        S.append(dict(j=j, cid=cid, conv=conv, app=app, segs=segs, down=down, carriers=[]))
    ops, mops = ["i" + sid_hex], []
    now = [rng.choice([0, 7, 1700000000000])]
    ncar = [0]

    def send(i, hexbytes, exp=""):
        ops.append("r%d:x%s%s" % (i, hexbytes, exp))
        for q in range(0, len(hexbytes), 800):
            now[0] += rng.choice([0, 1])
            mops.append("r%d:x%s:%d" % (i, hexbytes[q:q + 800], now[0]))

    def carrier(cid):
        i = ncar[0]
        ncar[0] += 1
        ops.append("n"); mops.append("n")
        send(i, TOKEN + cid)
        return i

    def seghex(seg):
        return prefix(len(seg)) + seg.hex()

    for k, s_ in enumerate(S[:nsess]):
        i = carrier(s_["cid"])
        s_["carriers"].append(i)
        half = max(1, len(s_["segs"]) // 2)
        s_["half"] = half
        send(i, "".join(seghex(x) for x in s_["segs"][:half]), "@a%d" % (k + 1))
        ops.append("w%d:x%s" % (s_["j"], s_["down"][:len(s_["down"]) // 2].hex()))
    # ---- the oversized packet: a KCP push header whose length field claims the whole chunk, then filler
    if own:
        oc, oconv, osn = S[0]["carriers"][0], S[0]["conv"], 0x7fff0000 + rng.randrange(1000)
        ocid = S[0]["cid"]
    else:
        ocid = "%016x" % rng.getrandbits(64)
        oc, oconv, osn = carrier(ocid), rng.getrandbits(32) | 0x02000000, 0
    big = kcp_seg(oconv, osn, bytes((7 * x + idx) & 255 for x in range(L - 24)))
    assert len(big) == L
    send(oc, seghex(big))
    ops.append("g30")      # (no expectation to wait for: the packet must have NO visible effect)
    # ---- afterwards: the sessions finish, a new one starts and finishes
    for s_ in S[:nsess]:
        i = s_["carriers"][0]
        send(i, "".join(seghex(x) for x in s_["segs"][s_["half"]:]))
        ops.append("w%d:x%s" % (s_["j"], s_["down"][len(s_["down"]) // 2:].hex()))
    late = S[nsess]
    i = carrier(late["cid"])
    late["carriers"].append(i)
    send(i, "".join(seghex(x) for x in late["segs"]), "@a%d" % (nsess + 1))
    ops.append("w%d:x%s" % (late["j"], late["down"].hex()))
    total = sum(len(s_["app"]) - 5 for s_ in S)
    fin = "z@a%d@t%d" % (nsess + 1, total)
    for s_ in S:
        fin += "@e%s=%d" % ("+".join(map(str, s_["carriers"])), len(s_["down"]))
    ops.append(fin)
    model = L <= 2000
    return ops, mops, dict(sid=sid_hex, ncar=ncar[0], tokenless=[], model=model, oversize=dict(L=L, own=own, carrier=oc, cid=ocid),
                           sessions=[dict(j=s_["j"], cid=s_["cid"], conv=s_["conv"], app=s_["app"].hex(), down=s_["down"].hex(),
                                          carriers=s_["carriers"], last=s_["carriers"][-1]) for s_ in S],
                           kinds=["oversized-packet-" + ("own-carrier" if own else "other-clientid") + ("" if model else "-implementation-only")])


# ------------------------------------------------------------------ failing downstream writes (Model/CarrierFail.v)

def frame(p):
    return prefix(len(p) // 2) + p


def gen_fail(rng, idx):
    """A FAILING downstream write on one carrier, followed by carriers of OTHER ClientIDs (and a new carrier of the same
    one) receiving packets. turbotunnelMode over driver-made connections whose Write fails at a chosen byte (in-package
    driver op frun). At most one carrier per ClientID is open at a time and every effect is waited for, so the case is
    deterministic: every byte written to every carrier is predicted by the model (Model/CarrierFail.v frun).
    Returns impl ops, model ops, meta."""
    ncid = rng.randrange(2, 4)
    cids = ["%016x" % rng.getrandbits(64) for _ in range(ncid)]
    if rng.random() < 0.2:
        cids[1] = cids[0][:14] + "%02x" % ((int(cids[0][14:], 16) + 1) & 255)
    ops, mops = [], []
    carriers = []                    # dict(cid, kind, open, failed)
    written = {c: [] for c in cids}
    queued = {c: [] for c in cids}   # accepted, not yet taken by a carrier
    wire = {}                        # carrier -> hex expected on its connection
    lost = []
    pk = [0]
    big = [False]

    def newpkt():
        pk[0] += 1
        n = rng.choice([0, 1, 3, 20, 40, 62, 63, 64, 70, 200, 1400, 5000])
        if n > 1000:
            # at most one big packet per case (5000: more than bufio's buffer, the frame is written in two pieces)
            n = n if pk[0] >= 0 and not big[0] else 30
            big[0] = True
        return ("%04x%04x" % ((0xf000 | idx) & 0xffff, pk[0])) + "".join("%02x" % rng.randrange(256) for _ in range(n))

    def cur(c):
        l = [i for i, k in enumerate(carriers) if k["cid"] == c and k["open"]]
        return l[0] if l else None

    def drain(c, i):
        # carrier i (the only open one of c) takes everything queued for c
        while queued[c]:
            p = queued[c].pop(0)
            mops.append("s%d" % i)
            wire[i] = wire.get(i, "") + frame(p)
        if wire.get(i):
            ops[-1] += "@d%d=%d" % (i, len(wire[i]) // 2)

    def attach(c):
        i = len(carriers)
        carriers.append(dict(cid=c, kind="good", open=True, failed=False, sent=[]))
        ops.append("n"); mops.append("n")
        hdr = TOKEN + c
        ops.append("r%d:x%s" % (i, hdr)); mops.append("r%d:x%s" % (i, hdr))
        drain(c, i)
        return i

    def write(c):
        p = newpkt()
        written[c].append(p); queued[c].append(p)
        ops.append("w:x%s:x%s" % (c, p)); mops.append("w:x%s:x%s" % (c, p))
        i = cur(c)
        if i is not None:
            drain(c, i)
        return p

    def fail(c):
        """the next write(s) on c's open carrier: `good` packets go through, the one after them fails after n bytes"""
        i = cur(c)
        good = rng.choice([0, 0, 1, 2])
        ps = [newpkt() for _ in range(good + 1)]
        fr = frame(ps[-1])
        n = rng.choice([0, 0, 1, 2, 3, len(fr) // 2 - 1, rng.randrange(0, len(fr) // 2)])
        budget = sum(len(frame(p)) // 2 for p in ps[:-1]) + n
        ops.append("F%d:%d" % (i, budget))
        for j, p in enumerate(ps):
            written[c].append(p)
            ops.append("w:x%s:x%s" % (c, p)); mops.append("w:x%s:x%s" % (c, p))
            if j < good:
                mops.append("s%d" % i)
                wire[i] = wire.get(i, "") + frame(p)
                ops[-1] += "@d%d=%d" % (i, len(wire[i]) // 2)
        mops.append("F%d:%d" % (i, n))
        wire[i] = wire.get(i, "") + fr[:2 * n]
        ops[-1] += "@k%d@d%d=%d" % (i, i, len(wire[i]) // 2)
        carriers[i]["open"] = False
        carriers[i]["failed"] = True
        lost.append(ps[-1])

    a, b = cids[0], cids[1]
    attach(a)
    for _ in range(rng.choice([0, 0, 1, 2])):
        write(a)
    early = rng.random() < 0.5
    if early:
        attach(b)
        if rng.random() < 0.5:
            write(b)
    fail(a)
    for _ in range(rng.choice([0, 1, 2])):
        write(a)                                  # queued: a has no carrier now
    if not early:
        attach(b)
    for _ in range(rng.randrange(1, 4)):
        write(b)                                  # the next carrier to be written anything presented ANOTHER ClientID
    for c in cids[2:]:
        if rng.random() < 0.5:
            write(c)
        attach(c)
        write(c)
    if rng.random() < 0.7:
        attach(a)                                 # a's next carrier: what was queued after the failure, not the lost packet
        write(a)
    if rng.random() < 0.4:
        fail(b)
        write(rng.choice(cids))
        if rng.random() < 0.5:
            attach(b)
            write(b)
    if rng.random() < 0.3:
        c = rng.choice(cids)
        i = cur(c)
        if i is not None:
            ops.append("c%d@k%d" % (i, i)); mops.append("c%d" % i)      # the peer closes an idle carrier
            carriers[i]["open"] = False
            write(c)
    ops.append("z" + "".join("@k%d" % i for i, k in enumerate(carriers) if not k["open"]))
    return ops, mops, dict(cids=cids, carriers=carriers, written=written, wire=wire, lost=lost)


def check_fail(meta, d):
    """the property on what each carrier's connection was written: whole frames of packets addressed to the ClientID the
    carrier presented, then nothing - or, on a carrier whose write failed, the beginning of one more such frame"""
    bad = []
    seen = {}
    for i, k in enumerate(meta["carriers"]):
        st, w = d.get("k%d" % i, "open:x").split(":")
        w = w[1:]
        mine = meta["written"].get(k["cid"], [])
        chunks, err = c09.py_decode(w)
        for p in chunks:
            if p not in mine:
                owner = [cc for cc, l in meta["written"].items() if p in l]
                bad.append(("downstream-wrong-session" if owner else "downstream-foreign-packet",
                            "carrier %d (ClientID %s) was written packet %s.. addressed to %s%s" % (
                                i, k["cid"], p[:16], owner[0] if owner else "nobody",
                                " - the packet whose write had FAILED on another carrier" if p in meta["lost"] else "")))
            seen[p] = seen.get(p, 0) + 1
        whole = sum(len(frame(p)) for p in chunks)
        rest = w[whole:]
        if rest:
            if not k["failed"]:
                bad.append(("downstream-not-framed", "carrier %d downstream does not end at a chunk boundary (%s)" % (i, err)))
            elif not any(frame(p).startswith(rest) for p in mine):
                owner = [cc for cc, l in meta["written"].items() if any(frame(p).startswith(rest) for p in l)]
                bad.append(("downstream-wrong-session" if owner else "downstream-foreign-packet",
                            "carrier %d (ClientID %s), whose write failed, was written %d bytes that do not begin a packet addressed to it%s" % (
                                i, k["cid"], len(rest) // 2, " (they begin a packet of %s)" % owner[0] if owner else "")))
        want, _ = c09.py_decode(meta["wire"].get(i, ""))
        if k["open"] and not bad and chunks != want and want[:len(chunks)] == chunks:
            bad.append(("downstream-not-delivered", "carrier %d (the only open carrier of ClientID %s) should have been written %d packets, got %d" % (
                i, k["cid"], len(want), len(chunks))))
    for p, n in seen.items():
        if n > 1:
            bad.append(("downstream-duplicated", "packet %s.. was written to %d carriers" % (p[:16], n)))
    return bad


def gen_move_long(rng, idx, gap_ms=95000):
    """one session whose only carrier is cut in mid-transfer; NO carrier for longer than retention + sweep period (really
    waited for: thorough tier only); then a new carrier re-sends everything. The client map has forgotten the session
    (its queued downstream packets are gone) but kcp-go's session table has not: still ONE accepted connection whose
    stream continues — which is what the model's listener view says."""
    sid_hex = scen_id(idx, 0xee)
    cid = "%016x" % rng.getrandbits(64)
    conv = rng.getrandbits(32)
    app = bytes.fromhex(sid_hex) + bytes([0]) + bytes(rng.randrange(256) for _ in range(300))
    stream = smux_frame(0, 3) + b"".join(smux_frame(2, 3, app[i:i + 50]) for i in range(0, len(app), 50))
    segs = [kcp_seg(conv, k, stream[i:i + 40]) for k, i in enumerate(range(0, len(stream), 40))]
    half = len(segs) // 2
    ops, mops = ["i" + sid_hex, "n", "r0:x" + TOKEN + cid], ["n", "r0:x%s:0" % (TOKEN + cid)]
    now = 1
    for s in segs[:half]:
        h = prefix(len(s)) + s.hex()
        ops.append("r0:x" + h); mops.append("r0:x%s:%d" % (h, now))
        now += 1
    ops[-1] += "@a1"
    ops += ["c0", "g%d" % gap_ms]
    mops += ["c0"] + ["v%d" % (now + k) for k in range(30000, gap_ms + 1, 30000)]
    now += gap_ms
    ops += ["n", "r1:x" + TOKEN + cid]; mops += ["n", "r1:x%s:%d" % (TOKEN + cid, now)]
    for s in segs:
        h = prefix(len(s)) + s.hex()
        ops.append("r1:x" + h); mops.append("r1:x%s:%d" % (h, now))
        now += 1
    ops.append("z@a1@t%d" % (len(app) - 5))
    return ops, mops, dict(sid=sid_hex, ncar=2, tokenless=[], model=True,
                           sessions=[dict(j=0, cid=cid, conv=conv, app=app.hex(), down="", carriers=[0, 1], last=1)],
                           kinds=["gap-beyond-retention"])


def gen_move_two_convs(rng, idx):
    """ONE ClientID, TWO KCP conversations one after the other on its carrier - what client/lib never does (newSession makes
    one conversation per ClientID), i.e. the premise of C05_one_accepted_connection broken on purpose. The first segment of
    the second conversation (sn = 0) makes kcp-go's listener close the connection it accepted for the ClientID and accept a
    second one: two accepted connections, the first with the whole first stream, as the model's listener view says
    (C05_two_convs_two_connections). Expected by the model - not a violation."""
    sid_hex = scen_id(idx, 0xdd)
    cid = "%016x" % rng.getrandbits(64)
    conv1 = rng.randrange(1, 1 << 31)
    conv2 = conv1 ^ (1 << rng.randrange(31))
    if conv2 == 0:
        conv2 = conv1 + 1
    ops, mops = ["i" + sid_hex, "n", "r0:x" + TOKEN + cid], ["n", "r0:x%s:0" % (TOKEN + cid)]
    now, sess, total = 1, [], 0
    for j, conv in enumerate((conv1, conv2)):
        app = bytes.fromhex(sid_hex) + bytes([j]) + bytes(rng.randrange(256) for _ in range(rng.randrange(60, 200)))
        stream = smux_frame(0, 3) + b"".join(smux_frame(2, 3, app[i:i + 50]) for i in range(0, len(app), 50))
        for k, i in enumerate(range(0, len(stream), 40)):
            seg = kcp_seg(conv, k, stream[i:i + 40])
            h = prefix(len(seg)) + seg.hex()
            ops.append("r0:x" + h); mops.append("r0:x%s:%d" % (h, now))
            now += 1
        total += len(app) - 5
        # the whole stream of this conversation has been read before the next conversation starts
        ops[-1] += "@a%d@t%d" % (j + 1, total)
        sess.append(dict(j=j, cid=cid, conv=conv, app=app.hex(), down="", carriers=[0], last=0))
    return ops, mops, dict(sid=sid_hex, ncar=1, tokenless=[], model=True, sessions=sess, two_convs=True,
                           kinds=["two-conversations-one-clientid"])


def check_two_convs(meta, md):
    """what the model's listener view must say of a two-conversation case: two connections under the one ClientID, in
    order, the first closed, the second live"""
    acc = [] if md.get("acc", "-") == "-" else [x.split(":") for x in md["acc"].split(",")]
    s0, s1 = meta["sessions"]
    want = [("x" + s0["cid"], str(s0["conv"]), "0"), ("x" + s1["cid"], str(s1["conv"]), "1")]
    got = [(a[0], a[1], a[3]) for a in acc if len(a) == 4]
    return None if got == want else "model listener view %s, expected %s" % (got, want)


def check_move(meta, d, md):
    """the property on the black-box driver's answer (d) and the comparison with the model's listener view (md)"""
    bad = []
    sess = meta["sessions"]
    got = [] if d.get("st", "-") == "-" else [x.split(":") for x in d["st"].split(",")]
    got = [(int(j), x[1:]) for j, x in got]
    acc = int(d.get("accepted", "-1"))
    want = {s["j"]: s["app"][10:] for s in sess}        # without the 5 label bytes the driver consumed
    if int(d.get("stray", "0")) > 0:
        bad.append(("upstream-foreign-packet", "the server accepted %s connection(s) whose stream does not begin like any session's" % d["stray"]))
    if acc > len(sess):
        bad.append(("session-split-on-move", "%d client session(s), each moving over its carriers, surfaced as %d accepted connections" % (len(sess), acc)))
    elif acc < len(sess):
        mixed = [st for j, st in got if not want.get(j, "").startswith(st)]
        if mixed:
            bad.append(("session-merged", "%d client sessions with distinct ClientIDs surfaced as %d accepted connection(s), one of them "
                        "delivering bytes that are no prefix of its session's stream" % (len(sess), acc)))
        else:
            bad.append(("session-not-accepted", "%d client session(s) but only %d accepted connection(s): a session's packets never made "
                        "a connection" % (len(sess), acc)))
    else:
        for j, st in got:
            w = want.get(j)
            if w is None or st == w:
                continue
            if w.startswith(st):
                bad.append(("upstream-lost-or-duplicated", "the connection of session %d delivered only %d of the %d bytes its client sent: upstream "
                            "packets were lost (the stream did not continue)" % (j, len(st) // 2, len(w) // 2)))
            else:
                other = [jj for jj, ww in want.items() if jj != j and st[:40] and st[:40] in ww]
                bad.append(("upstream-wrong-session" if other else "session-stream-broken",
                            "the connection of session %d delivered bytes that are not a prefix of what its client sent%s" % (
                                j, " (they belong to session %d)" % other[0] if other else "")))
            break
    # carriers without the token: closed by the server, nothing written to them
    for t in meta["tokenless"]:
        st, wire = d.get("k%d" % t["i"], "open:x").split(":")
        if wire[1:]:
            bad.append(("no-token-carrier-got-data", "carrier %d (%s) received downstream bytes" % (t["i"], t["kind"])))
        if t["must_close"] and st != "closed":
            bad.append(("tokenless-carrier-not-closed", "carrier %d sent 8 bytes that are not the turbotunnel token (%s) and then stayed silent: "
                        "the server did not close it" % (t["i"], t["kind"])))
    # downstream: what the carriers of a session received decodes to KCP segments of that session's conversation whose
    # data, in sequence-number order, is a prefix of what the application behind Accept wrote to that session
    for s in sess:
        segs = {}
        # conversations of the same ClientID (one, except in the two-conversation case) share its carriers
        own = set(x["conv"] for x in sess if x["cid"] == s["cid"])
        for i in s["carriers"]:
            st, wire = d.get("k%d" % i, "open:x").split(":")
            ks = kcp_push_segments(wire[1:])
            if ks is None:
                bad.append(("downstream-not-framed", "carrier %d downstream is not a sequence of whole packets of whole KCP segments" % i))
                continue
            for conv, cmd, sn, data in ks:
                if conv not in own:
                    bad.append(("downstream-wrong-session", "carrier %d (ClientID %s, conversation %d) was written a KCP segment of conversation %d" % (
                        i, s["cid"], s["conv"], conv)))
                    break
                if cmd == 81 and conv == s["conv"]:
                    segs.setdefault(sn, data)
        stream, sn = b"", 0
        while sn in segs:
            stream += segs[sn]
            sn += 1
        echoed = smux_payload(stream).hex()
        if not s["down"].startswith(echoed):
            owner = [x["j"] for x in sess if x is not s and echoed[:16] and echoed[:16] in x["down"]]
            bad.append(("downstream-wrong-session" if owner else "downstream-foreign-packet",
                        "the carriers of session %d were written application data that is not a prefix of what was written to that session%s" % (
                            s["j"], " (it was written to session %d)" % owner[0] if owner else "")))
        elif echoed != s["down"] and not bad:
            bad.append(("downstream-not-delivered", "session %d: only %d of the %d bytes the application wrote reached the session's carriers, "
                        "although the last one stayed attached" % (s["j"], len(echoed) // 2, len(s["down"]) // 2)))
    macc = [] if md.get("acc", "-") == "-" else md["acc"].split(",")
    return bad, len(macc)


def parse_impl(o):
    d = {}
    for tok in o.split(" "):
        k, v = tok.split("=", 1)
        d[k] = v
    return d


def check_props(meta, d):
    bad = []
    carriers = meta["carriers"]
    ups = [] if d.get("up", "-") == "-" else [u.split(":") for u in d["up"].split(",")]
    ups = [(c[1:], p[1:]) for c, p in ups]
    sent_by_cid = {}
    for k in carriers:
        if k["cid"] and k["kind"] == "good":
            sent_by_cid.setdefault(k["cid"], []).extend(k["sent"])
    garbage_cids = set(k["cid"] for k in carriers if k["kind"] == "garbage")
    for c, p in ups:
        if c in garbage_cids:
            continue
        if p not in sent_by_cid.get(c, []):
            owner = [cc for cc, l in sent_by_cid.items() if p in l]
            bad.append(("upstream-wrong-session" if owner else "upstream-foreign-packet",
                        "packet %s.. surfaced for ClientID %s but was sent %s" % (p[:16], c, ("on a carrier of " + owner[0]) if owner else "by nobody (partial / merged / invented)")))
    for c, l in sent_by_cid.items():
        if c in garbage_cids:
            continue
        got = [p for cc, p in ups if cc == c]
        for p in l:
            if got.count(p) != 1:
                bad.append(("upstream-lost-or-duplicated", "packet %s.. sent whole on a carrier of %s surfaced %d times" % (p[:16], c, got.count(p))))
    # downstream
    seen = {}
    for i, k in enumerate(carriers):
        st, wire = d.get("k%d" % i, "open:x").split(":")
        wire = wire[1:]
        if k["kind"] in ("badtoken", "short"):
            if wire:
                bad.append(("no-token-carrier-got-data", "carrier %d (%s) received downstream bytes" % (i, k["kind"])))
            if k["kind"] == "badtoken" and st != "closed":
                bad.append(("no-token-carrier-not-closed", "carrier %d with a wrong token was not closed" % i))
            continue
        chunks, err = c09.py_decode(wire)
        if err != "eof":
            bad.append(("downstream-not-framed", "carrier %d downstream does not end at a chunk boundary (%s)" % (i, err)))
        for p in chunks:
            if p not in meta["written"].get(k["cid"], []):
                owner = [cc for cc, l in meta["written"].items() if p in l]
                bad.append(("downstream-wrong-session" if owner else "downstream-foreign-packet",
                            "carrier %d (ClientID %s) was written packet %s.. addressed to %s" % (i, k["cid"], p[:16], owner[0] if owner else "nobody")))
            seen[p] = seen.get(p, 0) + 1
        if meta["deterministic"] and chunks != meta["expdown"].get(i, []):
            bad.append(("downstream-not-delivered", "carrier %d (the only open carrier of ClientID %s) should have been written %d packets, got %d" % (
                i, k["cid"], len(meta["expdown"].get(i, [])), len(chunks))))
    for p, n in seen.items():
        if n > 1:
            bad.append(("downstream-duplicated", "packet %s.. was written to %d carriers" % (p[:16], n)))
    return bad


def subseq(a, b):
    it = iter(b)
    return all(x in it for x in a)


def check_log(meta, d, md):
    """the downstream side relationally, for every scenario (also those where the scheduler chooses between two open
    carriers of one ClientID): the model's log of packets taken off the queues, followed by what is still queued,
    is per ClientID what WriteTo accepted, in order (C05_downstream_exactly_once_in_order); every carrier of the
    implementation must have been written an in-order subsequence of that, and together they must have been written
    everything when a carrier stayed attached and the peer closed none of them."""
    bad, notshown = [], []
    log = [] if md.get("log", "-") == "-" else [x.split(":") for x in md["log"].split(",")]
    q = [] if md.get("q", "-") == "-" else [x.split(":") for x in md["q"].split(",")]
    order = {}
    for o, c, p in log:
        order.setdefault(c[1:], []).append(p[1:])
    for c, p in q:
        order.setdefault(c[1:], []).append(p[1:])
    for c in meta["cids"]:
        if order.get(c, []) != meta["written"].get(c, []):
            notshown.append("model: log + queue of ClientID %s is not what WriteTo was given" % c)
    # the model's own carriers are written exactly their log entries
    for i, k in enumerate(meta["carriers"]):
        mf = md.get("k%d" % i, "::x").split(":")
        chunks, err = c09.py_decode(mf[2][1:])
        if chunks != [p[1:] for o, c, p in log if o == str(i)]:
            notshown.append("model: carrier %d's wire is not its log entries" % i)
    got = {}
    for i, k in enumerate(meta["carriers"]):
        if k["kind"] not in ("good", "garbage") or not k["cid"]:
            continue
        st, wire = d.get("k%d" % i, "open:x").split(":")
        chunks, err = c09.py_decode(wire[1:])
        acc = order.get(k["cid"], [])
        if all(p in acc for p in chunks) and not subseq(chunks, acc):
            bad.append(("downstream-reordered", "carrier %d (ClientID %s) was written its packets in an order different from the order WriteTo "
                        "accepted them: %s" % (i, k["cid"], ",".join(p[:8] for p in chunks[:6]))))
        got.setdefault(k["cid"], []).extend(chunks)
    for c in meta["cids"]:
        mine = [k for k in meta["carriers"] if k["cid"] == c and k["kind"] in ("good", "garbage")]
        attached = [k for k in mine if k["open"]]
        acc = order.get(c, [])
        missing = [p for p in acc if p not in got.get(c, [])]
        # (a carrier closed by the peer may take packets with it: its write loop races with the close)
        if attached and missing and c not in meta["closed_cids"]:
            bad.append(("downstream-not-delivered", "ClientID %s has a carrier attached and lost none to the peer, yet %d of the %d packets written "
                        "to it reached none of its carriers" % (c, len(missing), len(acc))))
    return bad, notshown


def fields_equal(meta, d, md, states=True):
    """model and implementation on the projected observables: upstream packets in order, per carrier the downstream bytes
    and whether the server closed it"""
    if d.get("up") != md.get("up"):
        return False
    for i, k in enumerate(meta["carriers"]):
        ist, iw = d.get("k%d" % i, ":x").split(":")
        mf = md.get("k%d" % i, "::").split(":")
        if iw != mf[2]:
            return False
        if states and (mf[0] == "dead") != (ist == "closed") and k["kind"] != "short":
            return False
    return True


def build_inpackage():
    """The test binary of server/lib with ONLY this area's in-package driver injected (its own overlay map), so that
    another area's in-package file that stops compiling after a refactor cannot take this view down with it."""
    import json
    vlib.go_prepare()
    rel = os.path.join("server", "lib", "zz_verif_c05_test.go")
    ov = os.path.join(vlib.GOB, "overlay_c05.json")
    data = json.dumps({"Replace": {os.path.join(vlib.REPO, rel): os.path.join(vlib.OVERLAY_SRC, rel)}}, indent=1)
    if not os.path.exists(ov) or open(ov).read() != data:
        open(ov, "w").write(data)
    out = os.path.join(vlib.GOB, "bin", "serverlib_c05.test")
    os.makedirs(os.path.dirname(out), exist_ok=True)
    rc, o, e = vlib.sh(["go", "test", "-c", "-vet=off", "-tags", "verif", "-modfile=" + os.path.join(vlib.GOB, "go.mod"), "-overlay", ov,
                        "-ldflags=-checklinkname=0", "-o", out, "./server/lib"], cwd=vlib.REPO, env=vlib.GOENV, timeout=900)
    if rc != 0:
        raise vlib.GoBuildError("go test -c ./server/lib (in-package C05 driver) failed:\n%s" % (o + e)[-3000:])
    return out


BULK_MODEL = ("(no packet-level model line: C05_session_never_closed_by_expiry / C05_timed_downstream_written_was_accepted state the "
              "clause; kcp-go's ARQ is a library)")


def gen_bulk(rng, idx, quick):
    """A bulk DOWNSTREAM transfer (real kcp-go/smux client, as client/lib sets them up) whose carrier is cut in the middle; the
    client stays without any carrier for `gap` ms (far below the one-minute retention) and returns on a new carrier with the
    same ClientID. The session must continue: one accepted connection, every byte the application wrote arrives, in order."""
    MiB = 1 << 20
    # the cut comes shortly after the client has consumed k x 512 KiB: smux (v2) has then just re-opened the stream window, so
    # that a whole window (1 MiB = client/lib's and the server's StreamSize) is in flight / unacknowledged while there is no
    # carrier - the heaviest load one stream can put on the session's outgoing queue; k = None: anywhere
    if quick:
        total, k, gap = [(2 * MiB, 1, 3500), (3 * MiB, 2, 4000)][idx % 2]
    else:
        total, k, gap = [(2 * MiB, 1, 3000), (3 * MiB, 2, 3500), (4 * MiB, 2, 4000), (6 * MiB, 2, 4000), (4 * MiB, None, 3000),
                         (2 * MiB, 1, 50)][idx % 6]
    if k is None:
        cut = rng.randrange(512 * 1024, total - MiB)
    else:
        cut = k * 512 * 1024 + rng.randrange(8 * 1024, 64 * 1024)
    sid = "%08x" % (0xb0000000 | (rng.getrandbits(20) << 8) | idx)
    line = "carrierlayer bulk i%s,%d,%d,%d,%d" % (sid, total, cut, gap, rng.randrange(1 << 30))
    return line, dict(total=total, cut=cut, gap=gap)


def bulk_meta(line):
    f = line.split(" ")[2].split(",")
    return dict(total=int(f[1]), cut=int(f[2]), gap=int(f[3]))


def check_bulk(meta, o):
    """[(key, text)] for one answer of the black-box driver to a `carrierlayer bulk` line"""
    if o.startswith("!"):
        return [("driver-" + o.split(" ")[0].strip("!:").split(":")[0], "driver failure: " + o[:200])]
    d = parse_impl(o)
    bad = []
    acc, got = int(d.get("accepted", -1)), int(d.get("got", -1))
    how = "cut after %d of %d bytes, %d ms without a carrier, then a new carrier with the same ClientID" % (meta["cut"], meta["total"], meta["gap"])
    if acc > 1:
        bad.append(("session-split-on-move", "%d connections accepted for ONE session that moved to a new carrier (%s)" % (acc, how)))
    elif acc != 1:
        bad.append(("session-not-accepted", "no connection accepted for a session of a real kcp/smux client (%s)" % how))
    if d.get("intact") != "1":
        bad.append(("session-stream-broken", "the downstream byte stream of the session is not what the application wrote (%d bytes "
                    "received; %s)" % (got, how)))
    if got < meta["total"] or d.get("werr") != "0":
        bad.append(("downstream-not-delivered", "only %d of %d bytes the application wrote reached the client after it returned on a new "
                    "carrier %d ms later (far below the retention): the session did not continue%s (carrier cut after %d bytes)" % (
                        got, meta["total"], meta["gap"], "; the application's Write failed" if d.get("werr") != "0" else "", meta["cut"])))
    return bad


def run(ctx):
    env = dict(os.environ, VERIF_DRIVER="c05")
    ctx.assumptions += ["model = coq/Model/CarrierLayer.v over Model/Encap.v; QueuePacketConn queues as bounded FIFOs (proved for the code in C17)",
                        "timed model = coq/Model/CarrierTimed.v: the carrier layer composed with C17's client-map model (explicit clock); the driver's "
                        "real time stays far inside the model's nominal time (gaps below the retention are milliseconds for the driver; the gap beyond "
                        "it is really waited for, 1.75 x a 2 s timeout)",
                        "which of two simultaneously open carriers of one ClientID takes a packet is the scheduler's choice: checked relationally "
                        "against the model's log of packets taken off the queues",
                        "kcp-go's session demultiplexing (by RemoteAddr().String() = ClientID, conversation id, sn) is modelled (listener_view) and "
                        "observed through the real Listen/Accept path with hand-made KCP/smux segments; KCP's ARQ and smux are libraries, not modelled"]
    ctx.trusted.append("harness/overlay/zz_verif/c05bb/main.go: black-box driver, exported API only (Transport.Listen + Accept, gorilla/websocket "
                       "carriers); harness/overlay/server/lib/zz_verif_c05_test.go: second, in-package view (real httpHandler with a driver-owned "
                       "QueuePacketConn: packets instead of streams)")
    ctx.assumptions.append("bulk scenarios (black box): a real kcp-go/smux client with client/lib's settings over a re-bindable packet conn "
                           "receives 1-6 MiB downstream; its carrier is closed in the middle, it has no carrier for 2-4 s (really waited; "
                           "control: 50 ms) and returns on a new carrier with the same ClientID; up to 60 s are allowed for the rest to arrive")
    quick = ctx.tier == "quick"
    # ---- the black-box view: always available (nothing unexported is used)
    bb = vlib.go_build("./zz_verif/c05bb")
    moves = [gen_move(ctx.rng, i) for i in range(44 if quick else 400)]
    # the same-conversation premise of C05_one_accepted_connection, broken on purpose (expected by the model)
    moves += [gen_move_two_convs(ctx.rng, i) for i in range(2 if quick else 12)]
    if not quick:
        # the real one-minute retention, really exceeded (95 s without a carrier): first in the list so that it overlaps the rest
        moves = [gen_move_long(ctx.rng, i) for i in range(2)] + moves
    # ---- the in-package view (packet level): optional
    try:
        exe = build_inpackage()
    except vlib.GoBuildError as e:
        exe = None
        note = ("in-package view unavailable: harness/overlay/server/lib/zz_verif_c05_test.go no longer compiles against this tree (an internal "
                "refactor of server/lib?); the black-box view (exported API) still ran. " + str(e)[-600:].replace("\n", " | "))
        vlib.log("C05 note: " + note[:400])
        ctx.extra["notes"] = [note]
        ctx.assumptions.append(note[:300])
    n = 220 if quick else 2500
    scen = [gen_scen(ctx.rng, i) for i in range(n)] if exe else []
    nt = (70 if quick else 700) if exe else 0
    timed = [(scen[i], timed_long(ctx.rng, scen[i][1])) for i in range(nt)]
    TMO = 2000
    expiry = [gen_expiry(ctx.rng, i, TMO) for i in range(3 if quick else 16)] if exe else []
    # an attached carrier idle past the retention (record expired, queue empty), then WriteTo for ClientIDs without a record;
    # the scenarios run concurrently in the driver (each really waits 1.75 timeouts)
    expiry += [gen_expiry(ctx.rng, 100 + i, TMO, fresh=1 + i % 3) for i in range(6 if quick else 40)] if exe else []
    mlines = ["carrierlayer run " + ",".join(mops) for _, mops, _ in scen]
    mlines += ["carrierlayer trun %d %s" % (RETENTION, ",".join(tm)) for _, tm in timed]
    mlines += ["carrierlayer trun %d %s" % (TMO, ",".join(mops)) for _, mops, _ in expiry]
    mlines += ["carrierlayer trun %d %s" % (RETENTION, ",".join(mops) if meta["model"] else "n") for _, mops, meta in moves]
    mout = vlib.run_model(mlines)

    def wait_for_closes(ops, mo, ncar):
        # the driver waits (bounded) until every carrier the model says the server closed has been closed and as many upstream
        # packets have surfaced as the model says (random bytes on a carrier can contain whole chunks), so that an effect
        # that is late on a loaded machine is not taken for a disagreement
        md = parse_impl(mo)
        dead = [i for i in range(ncar) if md.get("k%d" % i, "").startswith("dead")]
        nup = 0 if md.get("up", "-") == "-" else len(md["up"].split(","))
        return ops + ["z@u%d" % nup + "".join("@k%d" % i for i in dead)]

    lines = ["carrierlayer run " + ",".join(wait_for_closes(ops, mo, len(meta["carriers"]))) for (ops, _, meta), mo in zip(scen, mout)]
    lines += ["carrierlayer trun %d %s" % (RETENTION, ",".join(wait_for_closes(sc[0], mo, len(sc[2]["carriers"]))))
              for (sc, _), mo in zip(timed, mout[len(scen):])]
    lines += ["carrierlayer trun %d %s" % (TMO, ",".join(ops)) for ops, _, _ in expiry]
    out = []
    if exe:
        rc, out, err = vlib.run_impl(exe, lines, args=["-test.run", "^TestVerifC05Driver$"], env=env, timeout=1800)
        if rc != 0 or len(out) != len(lines):
            ctx.violation("driver-crash", "server carrier driver died rc=%s: %s" % (rc, err[-800:]), dict(stderr=err[-3000:]))
            return
    # ---- concurrently with the rest: (a) oversized packets against a server of their own (second black-box process),
    # (b) failing downstream writes (in-package driver, twice: as it comes, and one case after the other on ONE P)
    import threading
    over = [gen_oversize(ctx.rng, i) for i in range(8 if quick else 60)]
    fails = [gen_fail(ctx.rng, i) for i in range(80 if quick else 800)] if exe else []
    olines = ["carrierlayer move " + ",".join(ops) for ops, _, _ in over]
    flines = ["carrierlayer frun " + ",".join(ops) for ops, _, _ in fails]
    side = {}

    def side_run(name, exe_, lines_, **kw):
        side[name] = vlib.run_impl(exe_, lines_, **kw)
    threads = [threading.Thread(target=side_run, args=("over", bb, olines), kwargs=dict(timeout=1800))]
    if fails:
        threads.append(threading.Thread(target=side_run, args=("fail", exe, flines),
                                        kwargs=dict(args=["-test.run", "^TestVerifC05Driver$"], env=env, timeout=900)))
        threads.append(threading.Thread(target=side_run, args=("fail1", exe, flines),
                                        kwargs=dict(args=["-test.run", "^TestVerifC05Driver$"],
                                                    env=dict(env, GOMAXPROCS="1", VERIF_C05_SERIAL="1"), timeout=900)))
    for t in threads:
        t.start()
    xmlines = ["carrierlayer trun %d %s" % (RETENTION, ",".join(mops) if meta["model"] else "n") for _, mops, meta in over]
    xmlines += ["carrierlayer frun " + ",".join(mops) for _, mops, _ in fails]
    xmout = vlib.run_model(xmlines)
    blines = ["carrierlayer move " + ",".join(ops) for ops, _, _ in moves]
    # bulk downstream transfers across a carrier gap: in the same server process, concurrently with the moves
    bulks = [gen_bulk(ctx.rng, i, quick) for i in range(2 if quick else 6)]
    blines += [l for l, _ in bulks]
    rc, bout, err = vlib.run_impl(bb, blines, timeout=1800)
    for t in threads:
        t.join()
    if rc != 0 or len(bout) != len(blines):
        ctx.violation("driver-crash", "black-box server driver died rc=%s: %s" % (rc, err[-800:]), dict(stderr=err[-3000:]))
        return
    blines, bout, bulk_out = blines[:len(moves)], bout[:len(moves)], bout[len(moves):]
    lines += blines
    out += bout
    pos = 0
    # ---- untimed scenarios
    for (ops, mops, meta), line, o, ml, mo in zip(scen, lines, out, mlines, mout):
        kinds = "+".join(sorted(set(k["kind"] for k in meta["carriers"]))) + ("" if meta["deterministic"] else "+shared-cid")
        ctx.count(line, kind=kinds)
        rep = dict(case=line[:8000], impl=o[:3000], model=mo[:3000])
        if o.startswith("!"):
            ctx.violation("request-" + o.split(" ")[0].strip("!:"), "driver failure: " + o[:200], rep)
            continue
        d = parse_impl(o)
        md = parse_impl(mo)
        for key, text in check_props(meta, d):
            ctx.violation(key, text, rep)
        lbad, lns = check_log(meta, d, md)
        for key, text in lbad:
            ctx.violation(key, text, rep)
        for t in lns:
            ctx.not_shown("correspondence carrierlayer: %s: case=%s model=%s" % (t, ml[:400], mo[:300]))
        # upstream is deterministic (ops are settled one by one); downstream bytes too unless the scheduler has a choice
        same = d.get("up") == md.get("up")
        if same and meta["deterministic"]:
            same = fields_equal(meta, d, md)
        # the driver settles every op before the next, but on a heavily loaded machine the read loop of one carrier can still
        # hand its last packet over after the next carrier's first (two goroutines, one queue): a scenario that disagrees
        # with the model is run again on its own, twice at most; a deviation of the code repeats, a timing slip does not
        # (property predicates above were evaluated on the first answer and stay reported)
        for _again in range(2):
            if same or not exe:
                break
            rc2, o2, _ = vlib.run_impl(exe, [line], args=["-test.run", "^TestVerifC05Driver$"], env=env, timeout=600)
            if rc2 != 0 or len(o2) != 1 or o2[0].startswith("!"):
                break
            ctx.extra["scenarios_rerun_alone"] = ctx.extra.get("scenarios_rerun_alone", 0) + 1
            o = o2[0]
            d = parse_impl(o)
            same = d.get("up") == md.get("up")
            if same and meta["deterministic"]:
                same = fields_equal(meta, d, md)
            if same:
                for key, text in check_props(meta, d):
                    ctx.violation(key, text, dict(case=line[:8000], impl=o[:3000], model=mo[:3000]))
        if not same:
            ctx.not_shown("correspondence carrierlayer: model and implementation disagree: case=%s impl=%s model=%s" % (ml[:400], o[:300], mo[:300]))
    pos = len(scen)
    # ---- the same scenarios on the timed model with the server's retention (nothing may expire)
    for j, (sc, tm) in enumerate(timed):
        ops, mops, meta = sc
        line, o, ml, mo = lines[pos + j], out[pos + j], mlines[pos + j], mout[pos + j]
        ctx.count(line, kind="timed:" + ("deterministic" if meta["deterministic"] else "shared-cid"))
        rep = dict(case=line[:8000], impl=o[:3000], model=mo[:3000], model_case=ml[:8000])
        if o.startswith("!"):
            ctx.violation("request-" + o.split(" ")[0].strip("!:"), "driver failure: " + o[:200], rep)
            continue
        d, md, mu = parse_impl(o), parse_impl(mo), parse_impl(mout[j])
        for key, text in check_props(meta, d):
            ctx.violation(key, text, rep)
        # the timed model refines the untimed one when nothing expires
        if mu.get("up") != md.get("up") or any(md.get("k%d" % i) != mu.get("k%d" % i) for i in range(len(meta["carriers"]))):
            ctx.not_shown("timed and untimed model disagree although nothing can expire: case=%s timed=%s untimed=%s" % (ml[:400], mo[:300], mout[j][:300]))
        if md.get("lost", "-") != "-":
            ctx.not_shown("timed model lost packets although nothing can expire: case=%s model=%s" % (ml[:400], mo[:300]))
        same = d.get("up") == md.get("up")
        if same and meta["deterministic"]:
            same = fields_equal(meta, d, md)
        if not same:
            ctx.not_shown("correspondence carrierlayer (timed): model and implementation disagree: case=%s impl=%s model=%s" % (ml[:400], o[:300], mo[:300]))
    pos += len(timed)
    # ---- beyond the retention
    for j, (ops, mops, meta) in enumerate(expiry):
        line, o, ml, mo = lines[pos + j], out[pos + j], mlines[pos + j], mout[pos + j]
        ctx.count(line, kind="expiry" + ("+new-clientid-after-expiry" if meta["fresh"] else ""))
        rep = dict(case=line[:8000], impl=o[:3000], model=mo[:3000], model_case=ml[:8000])
        if o.startswith("!"):
            ctx.violation("request-" + o.split(" ")[0].strip("!:"), "driver failure: " + o[:200], rep)
            continue
        d, md = parse_impl(o), parse_impl(mo)
        # property: nothing crosses sessions, nothing is written twice, also around an expiry
        ebad = check_expiry(meta, d)
        for key, text in ebad:
            ctx.violation(key, text, rep)
        if not ebad and not fields_equal(meta, d, md):
            ctx.not_shown("correspondence carrierlayer (expiry): model and implementation disagree: case=%s impl=%s model=%s" % (ml[:500], o[:300], mo[:300]))
    pos += len(expiry)
    # ---- moving sessions through the real Listen / Accept (black box)
    for j, (ops, mops, meta) in enumerate(moves):
        line, o, ml, mo = lines[pos + j], out[pos + j], mlines[pos + j], mout[pos + j]
        ctx.count(line, kind="move:" + "+".join(meta["kinds"]))
        rep = dict(case=line[:20000], impl=o[:3000], model=mo[:3000], model_case=ml[:12000], driver="c05bb")
        if o.startswith("!"):
            ctx.violation("request-" + o.split(" ")[0].strip("!:"), "driver failure: " + o[:200], rep)
            continue
        d, md = parse_impl(o), parse_impl(mo)
        bad, macc = check_move(meta, d, md)
        for key, text in bad:
            ctx.violation(key, text, rep)
        if not meta["model"]:
            continue
        if macc != len(meta["sessions"]):
            ctx.not_shown("model: listener view has %d connections for %d sessions: case=%s model=%s" % (macc, len(meta["sessions"]), ml[:400], mo[:300]))
        if meta.get("two_convs"):
            t = check_two_convs(meta, md)
            if t:
                ctx.not_shown("model: two conversations under one ClientID: %s: case=%s model=%s" % (t, ml[:400], mo[:300]))
        if not bad and int(d.get("accepted", -1)) != macc:
            ctx.not_shown("correspondence carrierlayer (move): accepted connections differ: case=%s impl=%s model=%s" % (ml[:400], o[:200], mo[:300]))
        # carriers without the token: closed by the server exactly when the model says so
        for t in meta["tokenless"]:
            ist = d.get("k%d" % t["i"], "open:x").split(":")[0]
            mst = md.get("k%d" % t["i"], "token::").split(":")[0]
            if t["must_close"] and (mst == "dead") != (ist == "closed") and not bad:
                ctx.not_shown("correspondence carrierlayer (move): carrier %d: model %s, implementation %s: case=%s" % (t["i"], mst, ist, ml[:400]))
    # ---- bulk downstream transfer, carrier cut in the middle, a gap below the retention, a new carrier: the session continues
    for (line, meta), o in zip(bulks, bulk_out):
        ctx.count(line, kind="bulk-downstream-gap")
        rep = dict(case=line, impl=o[:3000], model=BULK_MODEL, driver="c05bb")
        for key, text in check_bulk(meta, o):
            ctx.violation(key, text, rep)
    # ---- one carrier's oversized packet (own server): the other sessions go on, a new one is accepted
    rc, oout, err = side["over"]
    if rc != 0 or len(oout) != len(olines):
        # the process that serves ONLY these scenarios died while the one serving all the others (same binary, same moment) did
        # not: every scenario here contains an oversized packet, and every session in that process died with it
        ctx.violation("oversized-packet-kills-other-sessions",
                      "the server process that was delivered encapsulated packets of 1501..65535 bytes (one per scenario, valid token) DIED "
                      "(rc=%s), and all sessions with it: %s" % (rc, err[-800:].replace("\n", " | ")),
                      dict(case=olines[0][:20000], stderr=err[-3000:], driver="c05bb"))
        oout = []
    for (ops, mops, meta), line, o, ml, mo in zip(over, olines, oout, xmlines, xmout):
        ctx.count(line, kind="move:" + "+".join(meta["kinds"]))
        rep = dict(case=line[:20000], impl=o[:3000], model=mo[:3000], model_case=ml[:12000], driver="c05bb")
        if o.startswith("!"):
            ctx.violation("request-" + o.split(" ")[0].strip("!:"), "driver failure: " + o[:200], rep)
            continue
        d, md = parse_impl(o), parse_impl(mo)
        bad, macc = check_move(meta, d, md)
        ov = meta["oversize"]
        if bad:
            ctx.violation("oversized-packet-kills-other-sessions",
                          "a carrier (valid token, ClientID %s%s) delivered ONE encapsulated packet of %d bytes - more than the 1500-byte "
                          "buffer the KCP listener reads into - while %d session(s) were transferring; afterwards: %s" % (
                              ov["cid"], ", the carrier of session 0" if ov["own"] else ", no session of its own", ov["L"],
                              len(meta["sessions"]) - 1, "; ".join("[%s] %s" % (k, t) for k, t in bad[:3])), rep)
            continue
        if not meta["model"]:
            continue
        # the model's listener view: one connection per session, and one more for the oversized packet when it came under a
        # ClientID of its own (its first 1500 bytes are input to a KCP that discards them)
        want = len(meta["sessions"]) + (0 if ov["own"] else 1)
        if macc != want:
            ctx.not_shown("model: listener view has %d connections, expected %d (oversized packet): case=%s model=%s" % (macc, want, ml[:400], mo[:300]))
    # ---- failing downstream writes
    for name in ("fail", "fail1"):
        if name not in side:
            continue
        rc, fout, err = side[name]
        if rc != 0 or len(fout) != len(flines):
            ctx.violation("driver-crash", "server carrier driver (failing writes, %s) died rc=%s: %s" % (name, rc, err[-800:]), dict(stderr=err[-3000:]))
            continue
        nd = 0
        for (ops, mops, meta), line, o, ml, mo in zip(fails, flines, fout, xmlines[len(over):], xmout[len(over):]):
            ctx.count(line, kind="failing-write" + ("" if name == "fail" else ":GOMAXPROCS=1,serial"))
            rep = dict(case=line[:8000], impl=o[:3000], model=mo[:3000], model_case=ml[:8000], env=name)
            if o.startswith("!"):
                ctx.violation("request-" + o.split(" ")[0].strip("!:"), "driver failure: " + o[:200], rep)
                continue
            d, md = parse_impl(o), parse_impl(mo)
            fbad = check_fail(meta, d)
            for key, text in fbad:
                ctx.violation(key, text, rep)
            if not fbad and not fields_equal(meta, d, md):
                nd += 1
                if nd <= 3:
                    ctx.not_shown("correspondence carrierlayer (failing writes): model and implementation disagree: case=%s impl=%s model=%s" % (
                        ml[:500], o[:300], mo[:300]))
    sample = [(l, m) for l, m in zip(mlines, mout) if len(l) < 600][:20]
    sample += [(l, m) for l, m in zip(xmlines[len(over):], xmout[len(over):]) if len(l) < 900][:6]
    sample += [(l, m) for l, m in zip(mlines[len(scen):], mout[len(scen):]) if len(l) < 900][:12]
    for i in vlib.coq_crosscheck(sample):
        ctx.not_shown("extraction cross-check differs on " + sample[i][0][:300])
    ctx.extra["vm_compute_crosschecked"] = len(sample)


def replay(ctx, doc):
    env = dict(os.environ, VERIF_DRIVER="c05")
    bad = 0
    for v in doc.get("violations", []):
        case = v["replay"].get("case")
        if not case:
            continue
        if v["replay"].get("env") == "fail1":
            env = dict(env, GOMAXPROCS="1", VERIF_C05_SERIAL="1")
        if case.startswith("carrierlayer move ") or case.startswith("carrierlayer bulk "):
            rc, out, err = vlib.run_impl(vlib.go_build("./zz_verif/c05bb"), [case])
            if case.startswith("carrierlayer bulk "):
                for key, text in check_bulk(bulk_meta(case), out[0] if out else "!died"):
                    print(" [%s] %s" % (key, text))
        else:
            rc, out, err = vlib.run_impl(build_inpackage(), [case], args=["-test.run", "^TestVerifC05Driver$"], env=env)
        print("case: %s\n impl: %s" % (case[:400], out[0][:2000] if out else "!died"))
        bad += 1
    return 1 if bad else 0
