"""C09 — packet framing round-trips under any read fragmentation (common/encapsulation)."""
import os
import random
import vlib

AREA = "encap"
PC_ARGS = ("-test.run", "^TestC09VerifDriver$")
BOUND = [0, 1, 2, 62, 63, 64, 65, 127, 128, 8190, 8191, 8192, 8193, 16383, 16384]
BIG = [1048573, 1048574, 1048575]


def payload(rng, n):
    if n <= 24 and rng.random() < 0.7:
        return "x" + "".join("%02x" % rng.randrange(256) for _ in range(n))
    return "g%d.%d" % (n, rng.randrange(256))


def rand_script(rng, maxlen=12):
    k = rng.randrange(0, maxlen)
    out = []
    for _ in range(k):
        m = rng.choice([0, 0, 1, 1, 1, 2, 3, 5, 64, 1000, 100000])
        out.append("%d%s" % (m, "E" if rng.random() < 0.3 else ""))
    return ",".join(out) if out else "-"


def zero_run_scripts(rng):
    """reader scripts with LONG runs of zero-length reads (a reader may return 0, nil any number of times: an io.Pipe fed
    with empty messages does): before the first prefix byte, between the bytes of a prefix, inside the data, before EOF.
    Helpers that give up after a fixed number of empty reads (bufio's 100) show only here."""
    out = []
    for k in (99, 100, 101, 150, 257):
        z = ",".join(["0"] * k)
        out += [z + ",1," + z + ",1," + z + ",2", z + ",1000", "1," + z + ",1," + z, z + ",3E", "2," + z + ",1E"]
    out.append(",".join(["0"] * rng.randrange(100, 400) + ["1"] + ["0"] * rng.randrange(100, 400) + ["5"]))
    return out


# padding sizes: the prefix-size boundaries of one padding chunk (64+1, 8192+2; a three-byte padding prefix would start at
# 8192+3), WritePadding's batch size (1024 in the pinned code) and its multiples, and sizes far above any batch size
PAD_BOUND = [0, 1, 2, 3, 63, 64, 65, 66, 1023, 1024, 1025, 1026, 2048, 2049]
PAD_BIG = [8193, 8194, 8195, 8196, 8197, 16383, 16384, 16385, 16386, 16387, 24579, 32768, 32771, 65536, 100000, 100003]


def rand_items(rng, big=False, bigpad=False):
    n = rng.randrange(1, 6)
    items, datas = [], []
    for _ in range(n):
        if rng.random() < 0.35:
            p = rng.choice(PAD_BOUND + [rng.randrange(0, 5000)])
            if bigpad:
                p = rng.choice(PAD_BIG + [rng.randrange(8000, 140000)])
            items.append("p%d" % p)
        else:
            ln = rng.choice(BOUND + [rng.randrange(0, 300)] * 3 + (BIG if big else []))
            spec = payload(rng, ln)
            items.append("d" + spec)
            datas.append(spec)
    return ",".join(items), datas


def expand(spec):
    if spec[0] == "x":
        return spec[1:]
    n, a = spec[1:].split(".")
    return "".join("%02x" % ((int(a) + i) & 255) for i in range(int(n)))


def all_scripts(nbytes):
    """every fragmentation of nbytes into reads of size>=1, with optional zero reads omitted,
    with and without EOF-with-data on the last read"""
    res = []
    def rec(left, cur):
        if left == 0:
            res.append(cur)
            return
        for k in range(1, left + 1):
            rec(left - k, cur + [k])
    rec(nbytes, [])
    out = []
    for r in res:
        out.append(",".join(map(str, r)) or "-")
        if r:
            out.append(",".join(map(str, r)) + "E")
    return out


def py_decode(hexs):
    """independent reference of the wire format as the property states it"""
    s = bytes.fromhex(hexs)
    i, chunks = 0, []
    while True:
        if i >= len(s):
            return chunks, "eof"
        b = s[i]; i += 1
        isdata, more, n = b & 0x80, b & 0x40, b & 0x3f
        k = 0
        while more:
            if k >= 2:
                return chunks, "toolong"
            if i >= len(s):
                return chunks, "ueof"
            b = s[i]; i += 1; k += 1
            more, n = b & 0x80, (n << 7) | (b & 0x7f)
        if i + n > len(s):
            return chunks, "ueof"
        if isdata:
            chunks.append(s[i:i + n].hex())
        i += n


def prop(line, impl, model):
    """The property evaluated on the implementation's own answer (failing-input search)."""
    a = line.split(" ")
    op = a[1]
    if impl.startswith("!panic") or impl == "!died":
        return "implementation panicked/died: " + impl[:200]
    if op == "rt":
        if impl == "E:toolong":
            return None if model == impl else "a chunk below 2^20 bytes was refused"
        datas = [expand(it[1:]) for it in a[2].split(",") if it[0] == "d"] if a[2] != "-" else []
        want = "chunks=" + (",".join("x" + d for d in datas) or "-") + " err=eof"
        if impl != want:
            return "round trip failed: chunks written are not the chunks read back (reader script %s)" % a[3]
    elif op in ("alloc", "allocd"):
        if " over=" in impl and not impl.endswith(" over=0"):
            return ("ReadData allocated more than the chunk it announced (+64 KiB): %s" % impl[impl.index(" over="):][:80])
        if op == "alloc" and impl != "E:toolong":
            datas = [expand(it[1:]) for it in a[2].split(",") if it[0] == "d"] if a[2] != "-" else []
            want = "chunks=" + (",".join("x" + d for d in datas) or "-") + " err=eof over=0"
            if impl != want:
                return "round trip failed: chunks written are not the chunks read back (reader script %s)" % a[3]
    elif op == "pc":
        if impl == "E:toolong":
            return None if model == impl else "a packet below 2^20 bytes was refused by the packet conn"
        if impl.startswith("!"):
            return "packet conn misbehaved: " + impl[:100]
        datas = [expand(it[1:]) for it in a[2].split(",") if it[0] == "d"] if a[2] != "-" else []
        n = int(a[4])
        want_p = "packets=" + (",".join("x" + d[:2 * n] for d in datas) or "-") + " err=eof"
        try:
            w, rest = impl.split(" ", 1)
        except ValueError:
            return None
        chunks, err = py_decode(w[len("wire="):])
        if chunks != datas or err != "eof":
            return ("packets written through encapsulationPacketConn.WriteTo are not the chunks on the wire "
                    "(%d written, wire decodes to %d chunks, %s)" % (len(datas), len(chunks), err))
        if rest != want_p:
            return "packets read through encapsulationPacketConn.ReadFrom are not the chunks of the stream (reader script %s, buffer %d)" % (a[3], n)
    elif op == "pad":
        n = int(a[2])
        f = dict(t.split("=", 1) for t in impl.split(" ") if "=" in t)
        try:
            ln, ret = int(f["len"]), int(f["ret"])
        except (KeyError, ValueError):
            return "WritePadding(%d) failed: %s" % (n, impl[:100])
        if ln != n or ret != n:
            return "padding of size %d occupies %d bytes (WritePadding returned %d)" % (n, ln, ret)
        if f.get("chunks") != "-" or f.get("err") != "eof":
            return ("padding of size %d is not invisible: reading it back gives chunks=%s err=%s instead of no chunk and a clean EOF"
                    % (n, f.get("chunks", "?")[:60], f.get("err", "?")))
    elif op == "budget":
        n = int(a[2])
        if impl == "E:toolong":
            return "MaxDataForSize(%d) returned a length WriteData refuses" % n
        m, t = map(int, impl.split(" "))
        if t > n:
            return "chunk sized by MaxDataForSize(%d)=%d occupies %d bytes" % (n, m, t)
    elif op == "decx":
        if a[2][0] == "x":
            chunks, err = py_decode(a[2][1:])
            want = "chunks=" + (",".join("x" + c for c in chunks) or "-") + " err=" + ("toolong" if err == "toolong" else "io")
            if impl != want:
                return "failing reader: expected %s, decoder gave %s" % (want[:120], impl[:120])
    elif op == "dec":
        if "err=other" in impl:
            return "decoder returned an error outside {EOF, UnexpectedEOF, TooLong}: " + impl[-80:]
        if a[2][0] == "x":
            chunks, err = py_decode(a[2][1:])
            want = "chunks=" + (",".join("x" + c for c in chunks) or "-") + " err=" + err
            if impl != want:
                return "byte stream misclassified: expected %s, decoder gave %s" % (want[:120], impl[:120])
    return None


def key_of(line, impl, model):
    a = line.split(" ")
    if a[1] == "dec" and "toolong" in (impl + model):
        return "prefix-length-limit"
    if a[1] in ("alloc", "allocd") and " over=" in impl and not impl.endswith(" over=0"):
        return "alloc-exceeds-announced"
    if a[1] == "pc":
        return "packetconn"
    if a[1] == "decx":
        return "reader-error-passthrough"
    if a[1] == "pad":
        f = dict(t.split("=", 1) for t in impl.split(" ") if "=" in t)
        return "pad" if (f.get("len") != a[2] or f.get("ret") != a[2]) else "pad-visible"
    if a[1] in ("rt", "dec", "alloc", "allocd"):
        sc = a[3]
        zero = any(x.rstrip("E") == "0" for x in sc.split(",")) if sc != "-" else False
        eofd = "E" in sc
        return "reader-" + ("zero-read" if zero else "") + ("eof-with-data" if eofd else "") if (zero or eofd) else "roundtrip"
    return a[1]


def gen(ctx):
    rng = ctx.rng
    thorough = ctx.tier == "thorough"
    lines, kinds = [], []
    def add(l, k):
        lines.append(AREA + " " + l); kinds.append(k)
    # prefix / budget / padding sweeps
    for n in list(range(0, 300)) + list(range(8100, 8300)) + list(range(16300, 16500)) + list(range(1048500, 1048700)):
        add("prefix %d" % n, "prefix")
    for n in list(range(1, 200)) + list(range(8180, 8200)) + list(range(16380, 16400)) + list(range(1048570, 1048590)) + [2**21, 2**30]:
        add("budget %d" % n, "budget")
    for n in list(range(0, 1100 if not thorough else 4200)) + list(range(8185, 8200)) + [16384, 16385, 16386, 100000] + ([1048575, 1048576, 1048580] if thorough else []):
        add("pad %d" % n, "pad")
    # one WritePadding call far above its batch size and on the boundaries where a padding chunk's prefix would grow to
    # three bytes (8192+3), under fragmenting readers too; then the same paddings between data chunks
    for n in PAD_BIG + list(range(8200, 8200 + (8 if not thorough else 200))) + [rng.randrange(8195, 300000) for _ in range(10 if not thorough else 100)]:
        add("pad %d" % n, "pad-big")
        add("pad %d %s" % (n, rand_script(rng, 8)), "pad-big")
    for sc in zero_run_scripts(rng):
        for its in ("dx41,dx4243", "dg64.1,dx,dg300.2", "p3,dx41,p70,dg8192.5"):
            add("rt %s %s" % (its, sc), "rt-long-zero-run")
    for n in PAD_BIG:
        add("rt dx41,p%d,dx4243 -" % n, "rt-bigpad")
        add("rt p%d,dg%d.1,p%d %s" % (n, rng.choice([0, 1, 63, 64, 200]), rng.choice(PAD_BIG), rand_script(rng)), "rt-bigpad")
    for i in range(60 if not thorough else 600):
        its, _ = rand_items(rng, bigpad=True)
        add("rt %s %s" % (its, rand_script(rng)), "rt-bigpad")
    # EVERY chunk length 0..2100 once (a size threshold inside a prefix class - a small-chunk fast path, a stack buffer, a
    # batch size - need not sit on a prefix-size boundary), alone and followed by a second chunk (a chunk whose prefix
    # announces more than was written swallows the start of the next one: the desynchronised stream is visible); then
    # the neighbourhood of every power of two and of the multiples of 1024/4096 up to 70000
    for n in range(0, 2101):
        a = rng.randrange(256)
        add("rt dg%d.%d -" % (n, a), "rt-every-length")
        add("rt dg%d.%d,dx4142,p1 %s" % (n, a, "-" if n % 7 else rand_script(rng, 6)), "rt-every-length")
    for n in range(300, 2101):
        add("prefix %d" % n, "prefix")
    dense = set()
    for e in range(11, 17):
        dense.update(range(2 ** e - 3, 2 ** e + 4))
    for m in range(3072, 16385, 1024):
        dense.update(range(m - 2, m + 3))
    for m in range(20480, 70000, 4096):
        dense.update(range(m - 1, m + 2))
    if thorough:
        for m in range(2304, 70000, 256):
            dense.update(range(m - 2, m + 3))
    for n in sorted(dense):
        add("rt dg%d.%d,dx41 -" % (n, rng.randrange(256)), "rt-dense-length")
        add("prefix %d" % n, "prefix")
    # round trips with random fragmentation
    for i in range(600 if not thorough else 6000):
        its, _ = rand_items(rng, big=(i % 150 == 0))
        add("rt %s %s" % (its, rand_script(rng)), "rt-random")
    # one big chunk at the upper limit, and one over the limit
    add("rt dg1048575.9 1,0,7E", "rt-big")
    add("enc dg1048576.1", "enc-toolong")
    # allocation per ReadData call: honest chunks on the prefix-size boundaries and hostile announcements
    for n in (0, 1, 63, 64, 8191, 8192, 70000, 300000, 1048575):
        add("alloc dg%d.3 -" % n, "alloc-honest")
        add("alloc p100,dg%d.5,p2000,dg%d.7 1,0,4096" % (n, n // 2), "alloc-honest")
    for pre in ("ffff7f", "ffff7f00", "c07f", "c17f0000", "bf", "7fff7f", "ffffff7f"):
        add("allocd x%s -" % pre, "alloc-hostile")
    # every fragmentation of short streams
    small = ["dx", "dx41", "dx4142", "p1,dx41", "p2,dx41", "dx41,dx42", "dx414243", "p0,dx41,p1"]
    for its in small:
        nbytes = sum((1 + len(expand(x[1:])) // 2) if x[0] == "d" else int(x[1:]) for x in its.split(","))
        for sc in all_scripts(nbytes):
            add("rt %s %s" % (its, sc), "rt-allfrag")
            # same with zero-length reads interleaved
            z = ",".join("0," + e for e in sc.split(",")) if sc != "-" else "0"
            add("rt %s %s" % (its, z), "rt-allfrag-zero")
    # a 200-byte chunk (2-byte prefix) read byte by byte with zero reads: the pinned code's defect
    add("rt dg200.1 1,0,1,0,1", "rt-zero-at-continuation")
    add("rt dg20000.1 1,0,1,0,1,0,5", "rt-zero-at-continuation")
    add("rt dx 1E", "rt-eof-with-last-byte")
    # arbitrary / malformed streams, all truncations
    for i in range(300 if not thorough else 3000):
        n = rng.randrange(0, 12)
        s = [rng.choice([0x00, 0x01, 0x3f, 0x40, 0x41, 0x7f, 0x80, 0x81, 0xbf, 0xc0, 0xc1, 0xff, rng.randrange(256)]) for _ in range(n)]
        add("dec x%s %s" % ("".join("%02x" % b for b in s), rand_script(rng, 8)), "dec-random")
    # the same kind of streams over a reader that fails instead of reporting EOF
    for i in range(150 if not thorough else 1500):
        n = rng.randrange(0, 12)
        s = [rng.choice([0x00, 0x01, 0x3f, 0x40, 0x41, 0x7f, 0x80, 0x81, 0x82, 0xbf, 0xc0, 0xc1, 0xff, rng.randrange(256)]) for _ in range(n)]
        add("decx x%s %s" % ("".join("%02x" % b for b in s), rand_script(rng, 8)), "decx-random")
    for sc in ("-", "1", "1,0,1", "4E", "1,3E", "0,0,9E"):
        add("decx x81418242 %s" % sc, "decx-directed")
        add("decx x8141c0 %s" % sc, "decx-directed")
        add("decx x c08080 %s".replace("x c", "xc") % sc, "decx-directed")
    # non-minimal prefixes of small values followed by the body
    for v in [0, 1, 4, 63, 64, 100]:
        body = "ab" * v
        for pre in ["%02x" % (0x80 | v) if v < 64 else None, "c0%02x" % v if v < 128 else None, "c080%02x" % v if v < 128 else None,
                    "%02x%02x" % (0xc0 | (v >> 7), v & 0x7f), "c0%02x%02x" % (0x80 | (v >> 7), v & 0x7f)]:
            if pre:
                add("dec x%s%s %s" % (pre, body, rand_script(rng, 6)), "dec-nonminimal")
    for pre in ["c08080", "c0ffff00", "40808000", "ffffff", "c0808000"]:
        add("dec x%s -" % pre, "dec-toolong")
    return lines, kinds


def gen_pc(ctx):
    """client/lib's encapsulationPacketConn: empty packets, boundary sizes, paddings in the stream, short buffers"""
    rng = ctx.rng
    lines, kinds = [], []
    def add(l, k):
        lines.append(AREA + " " + l); kinds.append(k)
    for its in ("dx", "dx,dx", "dx41,dx,dx42", "dx,p3,dx,dx4142", "p0,dx41,p1", "dg63.1,dg64.2,dx,dg65.3", "dg8191.1,dg8192.2", "dg1500.7"):
        for sc in ("-", "1", "1,0,1,0,2", "3E", "0,0,5"):
            for n in (0, 1, 2, 64, 1500, 10000):
                add("pc %s %s %d" % (its, sc, n), "pc-directed")
    for i in range(150 if ctx.tier == "quick" else 1500):
        its, _ = rand_items(rng, big=(i % 100 == 0))
        add("pc %s %s %d" % (its, rand_script(rng), rng.choice([0, 1, 63, 64, 1200, 1500, 65536])), "pc-random")
    for n in (8195, 16384, 16387, 100000):
        add("pc dx41,p%d,dg70.1,dx %s %d" % (n, rand_script(rng), rng.choice([64, 1500])), "pc-bigpad")
    for i in range(10 if ctx.tier == "quick" else 100):
        its, _ = rand_items(rng, bigpad=True)
        add("pc %s %s %d" % (its, rand_script(rng), rng.choice([0, 1, 63, 64, 1200, 1500, 65536])), "pc-bigpad")
    add("pc dg1048576.1 - 10", "pc-toolong")
    for sc in zero_run_scripts(rng):
        for its in ("dx41,dx4243", "dg64.1,dx,dg300.2", "p3,dx41,p70,dg8192.5"):
            add("pc %s %s %d" % (its, sc, rng.choice([64, 1500, 10000])), "pc-long-zero-run")
    return lines, kinds


def truncations(ctx, exe):
    """phase 2: all truncation points of some encoded streams"""
    rng = ctx.rng
    base = []
    for _ in range(6 if ctx.tier == "quick" else 40):
        n = rng.randrange(1, 4)
        its = []
        for _ in range(n):
            if rng.random() < 0.3:
                its.append("p%d" % rng.choice([0, 1, 2, 5, 66]))
            else:
                its.append("d" + payload(rng, rng.choice([0, 1, 3, 20, 64, 70])))
        base.append(",".join(its))
    enc_lines = [AREA + " enc " + b for b in base]
    model = vlib.run_model(enc_lines)
    lines, kinds = [], []
    for b, m in zip(base, model):
        nb = len(m) // 2
        for k in range(0, nb + 1):
            lines.append("%s dec x%s %s" % (AREA, m[:2 * k], rand_script(rng, 5)))
            kinds.append("dec-truncation")
    return enc_lines, ["enc"] * len(enc_lines), lines, kinds


# ---------------------------------------------------------------- the server's reader in front of ReadData
# server/lib/http.go reads the 8-byte token and the 8-byte ClientID and then hands the SAME conn to ReadData in a loop.
# Model: coq/Model/EncapServer.v (server_read; C09_stream_after_preamble / C09_server_roundtrip). Implementation: the real
# server through its exported surface (harness/overlay/zz_verif/c05bb: Transport.Listen + Accept, gorilla WebSocket
# carriers). A carrier's bytes token ++ ClientID ++ chunks/paddings are cut into WebSocket messages at every position
# around the preamble/data boundary; each data chunk is one KCP segment (made here, so nothing is retransmitted) of one
# smux stream, so the application bytes that come out of Accept are exactly the bytes of the packets that surfaced, in
# order: a chunk lost, cut or invented at the reader shows as a missing/short/wrong stream or no accepted connection.

SRV_TOKEN = "1293605d278175f5"


def _prefix(n):
    if n < 64:
        return "%02x" % (0x80 | n)
    if n < 8192:
        return "%02x%02x" % (0xc0 | (n >> 7), n & 0x7f)
    return "%02x%02x%02x" % (0xc0 | (n >> 14), 0x80 | ((n >> 7) & 0x7f), n & 0x7f)


def _padding(n):
    """n bytes of padding as chunks with one- or two-byte prefixes (any fill)"""
    out = ""
    while n > 0:
        p = min(n, 1000)
        if p <= 64:
            out += "%02x" % (p - 1) + "00" * (p - 1)
        else:
            out += "%02x%02x" % (0x40 | ((p - 2) >> 7), (p - 2) & 0x7f) + "5a" * (p - 2)
        n -= p
    return out


def _kcp_seg(conv, sn, data, ts=0):
    import struct
    return struct.pack("<IBBHIIII", conv, 81, 0, 128, ts & 0xffffffff, sn, 0, len(data)) + data


def _smux(cmd, sid, data=b""):
    import struct
    return struct.pack("<BBHI", 2, cmd, len(data), sid) + data


def srv_base(rng, idx, applen, first, seg_choices=(1, 7, 8, 20, 60, 300), frame_choices=(1, 3, 16, 100, 400)):
    """one session: label (4-byte scenario id, session 0) + application bytes, as smux frames in KCP segments; the items
    of the carrier stream: every segment one data chunk, paddings in between. first = what follows the preamble:
    'data', 'pad' (a padding, then data) or 'empty' (an empty data chunk, which the packet layer ignores, then data)"""
    sid = "c9%02x%04x" % (rng.randrange(256), idx & 0xffff)
    cid = "%016x" % rng.getrandbits(64)
    conv = rng.getrandbits(32)
    app = bytes.fromhex(sid) + b"\x00" + bytes(rng.randrange(256) for _ in range(applen))
    stream = _smux(0, 3) + _smux(2, 3, app[:5])
    pos = 5
    while pos < len(app):
        n = rng.choice(list(frame_choices))
        stream += _smux(2, 3, app[pos:pos + n])
        pos += n
    segs, pos = [], 0
    while pos < len(stream):
        n = max(rng.choice(list(seg_choices)), 21 if pos == 0 else 1)
        segs.append(_kcp_seg(conv, len(segs), stream[pos:pos + n], ts=rng.getrandbits(20)))
        pos += n
    items = []      # (hex on the wire, packet hex or None)
    if first == "pad":
        items.append((_padding(rng.choice([1, 2, 5, 64, 65, 300])), None))
    elif first == "empty":
        items.append(("80", ""))
    for k, sg in enumerate(segs):
        items.append((_prefix(len(sg)) + sg.hex(), sg.hex()))
        if rng.random() < 0.3:
            items.append((_padding(rng.choice([1, 1, 2, 3, 64, 65, 200])), None))
    return dict(sid=sid, cid=cid, app=app, items=items)


def srv_cuts(rng, total, first_item, second_item):
    """message sizes (the last message takes the rest): every cut around the preamble/data boundary"""
    P = 16
    cuts = [[]]                                           # one message with everything
    cuts += [[P + k] for k in range(0, 6)]                # preamble + k bytes of the first chunk
    cuts += [[8, 8 + k] for k in range(0, 5)]             # token | ClientID + k bytes
    cuts += [[8 + j, 8 - j + k] for j in range(1, 8) for k in (0, 1, 3)]          # token + j bytes of the ClientID | rest of it + k bytes
    cuts += [[p] for p in range(1, P)]                    # one cut inside the preamble
    cuts += [[1] * (P + first_item + 3)]                  # byte by byte across the boundary, then the rest
    cuts += [[1] * 15 + [1 + k] for k in (1, 2, 3)]       # the read that completes the ClientID brings k bytes of data
    cuts += [[P + first_item], [P + first_item - 1], [P + first_item + 1], [P + first_item + second_item],
             [P + first_item, second_item], [P - 1, 2], [P - 1, 1 + first_item], [4, 4, 4, 4 + first_item + 1]]
    for _ in range(8):
        c, left = [], total
        while left > 0 and len(c) < 12:
            n = rng.choice([1, 2, 3, 7, 8, 9, 15, 16, 17, 18, 20, 40, 100, 1000])
            c.append(n)
            left -= n
        cuts.append(c)
    return cuts


def gen_server(ctx):
    rng = ctx.rng
    scen = []
    idx = 0
    bases = [(1, "data"), (200, "pad"), (60, "empty"), (300, "data")]
    if ctx.tier == "thorough":
        bases += [(rng.choice([1, 5, 40, 200, 700, 1500]), rng.choice(["data", "pad", "empty"])) for _ in range(25)]
    def mk(b, c, first, tag=""):
        wire = SRV_TOKEN + b["cid"] + "".join(h for h, _ in b["items"])
        total = len(wire) // 2
        if callable(c):
            ilen = [len(h) // 2 for h, _ in b["items"]]
            c = c(total, ilen)
        sizes, left = [], total
        for n in c:
            n = min(n, left)
            if n > 0:
                sizes.append(n); left -= n
        if left > 0:
            sizes.append(left)
        ops, pos = ["i" + b["sid"], "n"], 0
        for n in sizes:
            ops.append("r0:x" + wire[2 * pos:2 * (pos + n)])
            pos += n
        ops[-1] += "@a1@t%d" % (len(b["app"]) - 5)
        scen.append(dict(line="carrierlayer move " + ",".join(ops),
                         mline="%s srv x%s %s" % (AREA, wire, ",".join(map(str, sizes))),
                         kind="server-%s-first:%s" % (first, tag or ("one-message" if len(sizes) == 1 else
                                                      "coalesced" if any(a < 16 < a + n for a, n in zip(_starts(sizes), sizes)) else "split-at-boundary")),
                         cid=b["cid"], packets=[p for _, p in b["items"] if p is not None], app=b["app"].hex(), sizes=sizes))

    for applen, first in bases:
        ncuts = len(srv_cuts(random.Random(0), 100, 10, 10))
        for ci in range(ncuts):
            # every scenario has its own id, ClientID, conversation and segmentation (they run concurrently against one server)
            b = srv_base(rng, idx, applen, first)
            idx += 1
            mk(b, lambda total, ilen, ci=ci: srv_cuts(rng, total, ilen[0], ilen[1] if len(ilen) > 1 else 0)[ci], first)
    # WebSocket messages longer than anything the Go proxy's writeLoop sends (2048 bytes): several chunks, or a chunk and
    # a part of the next, coalesced into one message by the peer (a browser proxy forwards whole WebRTC messages)
    big = [[], [2048], [2049], [16, 2049], [2047, 2050], [4097], [1, 4096], [16, 2048, 2048], [3000, 1, 3000]]
    if ctx.tier == "thorough":
        big += [[rng.choice([2040, 2048, 2049, 2100, 4095, 4096, 4097, 8192, 9000]) for _ in range(rng.choice([1, 2, 3]))] for _ in range(20)]
    for c in big:
        first = rng.choice(["data", "pad", "empty"])
        b = srv_base(rng, idx, rng.choice([6000, 9000]), first, seg_choices=(300, 700, 1200), frame_choices=(400, 1000, 1100))
        idx += 1
        mk(b, c, first, tag="long-message")
    return scen


def _starts(sizes):
    out, pos = [], 0
    for n in sizes:
        out.append(pos); pos += n
    return out


def server_prop(sc, impl):
    """the round-trip clause at the server's reader, on the implementation's own answer"""
    if impl.startswith("!"):
        return "server driver failed: " + impl[:200]
    d = dict(t.split("=", 1) for t in impl.split(" ") if "=" in t)
    how = "messages of %s bytes (preamble = first 16)" % ",".join(map(str, sc["sizes"][:24]))
    if d.get("accepted") != "1":
        return ("the packets of the carrier did not surface (%s connections accepted instead of 1): the chunk stream was not read from "
                "offset 16 of the carrier's bytes; %s" % (d.get("accepted"), how))
    got = d.get("st", "-")
    want = "0:x" + sc["app"][10:]
    if got != want:
        return ("the packets that surfaced upstream are not the data chunks sent (%d of %d application bytes arrived%s); %s"
                % (max(0, len(got) - 3) // 2, len(sc["app"]) // 2 - 5, "" if want.startswith(got) else ", not a prefix of what was sent", how))
    return None


def server_model_ok(sc, m):
    want = "tok=x%s cid=x%s packets=%s err=eof" % (SRV_TOKEN, sc["cid"], ",".join("x" + p for p in sc["packets"]) or "-")
    return m == want


def server_stage(ctx, bb, scen, result):
    result["impl"] = vlib.run_impl(bb, [s["line"] for s in scen], timeout=1500)


def run(ctx):
    import threading
    # the server's reader: runs next to everything else (its scenarios wait for real network effects)
    scen, srv, th = [], {}, None
    try:
        bb = vlib.go_build("./zz_verif/c05bb")
    except vlib.GoBuildError as e:
        bb = None
        ctx.not_shown("server-reader stage: harness/overlay/zz_verif/c05bb does not build against this tree: " + str(e)[-400:].replace("\n", " | "))
    if bb:
        scen = gen_server(ctx)
        th = threading.Thread(target=server_stage, args=(ctx, bb, scen, srv))
        th.start()
    try:
        run_rest(ctx)
    finally:
        if th:
            th.join()
    if not bb:
        return
    ctx.trusted.append("harness/overlay/zz_verif/c05bb/main.go (black-box server driver, exported API only) carries the server-reader stage: "
                       "hand-made KCP segments / smux frames (lib/checks/c09.py) turn the packets that surfaced into the accepted stream")
    ctx.assumptions.append("server-reader stage: kcp-go and smux (libraries) deliver the stream of in-order segments unchanged; a WebSocket "
                           "message is what one Read of the server's conn can return at most")
    mout = vlib.run_model([s["mline"] for s in scen])
    rc, out, err = srv["impl"]
    if rc != 0 or len(out) != len(scen):
        ctx.violation("driver-crash", "black-box server driver died rc=%s: %s" % (rc, err[-800:]), dict(stderr=err[-3000:], driver="c05bb"))
        return
    for sc, o, m in zip(scen, out, mout):
        ctx.count(sc["line"], kind=sc["kind"])
        rep = dict(label="server-reader", case=sc["line"][:20000], impl=o[:3000], model=m[:3000], model_case=sc["mline"][:8000], driver="c05bb",
                   expect=dict(app=sc["app"], sizes=sc["sizes"]))
        if not server_model_ok(sc, m):
            ctx.not_shown("model: server_read does not return the chunks sent: case=%s model=%s" % (sc["mline"][:400], m[:300]))
        bad = server_prop(sc, o)
        if bad:
            ctx.violation("server-reader-framing", bad, rep)


def run_rest(ctx):
    exe = vlib.go_build("./zz_verif/encap")
    ctx.trusted.append("scripted io.Reader in harness/overlay/zz_verif/encap/main.go realises the io.Reader behaviours the model quantifies over")
    ctx.assumptions += ["model = coq/Model/Encap.v (hand written); tie = correspondence on generated cases",
                        "io.ReadFull / io.CopyN are modelled at Read-call granularity (coq/Model/Encap.v read_full)"]
    lines, kinds = gen(ctx)
    ctx.correspond(exe, lines, kinds, label="encapsulation", prop=prop, key_of=key_of)
    os.environ["VERIF_DRIVER"] = "1"
    pexe = vlib.go_test_build("./client/lib", name="c09_client_lib.test")
    lines, kinds = gen_pc(ctx)
    ctx.correspond(pexe, lines, kinds, label="client-packetconn", prop=prop, key_of=key_of, impl_args=PC_ARGS)
    e_lines, e_kinds, t_lines, t_kinds = truncations(ctx, exe)
    ctx.correspond(exe, e_lines + t_lines, e_kinds + t_kinds, label="encapsulation-truncation", prop=prop, key_of=key_of, crosscheck=20)


def replay(ctx, doc):
    exe = vlib.go_build("./zz_verif/encap")
    os.environ["VERIF_DRIVER"] = "1"
    pexe = vlib.go_test_build("./client/lib", name="c09_client_lib.test")
    bad = 0
    for v in doc.get("violations", []):
        case = v["replay"].get("case")
        if not case:
            continue
        if v["replay"].get("driver") == "c05bb":
            rc, r, err = vlib.run_impl(vlib.go_build("./zz_verif/c05bb"), [case])
            r = r[0] if r else "!died"
            p = server_prop(v["replay"]["expect"], r)
            print("case: %s\n impl:  %s\n property: %s" % (case[:300], r[:300], p or "holds"))
            bad += 1 if p else 0
            continue
        m = vlib.run_model([case])[0]
        if case.split(" ")[1] == "pc":
            rc, r, err = vlib.run_impl(pexe, [case], args=PC_ARGS)
        else:
            rc, r, err = vlib.run_impl(exe, [case])
        r = r[0] if r else "!died"
        p = prop(case, r, m)
        print("case: %s\n model: %s\n impl:  %s\n property: %s" % (case[:300], m[:300], r[:300], p or "holds"))
        bad += 1 if p else 0
    return 1 if bad else 0
