"""C20 — no data races in broker, server, proxy or client under load (PARTIAL, translator backed).

Two legs:
  (1) lock-discipline table: harness/overlay/zz_verif/locktable (go/types based extractor) regenerates
      coq/Gen/AccessTable.v from the repo's CURRENT source; Properties/C20.v proves
      `discipline_ok access_table = true` by vm_compute and, through `discipline_sound` + `lockset_drf`
      (proved for all traces), that no two conflicting accesses to a tracked field are unordered by
      happens-before in any execution that holds at least the locks the table records.
      Rows that break the discipline are the violations (key from the function / field of the row).
      The extractor also reports function-local variables shared between goroutines (captured by
      `go func` closures): an unordered conflicting pair with no synchronisation in sight is a violation
      (key race-<func>.<var>), the undecidable rest is a needs-dynamic list the race workloads cover.
  (2) search for concrete races: -race builds of in-package workloads (broker herd + metrics printer +
      scrapes, broker over real HTTP on every route, turbotunnel queue/client-map stress, client Peers
      churn, proxy traffic logger / tokens / periodic NAT retest while polling, server carriers, server
      carriers failing in both directions at once). Every `WARNING: DATA RACE` report is a violation;
      the report is the replay.
  (3) recorded executions: the extractor writes instrumented COPIES of the scanned sources (lock
      operations, tracked-field accesses, go statements log themselves), the trace tests run in binaries
      built from them, and the EXTRACTED, proved-sound `check_trace` (C20_trace_check_sound) checks
      every recorded trace against the generated table: well formed, respects the table.
"""
import concurrent.futures
import hashlib
import json
import os
import re
import time

import vlib

# ---------------------------------------------------------------- keys

# ordered: first match wins. Matched against function names and source lines of the top frames
# (race reports) or against "<func> <field>" of a table row.
KEY_RULES = [
    (r"newSignalingServer", "race-newSignalingServer"),
    (r"roundedCounter", "race-roundedCounter"),
    (r"zeroMetrics", "race-zeroMetrics"),
    (r"bytesSyncLogger", "race-bytesSyncLogger"),
    (r"tokens_t|\.count\(\)", "race-tokens-count"),
    (r"clientRoundtripEstimate", "race-clientRoundtripEstimate"),
    (r"closechan|close\(record\.SendQueue\)|clientRecord\.SendQueue", "race-sendQueue-close"),
]


# The SIGHUP path of the broker (Metrics.LoadGeoipDatabases while polls are served): Metrics.geoipdb in the tracked list and a
# reload goroutine in the HTTP soak.  On by default since /repo 8c17ea8 takes the metrics lock in LoadGeoipDatabases
# (proposed-fixes/C20-geoip-reload-lock.diff); a tree without that lock gives `race-Metrics.geoipdb` (table row + race report).
# VERIF_C20_GEOIP_RELOAD=0 switches both off.
GEOIP_RELOAD = os.environ.get("VERIF_C20_GEOIP_RELOAD", "1") == "1"

TRACKED = []     # "Type.field" names of the table, filled by table_leg (longest first)
LOCALS = []      # (function, variable) of captured locals the extractor could not decide, filled by table_leg
# functions with captured locals that need the dynamic check -> the race workloads that run them
DYNAMIC_COVER = {
    "turbotunnelMode": ["server", "server-bothfail"],
    "main": [],                                   # broker main(): flag parsing + signal handling, not run in-package
    "NewSnowflakeClient": ["peers"],
    "SnowflakeProxy.makePeerConnectionFromOffer": ["nat-retest"],
}


def key_from_text(txt, fallback):
    for fn, var in LOCALS:   # a captured local named on a racing line of its function
        if re.search(r"\b%s\b" % re.escape(fn.split(".")[-1]), txt) and re.search(r"\b%s\b" % re.escape(var), txt):
            return "race-%s.%s" % (fn.split(".")[-1], var)
    for pat, key in KEY_RULES:
        if re.search(pat, txt):
            return key
    for f in TRACKED:   # a tracked field named on one of the racing source lines
        if re.search(r"\b%s\b" % re.escape(f.split(".", 1)[1]), txt):
            return "race-" + f
    return fallback


# ---------------------------------------------------------------- race workloads

def workloads(tier, seed):
    th = tier == "thorough"
    seeds = [seed * 1000 + k for k in range(30 if th else 3)]
    w = []
    for s in seeds:
        w.append(dict(name="broker-matched", pkg="./broker", cwd="broker", run="^TestVerifC20BrokerMatched$",
                      env=dict(VERIF_C20_N="96" if th else "48", VERIF_SEED=str(s)), timeout=120))
    for s in seeds[: (6 if th else 1)]:
        w.append(dict(name="broker-herd", pkg="./broker", cwd="broker", run="^TestVerifC20BrokerHerd$",
                      env=dict(VERIF_C20_HERD="64" if th else "24", VERIF_SEED=str(s)), timeout=120, may_hang=True))
    for s in seeds[: (12 if th else 1)]:
        w.append(dict(name="turbotunnel", pkg="./common/turbotunnel", cwd="common/turbotunnel", run="^TestVerifC20QueueConn$",
                      env=dict(VERIF_C20_N="24" if th else "12", VERIF_C20_MS="1500" if th else "500", VERIF_SEED=str(s)), timeout=180))
    for s in seeds[: (12 if th else 2)]:
        w.append(dict(name="peers", pkg="./client/lib", cwd="client/lib", run="^TestVerifC20Peers$",
                      env=dict(VERIF_C20_N="120" if th else "24", VERIF_SEED=str(s)), timeout=180))
        w.append(dict(name="byteslogger", pkg="./proxy/lib", cwd="proxy/lib", run="^TestVerifC20BytesLogger$",
                      env=dict(VERIF_C20_N="24" if th else "8", VERIF_SEED=str(s)), timeout=120))
        w.append(dict(name="tokens", pkg="./proxy/lib", cwd="proxy/lib", run="^TestVerifC20Tokens$",
                      env=dict(VERIF_C20_N="8", VERIF_SEED=str(s)), timeout=120))
        w.append(dict(name="server", pkg="./server/lib", cwd="server/lib", run="^TestVerifC20ServerCarriers$",
                      env=dict(VERIF_C20_N="48" if th else "12", VERIF_SEED=str(s)), timeout=120))
        w.append(dict(name="server-bothfail", pkg="./server/lib", cwd="server/lib", run="^TestVerifC20ServerBothFail$",
                      env=dict(VERIF_C20_N="96" if th else "32", VERIF_SEED=str(s)), timeout=120))
    # whole-component workloads: the broker over real HTTP on every route; a proxy with periodic NAT retest
    for s in seeds[: (6 if th else 1)]:
        w.append(dict(name="broker-http", pkg="./broker", cwd="broker", run="^TestVerifC20BrokerHTTPSoak$",
                      env=dict(VERIF_C20_N="160" if th else "32", VERIF_C20_IDLE="4" if th else "2", VERIF_SEED=str(s),
                               VERIF_C20_GEOIP_RELOAD="1" if GEOIP_RELOAD else "0"), timeout=180))
        w.append(dict(name="nat-retest", pkg="./proxy/lib", cwd="proxy/lib", run="^TestVerifC20NATRetest$",
                      env=dict(VERIF_C20_N="6" if th else "4", VERIF_C20_MS="8000" if th else "1500", VERIF_SEED=str(s)), timeout=180))
    return w


FRAME = re.compile(r"^  (\S+)\(\)\n\s+(\S+?):(\d+)", re.M)


def parse_reports(stderr):
    """-> list of dicts(key_text, tops, text) for each DATA RACE block"""
    out = []
    for blk in stderr.split("WARNING: DATA RACE")[1:]:
        blk = blk.split("==================")[0]
        parts = re.split(r"\n\s*\n", blk.strip("\n"))
        tops, texts = [], []
        for st in parts[:2]:
            frames = FRAME.findall(st)
            texts.append(" ".join(f[0] for f in frames[:3]))
            repo = [f for f in frames if ("/" + "repo" in f[1] or vlib.REPO in f[1]) and "/usr/lib/go" not in f[1]]
            own = [f for f in repo if "zz_verif" not in f[1]] or repo
            if own:
                fn, path, ln = own[0]
                src = ""
                try:
                    real = path
                    if "zz_verif" in path:  # overlay file: lives in the harness
                        real = os.path.join(vlib.OVERLAY_SRC, os.path.relpath(path, vlib.REPO))
                    src = open(real).read().split("\n")[int(ln) - 1].strip()
                except Exception:
                    pass
                tops.append(dict(fn=fn.split("/")[-1], site="%s:%s" % (os.path.relpath(path, vlib.REPO) if path.startswith(vlib.REPO) else path, ln), src=src))
                texts.append(fn + " " + src)
        fb = "race-" + "@".join(sorted(set(re.sub(r"[^A-Za-z0-9_.]", "", t["fn"].split(".", 1)[-1]) for t in tops))) if tops else "race-unknown"
        # both racing accesses are in closures of one function and store to the same local: race-<func>.<var>
        if len(tops) == 2:
            fns = [re.match(r"(?:.*\.)?(\w+)\.(?:func\d+|gowrap\d+)", t["fn"]) for t in tops]
            lhs = [re.match(r"\s*(\w+)\s*(?:=[^=]|\+\+|--|[-+*/|&^]=)", t["src"]) for t in tops]
            if all(fns) and all(lhs) and fns[0].group(1) == fns[1].group(1) and lhs[0].group(1) == lhs[1].group(1):
                fb = "race-%s.%s" % (fns[0].group(1), lhs[0].group(1))
        out.append(dict(key=key_from_text(" ".join(texts), fb), tops=tops, text=("WARNING: DATA RACE" + blk)[:6000]))
    return out


def run_workload(w, exe):
    env = dict(os.environ, GORACE="halt_on_error=0", **w["env"])
    t0 = time.time()
    rc, out, err = vlib.sh([exe, "-test.run", w["run"], "-test.count=1"], cwd=os.path.join(vlib.REPO, w["cwd"]), timeout=w["timeout"], env=env)
    return rc, out, err, time.time() - t0


def race_leg(ctx):
    ws = workloads(ctx.tier, ctx.seed)
    pkgs = sorted(set(w["pkg"] for w in ws))
    exes = {}
    t0 = time.time()
    with concurrent.futures.ThreadPoolExecutor(max_workers=3) as ex:
        futs = {p: ex.submit(vlib.go_test_build, p, None, True) for p in pkgs}
        for p, f in futs.items():
            exes[p] = f.result()          # GoBuildError propagates: harness no longer builds
    ctx.extra["race_build_s"] = round(time.time() - t0, 1)
    per_key = {}
    summary = []
    with concurrent.futures.ThreadPoolExecutor(max_workers=3) as ex:
        results = list(ex.map(lambda w: run_workload(w, exes[w["pkg"]]), ws))
    for w, (rc, out, err, dt) in zip(ws, results):
        case = "race %s seed=%s %s" % (w["name"], w["env"].get("VERIF_SEED"), " ".join("%s=%s" % kv for kv in sorted(w["env"].items()) if kv[0] != "VERIF_SEED"))
        ctx.count(case, kind="race-" + w["name"])
        line = next((l for l in out.split("\n") if l.startswith("C20 ")), "")
        summary.append("%s %.1fs rc=%d %s" % (w["name"], dt, rc, line[:200]))
        reps = parse_reports(err)
        for r in reps:
            d = per_key.setdefault(r["key"], dict(n=0, first=None))
            d["n"] += 1
            if d["first"] is None:
                d["first"] = dict(workload=w["name"], env=w["env"], tops=r["tops"], report=r["text"])
        panics = [l for l in out.split("\n") if l.startswith("C20 PANIC")]
        if "panic:" in err or panics:
            ctx.violation("driver-panic-" + w["name"], "workload %s panicked: %s" % (w["name"], (panics or [err[-400:]])[0][:400]),
                          dict(workload=w["name"], env=w["env"], stderr=err[-3000:]))
        elif "done=true" not in line and not w.get("may_hang"):
            if rc == 124 or "done=false" in line:
                ctx.not_shown("race workload %s did not complete (rc=%d): %s" % (w["name"], rc, (line or err[-300:])[:300]))
            elif not reps:
                ctx.not_shown("race workload %s failed without a race report (rc=%d): %s" % (w["name"], rc, err[-400:]))
    for key, d in sorted(per_key.items()):
        f = d["first"]
        where = " / ".join("%s %s" % (t["fn"], t["site"]) for t in f["tops"])
        ctx.violation(key, "data race reported by the Go race detector (%d reports, first in workload %s): %s" % (d["n"], f["workload"], where),
                      dict(kind="race-report", workload=f["workload"], env=f["env"], tops=f["tops"], reports=d["n"], report=f["report"]))
    ctx.extra["race_workloads"] = summary
    ctx.extra["race_reports_by_key"] = {k: d["n"] for k, d in per_key.items()}


# ---------------------------------------------------------------- table leg

PKGS = ["/broker", "/common/turbotunnel", "/server/lib", "/client/lib", "/proxy/lib"]
GEN = os.path.join(vlib.COQ, "Gen", "AccessTable.v")
INSTR = os.path.join(vlib.GOB, "instr")      # instrumented copies of the scanned sources (trace leg)


def extract_table():
    """Run the extractor on the repo's current source. -> (coq text, json doc)"""
    exe = vlib.go_build("./zz_verif/locktable")
    lst = os.path.join(vlib.GOB, "golist.json")
    rc, out, err = vlib.sh(["go", "list", "-export", "-deps", "-json=ImportPath,Dir,Export,GoFiles,CgoFiles", "-tags", "verif",
                            "-modfile=" + os.path.join(vlib.GOB, "go.mod")] + ["." + p for p in PKGS],
                           cwd=vlib.REPO, env=vlib.GOENV, timeout=900)
    if rc != 0:
        raise vlib.GoBuildError("go list -export failed (the anchored packages no longer compile?):\n" + err[-2000:])
    open(lst, "w").write(out)
    vout = os.path.join(vlib.GOB, "AccessTable.v")
    jout = os.path.join(vlib.GOB, "access_table.json")
    rc, out, err = vlib.sh([exe, "-list", lst, "-root", vlib.REPO, "-coq", vout, "-json", jout, "-instr", INSTR] + PKGS, timeout=300,
                           env=dict(os.environ, VERIF_C20_GEOIP_RELOAD="1" if GEOIP_RELOAD else "0"))
    if rc != 0:
        raise vlib.GoBuildError("locktable extractor failed: " + err[-2000:])
    return open(vout).read(), json.load(open(jout))


def strip_r(g):
    return g[:-2] if g.endswith("#R") else g


def field_ok(rows):
    """python mirror of LockTrace.field_ok (reporting only; the verdict is Coq's): a common lock g such that
    every row that is not a plain read holds it in WRITE mode (lists the name without #R)"""
    live = [r for r in rows if r["kind"] != "init"]
    if all(r["kind"] == "atomic" for r in live) or all(r["kind"] == "read" for r in live):
        return True
    common = set(live[0]["held"])
    for r in live[1:]:
        common &= set(r["held"])
    return any(not strip_r(g).endswith("#R") and all(r["kind"] == "read" or strip_r(g) in r["held"] for r in live) for g in common)


def culprits(rows):
    """the rows of a failing field that break its prevailing discipline"""
    live = [r for r in rows if r["kind"] != "init"]
    cnt = {}
    for r in live:
        for g in r["held"]:
            if not g.endswith("#R"):
                cnt[g] = cnt.get(g, 0) + 1
    for r in live:       # a lock that is only ever held in read mode still names the guard
        for g in r["held"]:
            if g.endswith("#R"):
                cnt.setdefault(g[:-2], 0)
    if cnt:
        g = max(sorted(cnt), key=lambda k: cnt[k])
        bad = [r for r in live if g not in r["held"] and (g + "#R" not in r["held"] or r["kind"] != "read")]
        return g, bad or live
    if any(r["kind"] == "atomic" for r in live):
        return "(atomic)", [r for r in live if r["kind"] != "atomic"]
    return "(none)", live


def coq_failing_fields():
    """failing_fields access_table evaluated by coqc (vm_compute)"""
    os.makedirs(vlib.TMP, exist_ok=True)
    tag = "ff_%d_%d" % (os.getpid(), int(time.time() * 1000) % 100000)
    vf = os.path.join(vlib.TMP, tag + ".v")
    open(vf, "w").write("Require Import String List Snow.Model.LockTrace Snow.Gen.AccessTable.\nOpen Scope string_scope.\n"
                        "Definition ff := Eval vm_compute in failing_fields access_table.\nPrint ff.\n")
    rc, out, err = vlib.sh(["coqc", "-Q", vlib.COQ, "Snow", vf], cwd=vlib.TMP, timeout=600)
    for ext in (".v", ".vo", ".glob", ".vok", ".vos"):
        try:
            os.remove(vf[:-2] + ext)
        except OSError:
            pass
    try:
        os.remove(os.path.join(vlib.TMP, "." + tag + ".aux"))
    except OSError:
        pass
    if rc != 0:
        return None, (out + err)[-800:]
    body = out.split("ff =", 1)[-1].rsplit(":", 1)[0]
    return re.findall(r'"([^"]*)"', body), ""


def table_leg(ctx):
    t0 = time.time()
    text, doc = extract_table()
    ctx.extra["extract_s"] = round(time.time() - t0, 1)
    old = open(GEN).read() if os.path.exists(GEN) else None
    if old != text:
        open(GEN, "w").write(text)
        vlib.log("Gen/AccessTable.v regenerated from %s (%d rows): re-checking the proofs" % (vlib.REPO, len(doc["rows"])))
        vlib.coq_build()

    def mt(rel):
        try:
            return os.path.getmtime(os.path.join(vlib.COQ, rel))
        except OSError:
            return 0
    if old != text or mt("Properties/C20.vo") < max(mt("Gen/AccessTable.vo"), mt("Gen/AccessTable.v")):
        # a failing rebuild leaves the previous .vo files behind: drop them so that the status is the real one
        if mt("Properties/C20.vo") < max(mt("Gen/AccessTable.vo"), mt("Gen/AccessTable.v")):
            for dep in ("Proofs/AccessTableProofs", "Properties/C20"):
                for ext in (".vo", ".vok", ".vos", ".glob"):
                    try:
                        os.remove(os.path.join(vlib.COQ, dep + ext))
                    except OSError:
                        pass
        ctx.proof = vlib.proof_status(ctx.cid)
    rows = doc["rows"]
    ctx.extra["instrumented_sites"] = dict(json.load(open(os.path.join(INSTR, "overlay.json"))), Replace=None)
    by_field = {}
    for r in rows:
        by_field.setdefault(r["field"], []).append(r)
        ctx.count("row %s %s %s [%s]" % (r["site"], r["field"], r["kind"], ",".join(r["held"])), kind="table-" + r["kind"])
    TRACKED[:] = sorted(set(f.replace("[]", "") for f in by_field), key=lambda f: (-len(f), f))
    ctx.extra["table_rows"] = len(rows)
    ctx.extra["table_fields"] = len(by_field)
    ctx.extra["coverage_lost"] = doc.get("coverage_lost", [])
    if doc.get("coverage_lost"):
        vlib.log("tracked fields that no longer exist (coverage lost, -race runs still apply): %s" % doc["coverage_lost"])
    failing_py = sorted(f for f, rs in by_field.items() if not field_ok(rs))
    failing_coq, why = coq_failing_fields()
    if failing_coq is None:
        ctx.not_shown("Gen/AccessTable.v does not evaluate in Coq: " + why)
        failing_coq = failing_py
    elif sorted(failing_coq) != failing_py:
        ctx.not_shown("discipline verdicts differ: Coq failing_fields=%s, check module=%s" % (sorted(failing_coq), failing_py))
    ctx.extra["failing_fields"] = sorted(failing_coq)
    groups = {}
    for f in sorted(set(failing_coq) | set(failing_py)):
        guard, bad = culprits(by_field.get(f, []))
        key = key_from_text(" ".join(r["fn"] + " " + r["field"] for r in bad), "race-" + re.sub(r"[^A-Za-z0-9_.]", "", f.replace("[]", "")))
        g = groups.setdefault(key, dict(fields=[], rows=[]))
        g["fields"].append(dict(field=f, prevailing_guard=guard))
        g["rows"] += [dict(site=r["site"], fn=r["fn"], field=r["field"], kind=r["kind"], held=r["held"]) for r in bad]
    # function-local variables shared between goroutines
    loc = doc.get("captured_locals", [])
    LOCALS[:] = [(c["fn"], c["var"]) for c in loc]
    nd = []
    for c in loc:
        case = "local %s %s %s" % (c["fn"], c["var"], c["verdict"])
        ctx.count(case, kind="captured-local-" + c["verdict"])
        if c["verdict"] == "violation":
            ctx.violation("race-%s.%s" % (c["fn"].split(".")[-1], c["var"]),
                          "local variable `%s` of %s (declared %s) is accessed by several goroutines with no lock in common and no "
                          "synchronisation that could order the accesses: %s" %
                          (c["var"], c["fn"], c["decl"], "; ".join("%s / %s" % (p["A"], p["B"]) for p in c["pairs"][:3])),
                          dict(kind="captured-local", fn=c["fn"], var=c["var"], decl=c["decl"], pairs=c["pairs"]))
        else:
            cover = DYNAMIC_COVER.get(c["fn"])
            nd.append(dict(fn=c["fn"], var=c["var"], decl=c["decl"], covered_by=cover, pairs=c["pairs"][:2]))
            if cover is None:
                ctx.not_shown("captured local `%s` of %s (%s) needs the dynamic check and no race workload is registered for "
                              "that function (DYNAMIC_COVER in lib/checks/c20.py)" % (c["var"], c["fn"], c["decl"]))
    ctx.extra["captured_locals_needing_dynamic_check"] = nd
    ctx.extra["generated_example"] = doc.get("example", {})
    for key, g in sorted(groups.items()):
        sites = sorted(set("%s (%s, %s, holds %s)" % (r["site"], r["fn"], r["kind"], r["held"] or "nothing") for r in g["rows"]))
        ctx.violation(key, "lock discipline broken for %s: %s" % (", ".join(x["field"] for x in g["fields"]), "; ".join(sites[:6])),
                      dict(kind="table-rows", fields=g["fields"], rows=g["rows"][:40],
                           note="each row is an access site of the field that does not hold the guard held at the field's other sites; "
                                "the -race workloads of this check exercise these sites"))
    return rows


def run(ctx):
    ctx.level = "proof"
    ctx.trusted += ["harness/overlay/zz_verif/locktable (access-table extractor: may drop held locks, must not add any)",
                    "Go race detector (happens-before, -race builds of the workloads)"]
    ctx.assumptions += [
        "executions respect the extracted table: each access of a tracked field is an instance of one of its rows and the mutex "
        "instance held is the one guarding that object (checked on the recorded executions only, by check_trace)",
        "init rows: constructor code before the first go statement is modelled as preceding the first Fork of the trace",
        "recorded traces (one schedule each): acquisition logged after Lock returns, release before Unlock, access just before its statement; "
        "goroutines started by code that is not instrumented get their Fork at their first event; inst(x, lock name) chosen from what the "
        "accessing thread holds and verified by the extracted checker at every access",
        "captured locals: `needs-dynamic` = a channel operation / Wait / select / Once stands where it could order the pair; not proved that it does",
        "fields disciplined by goroutine confinement or channel hand-off are not in the table: only the -race runs observe them",
    ]
    ctx.extra["rule"] = ("evaluations = rows of the access table extracted from the repo's working tree (each row is one access site "
                         "checked by discipline_ok inside Coq) + captured-local verdicts + recorded traces run through the extracted "
                         "check_trace (one case per package) + runs of -race workloads (workload x seed); distinct = distinct rows / cases / runs")
    ctx.extra["explanation"] = ("lockset theorem over all traces with read/write lock modes (Coq) + static access table regenerated from the source "
                                "and checked by vm_compute + recorded executions of instrumented builds checked by the extracted, proved-sound "
                                "check_trace + Go race detector on in-package and whole-component workloads")
    rows = table_leg(ctx)
    # the two dynamic legs are independent of each other: recorded traces next to the race workloads
    with concurrent.futures.ThreadPoolExecutor(max_workers=1) as ex:
        fut = ex.submit(trace_leg, ctx, rows)
        race_leg(ctx)
        fut.result()


def replay(ctx, doc):
    """A replay file holds table rows (re-extracted and re-evaluated here) and / or race reports (the workloads
    are re-run with the recorded environment first, then the whole search)."""
    ctx.proof = vlib.proof_status(ctx.cid)
    for v in doc.get("violations", []):
        r = v.get("replay", {})
        if r.get("kind") == "race-report":
            print("replaying workload %s env=%s (recorded key %s)" % (r.get("workload"), r.get("env"), v.get("key")))
    run(ctx)
    return ctx.finish()


# ---------------------------------------------------------------- trace leg (recorded executions)

TRACE_PKGS = [
    dict(name="broker", pkg="./broker", cwd="broker", env=dict(VERIF_C20_N="12")),
    dict(name="proxy", pkg="./proxy/lib", cwd="proxy/lib", env={}),
    dict(name="server", pkg="./server/lib", cwd="server/lib", env={}),
    dict(name="turbotunnel", pkg="./common/turbotunnel", cwd="common/turbotunnel", env={}),
    dict(name="client", pkg="./client/lib", cwd="client/lib", env={}),
]


def trace_to_case(path, rows):
    """ltrace dump -> (`locktrace check` case line, stats, per-event info for reporting).
    Threads, lock instances and locations are numbered in order of appearance; the main thread is the goroutine
    that enabled the recorder.  A goroutine's first event carries its creator: it is matched with the creator's
    earliest unmatched go statement (fork point); without one (go statement in code that is not instrumented) a Fork
    is inserted right there.  inst(x, name) = the lock instance of that static name the accessing thread holds at the
    accesses of x (the checker verifies the choice at every access)."""
    evs = []
    for line in open(path):
        k, g, p, name, par = line.rstrip("\n").split(" ")
        evs.append((k, int(g), int(p), "" if name == "-" else name, int(par)))
    names_of_class = {}
    for r in rows:
        st = names_of_class.setdefault(r["field"], set())
        for h in r["held"]:
            st.add(strip_r(h))
    tid, out, pending = {}, [], {}
    synthetic = 0

    def T(g):
        if g not in tid:
            tid[g] = len(tid)
        return tid[g]
    lock_id, lock_name, loc_id, loc_class, classes = {}, {}, {}, {}, []
    held, cand = {}, {}
    for (k, g, p, name, par) in evs:
        if k == "M":
            T(g)
        elif k == "N":
            if g in tid:
                continue
            child = T(g)
            q = pending.get(par, [])
            if par in tid and q:
                out[q.pop(0)] = ("f", tid[par], child, "")
            else:
                out.append(("f", tid.get(par, 0), child, "synthetic"))
                synthetic += 1
        elif k == "F":
            out.append(("F", T(g), 0, ""))
            pending.setdefault(g, []).append(len(out) - 1)
        elif k in "arAR":
            if p not in lock_id:
                lock_id[p] = len(lock_id) + 1
                lock_name[lock_id[p]] = name
            l, t = lock_id[p], T(g)
            h = held.setdefault(t, {})
            if k in "aA":
                h[l] = h.get(l, 0) + 1
            else:
                h[l] = h.get(l, 0) - 1
                if h[l] <= 0:
                    h.pop(l, None)
            out.append((k, t, l, name))
        elif k in "dwo":
            key = (p, name)
            if key not in loc_id:
                loc_id[key] = len(loc_id) + 1
                if name not in classes:
                    classes.append(name)
                loc_class[loc_id[key]] = classes.index(name)
            x, t = loc_id[key], T(g)
            for nm in names_of_class.get(name, ()):
                now = set(l for l in held.get(t, {}) if lock_name[l] == nm)
                if now:
                    c = cand.get((x, nm))
                    cand[(x, nm)] = now if c is None else ((c & now) or c)
            hnames = sorted(set(lock_name[l] or "?" for l in held.get(t, {})))
            out.append((k, t, x, "%s holding [%s]" % (name, ",".join(hnames))))
    nt = len(tid)
    final, info = [], []
    for (k, a, b, note) in out:
        if k == "F":
            final.append("f%d.%d" % (a, nt))
            nt += 1
        else:
            final.append("%s%d.%d" % (k, a, b))
        info.append(note)
    locs = []
    for (p, name), x in sorted(loc_id.items(), key=lambda kv: kv[1]):
        lks = ["%s=%d" % (nm, min(c)) for (xx, nm), c in sorted(cand.items()) if xx == x and c]
        locs.append("%d:%d:%s" % (x, loc_class[x], "/".join(lks) or "-"))
    line = "locktrace check %s %s %s" % (";".join(classes) or "-", ",".join(locs) or "-", ",".join(final) or "-")
    stats = dict(events=len(final), accesses=sum(1 for e in out if e[0] in "dwo"), lock_ops=sum(1 for e in out if e[0] in "arAR"),
                 threads=len(tid), locks=len(lock_id), locations=len(loc_id), fields=sorted(classes), synthetic_forks=synthetic)
    return line, stats, final, info


def trace_leg(ctx, rows):
    """Record executions of the instrumented packages and run the extracted check_trace on them."""
    t0 = time.time()
    vlib.go_prepare()
    base = json.load(open(os.path.join(vlib.GOB, "overlay.json")))["Replace"]
    ov = json.load(open(os.path.join(INSTR, "overlay.json")))
    base.update(ov["Replace"])
    ovp = os.path.join(vlib.GOB, "overlay_instr.json")
    data = json.dumps({"Replace": base}, indent=1, sort_keys=True)
    if not os.path.exists(ovp) or open(ovp).read() != data:
        open(ovp, "w").write(data)

    def build(tp):
        out = os.path.join(vlib.GOB, "bin", tp["name"] + "_ltrace.test")
        for attempt in range(2):
            rc, o, e = vlib.sh(["go", "test", "-c", "-vet=off", "-tags", "verif", "-modfile=" + os.path.join(vlib.GOB, "go.mod"), "-overlay", ovp,
                                "-ldflags=-checklinkname=0", "-o", out, tp["pkg"]], cwd=vlib.REPO, env=vlib.GOENV, timeout=900)
            if rc == 0 or "missing module declaration" not in (o + e):
                break
            time.sleep(2)       # the shared go.mod copy was being rewritten by a check running next to this one (see vlib.go_prepare)
            vlib.go_prepare()
        if rc != 0:
            raise vlib.GoBuildError("instrumented build of %s failed (locktable -instr wrote a copy that does not compile):\n%s" % (tp["pkg"], (o + e)[-3000:]))
        return out

    def record(tp, exe):
        path = os.path.join(vlib.GOB, "ltrace_%s.txt" % tp["name"])
        try:
            os.remove(path)
        except OSError:
            pass
        env = dict(os.environ, VERIF_LTRACE_OUT=path, VERIF_SEED=str(ctx.seed), **tp["env"])
        rc, out, err = vlib.sh([exe, "-test.run", "^TestVerifC20Trace$", "-test.count=1"], cwd=os.path.join(vlib.REPO, tp["cwd"]), timeout=180, env=env)
        return rc, out, err, path

    with concurrent.futures.ThreadPoolExecutor(max_workers=3) as ex:
        exes = list(ex.map(build, TRACE_PKGS))
    with concurrent.futures.ThreadPoolExecutor(max_workers=3) as ex:
        recs = list(ex.map(lambda a: record(*a), zip(TRACE_PKGS, exes)))
    cases, metas = [], []
    for tp, (rc, out, err, path) in zip(TRACE_PKGS, recs):
        if not os.path.exists(path):
            if "panic:" in err or "panic:" in out:
                ctx.violation("driver-panic-trace-" + tp["name"], "trace recording of %s panicked: %s" % (tp["pkg"], (err or out)[-400:]),
                              dict(kind="trace", pkg=tp["pkg"], stderr=err[-3000:]))
            else:
                ctx.not_shown("trace recording of %s produced no trace (rc=%d): %s" % (tp["pkg"], rc, (err or out)[-300:]))
            continue
        line, stats, final, info = trace_to_case(path, rows)
        cases.append(line)
        metas.append((tp, stats, final, info))
    results = vlib.run_model(cases) if cases else []
    summary, covered = [], set()
    for (tp, stats, final, info), line, res in zip(metas, cases, results):
        ctx.count(line, kind="recorded-trace")
        summary.append(dict(package=tp["pkg"], verdict=res, **{k: v for k, v in stats.items() if k != "fields"}, fields=len(stats["fields"])))
        if res.startswith("ok "):
            covered |= set(stats["fields"])
            continue
        m = re.match(r"reject at=(\d+)", res)
        i = int(m.group(1)) if m else -1
        ev = final[i] if 0 <= i < len(final) else "?"
        note = info[i] if 0 <= i < len(info) else ""
        rp = os.path.join(vlib.REPLAYS, "C20-trace-%s-%d.case" % (tp["name"], ctx.seed))
        os.makedirs(vlib.REPLAYS, exist_ok=True)
        open(rp, "w").write(line + "\n")
        if ev[:1] in "dwo":
            cls = note.split(" ")[0]
            key = key_from_text(cls, "race-" + re.sub(r"[^A-Za-z0-9_.]", "", cls.replace("[]", "")))
            what = ("recorded execution of %s: event %d is a %s of %s with no row of the table that matches it (kind and locks held); "
                    "the extracted check_trace rejects the trace" % (tp["pkg"], i, {"d": "read", "w": "write", "o": "atomic access"}[ev[0]], note))
            ctx.violation(key, what, dict(kind="recorded-trace", pkg=tp["pkg"], event_index=i, event=ev, note=note, case_file=rp,
                                          context=final[max(0, i - 12):i + 1]))
        elif ev == "?" or not m:
            ctx.not_shown("trace checker answered `%s` for the recorded trace of %s (case in %s)" % (res[:100], tp["pkg"], rp))
        else:
            ctx.not_shown("recorded trace of %s is not well formed at event %d (%s %s): lock semantics or thread creation not respected by the "
                          "recorder (case in %s)" % (tp["pkg"], i, ev, note, rp))
    ctx.extra["recorded_traces"] = summary
    ctx.extra["recorded_trace_fields_covered"] = sorted(covered)
    ctx.extra["recorded_trace_fields_not_covered"] = sorted(set(r["field"] for r in rows) - covered)
    ctx.extra["trace_leg_s"] = round(time.time() - t0, 1)
