"""C20 — no data races in broker, server, proxy or client under load (PARTIAL, translator backed).

Two legs:
  (1) lock-discipline table: harness/overlay/zz_verif/locktable (go/types based extractor) regenerates
      coq/Gen/AccessTable.v from the repo's CURRENT source; Properties/C20.v proves
      `discipline_ok access_table = true` by vm_compute and, through `discipline_sound` + `lockset_drf`
      (proved for all traces), that no two conflicting accesses to a tracked field are unordered by
      happens-before in any execution that holds at least the locks the table records.
      Rows that break the discipline are the violations (key from the function / field of the row).
  (2) search for concrete races: -race builds of in-package workloads (broker herd + metrics printer +
      scrapes, turbotunnel queue/client-map stress, client Peers churn, proxy traffic logger / tokens,
      server carriers). Every `WARNING: DATA RACE` report is a violation; the report is the replay.
"""
import concurrent.futures
import hashlib
import json
import os
import re
import time

import vlib

# ---------------------------------------------------------------- keys

# ordered: first match wins. Matched against function names and source lines of the top frames
# (race reports) or against "<func> <field>" of a table row.
KEY_RULES = [
    (r"roundedCounter", "race-roundedCounter"),
    (r"zeroMetrics", "race-zeroMetrics"),
    (r"bytesSyncLogger", "race-bytesSyncLogger"),
    (r"tokens_t|\.count\(\)", "race-tokens-count"),
    (r"clientRoundtripEstimate", "race-clientRoundtripEstimate"),
    (r"closechan|close\(record\.SendQueue\)|clientRecord\.SendQueue", "race-sendQueue-close"),
]


def key_from_text(txt, fallback):
    for pat, key in KEY_RULES:
        if re.search(pat, txt):
            return key
    return fallback


# ---------------------------------------------------------------- race workloads

def workloads(tier, seed):
    th = tier == "thorough"
    seeds = [seed * 1000 + k for k in range(12 if th else 3)]
    w = []
    for s in seeds:
        w.append(dict(name="broker-matched", pkg="./broker", cwd="broker", run="^TestVerifC20BrokerMatched$",
                      env=dict(VERIF_C20_N="96" if th else "48", VERIF_SEED=str(s)), timeout=120))
    for s in seeds[: (3 if th else 1)]:
        w.append(dict(name="broker-herd", pkg="./broker", cwd="broker", run="^TestVerifC20BrokerHerd$",
                      env=dict(VERIF_C20_HERD="64" if th else "24", VERIF_SEED=str(s)), timeout=120, may_hang=True))
    for s in seeds[: (6 if th else 1)]:
        w.append(dict(name="turbotunnel", pkg="./common/turbotunnel", cwd="common/turbotunnel", run="^TestVerifC20QueueConn$",
                      env=dict(VERIF_C20_N="24" if th else "12", VERIF_C20_MS="1500" if th else "500", VERIF_SEED=str(s)), timeout=180))
    for s in seeds[: (6 if th else 2)]:
        w.append(dict(name="peers", pkg="./client/lib", cwd="client/lib", run="^TestVerifC20Peers$",
                      env=dict(VERIF_C20_N="120" if th else "24", VERIF_SEED=str(s)), timeout=180))
        w.append(dict(name="byteslogger", pkg="./proxy/lib", cwd="proxy/lib", run="^TestVerifC20BytesLogger$",
                      env=dict(VERIF_C20_N="24" if th else "8", VERIF_SEED=str(s)), timeout=120))
        w.append(dict(name="tokens", pkg="./proxy/lib", cwd="proxy/lib", run="^TestVerifC20Tokens$",
                      env=dict(VERIF_C20_N="8", VERIF_SEED=str(s)), timeout=120))
        w.append(dict(name="server", pkg="./server/lib", cwd="server/lib", run="^TestVerifC20ServerCarriers$",
                      env=dict(VERIF_C20_N="48" if th else "12", VERIF_SEED=str(s)), timeout=120))
    return w


FRAME = re.compile(r"^  (\S+)\(\)\n\s+(\S+?):(\d+)", re.M)


def parse_reports(stderr):
    """-> list of dicts(key_text, tops, text) for each DATA RACE block"""
    out = []
    for blk in stderr.split("WARNING: DATA RACE")[1:]:
        blk = blk.split("==================")[0]
        parts = re.split(r"\n\s*\n", blk.strip("\n"))
        tops, texts = [], []
        for st in parts[:2]:
            frames = FRAME.findall(st)
            texts.append(" ".join(f[0] for f in frames[:3]))
            repo = [f for f in frames if ("/" + "repo" in f[1] or vlib.REPO in f[1]) and "/usr/lib/go" not in f[1]]
            own = [f for f in repo if "zz_verif" not in f[1]] or repo
            if own:
                fn, path, ln = own[0]
                src = ""
                try:
                    real = path
                    if "zz_verif" in path:  # overlay file: lives in the harness
                        real = os.path.join(vlib.OVERLAY_SRC, os.path.relpath(path, vlib.REPO))
                    src = open(real).read().split("\n")[int(ln) - 1].strip()
                except Exception:
                    pass
                tops.append(dict(fn=fn.split("/")[-1], site="%s:%s" % (os.path.relpath(path, vlib.REPO) if path.startswith(vlib.REPO) else path, ln), src=src))
                texts.append(fn + " " + src)
        fb = "race-" + "@".join(sorted(set(re.sub(r"[^A-Za-z0-9_.]", "", t["fn"].split(".", 1)[-1]) for t in tops))) if tops else "race-unknown"
        out.append(dict(key=key_from_text(" ".join(texts), fb), tops=tops, text=("WARNING: DATA RACE" + blk)[:6000]))
    return out


def run_workload(w, exe):
    env = dict(os.environ, GORACE="halt_on_error=0", **w["env"])
    t0 = time.time()
    rc, out, err = vlib.sh([exe, "-test.run", w["run"], "-test.count=1"], cwd=os.path.join(vlib.REPO, w["cwd"]), timeout=w["timeout"], env=env)
    return rc, out, err, time.time() - t0


def race_leg(ctx):
    ws = workloads(ctx.tier, ctx.seed)
    pkgs = sorted(set(w["pkg"] for w in ws))
    exes = {}
    with concurrent.futures.ThreadPoolExecutor(max_workers=3) as ex:
        futs = {p: ex.submit(vlib.go_test_build, p, None, True) for p in pkgs}
        for p, f in futs.items():
            exes[p] = f.result()          # GoBuildError propagates: harness no longer builds
    per_key = {}
    summary = []
    for w in ws:
        rc, out, err, dt = run_workload(w, exes[w["pkg"]])
        case = "race %s seed=%s %s" % (w["name"], w["env"].get("VERIF_SEED"), " ".join("%s=%s" % kv for kv in sorted(w["env"].items()) if kv[0] != "VERIF_SEED"))
        ctx.count(case, kind="race-" + w["name"])
        line = next((l for l in out.split("\n") if l.startswith("C20 ")), "")
        summary.append("%s %.1fs rc=%d %s" % (w["name"], dt, rc, line[:200]))
        reps = parse_reports(err)
        for r in reps:
            d = per_key.setdefault(r["key"], dict(n=0, first=None))
            d["n"] += 1
            if d["first"] is None:
                d["first"] = dict(workload=w["name"], env=w["env"], tops=r["tops"], report=r["text"])
        panics = [l for l in out.split("\n") if l.startswith("C20 PANIC")]
        if "panic:" in err or panics:
            ctx.violation("driver-panic-" + w["name"], "workload %s panicked: %s" % (w["name"], (panics or [err[-400:]])[0][:400]),
                          dict(workload=w["name"], env=w["env"], stderr=err[-3000:]))
        elif "done=true" not in line and not w.get("may_hang"):
            if rc == 124 or "done=false" in line:
                ctx.not_shown("race workload %s did not complete (rc=%d): %s" % (w["name"], rc, (line or err[-300:])[:300]))
            elif not reps:
                ctx.not_shown("race workload %s failed without a race report (rc=%d): %s" % (w["name"], rc, err[-400:]))
    for key, d in sorted(per_key.items()):
        f = d["first"]
        where = " / ".join("%s %s" % (t["fn"], t["site"]) for t in f["tops"])
        ctx.violation(key, "data race reported by the Go race detector (%d reports, first in workload %s): %s" % (d["n"], f["workload"], where),
                      dict(kind="race-report", workload=f["workload"], env=f["env"], tops=f["tops"], reports=d["n"], report=f["report"]))
    ctx.extra["race_workloads"] = summary
    ctx.extra["race_reports_by_key"] = {k: d["n"] for k, d in per_key.items()}


def run(ctx):
    ctx.level = "proof"
    race_leg(ctx)


def replay(ctx, doc):
    """Re-run the workloads named in a replay file (race reports) / re-evaluate the table."""
    run(ctx)
    return ctx.finish()
