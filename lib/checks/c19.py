"""C19 — published broker counts are rounded up to 8 and never too low; unique addresses; distinct-IP journal."""
import os
import vlib

AREA = "metrics"
DRV_ARGS = ["-test.run", "^TestVerifC19Driver$"]


def bin8(n):
    return 8 * ((n + 7) // 8)


def kv(s):
    return dict(x.split("=", 1) for x in s.split(" ") if "=" in x)


def prop(line, impl, model):
    """The property evaluated on the implementation's own answer."""
    a = line.split(" ")
    op = a[1]
    if impl.startswith("!panic") or impl == "!died":
        return "implementation panicked/died: " + impl[:200]
    try:
        if op == "bin":
            n, v = int(a[2]), int(impl)
            if not (n <= v < n + 8 and v % 8 == 0):
                return "binCount(%d) = %d is not the next multiple of 8" % (n, v)
        elif op == "inc":
            n, v = int(a[2]), int(kv(impl)["value"])
            if v != bin8(n):
                return "after %d sequential Incs the rounded counter publishes %d (want %d)" % (n, v, bin8(n))
        elif op == "conc":
            k, n = int(a[2]), int(a[3])
            vals = [int(x) for x in impl.split("=", 1)[1].split(",")] if impl != "values=-" else []
            for r, v in enumerate(vals):
                t = k * n * (r + 1)
                if v != bin8(t):
                    return "after %d Incs by %d goroutines the rounded counter publishes %d (true count %d, want %d)" % (t, k, v, t, bin8(t))
        elif op == "race":
            k, r = int(a[2]), int(a[3])
            d = kv(impl)
            if r > 0 and (int(d["min"]) != 8 - k or int(d["max"]) != 8 - k):
                return ("%d goroutines each did one Inc starting from a true count that is a multiple of 8: published - true "
                        "ranged over [%s, %s] in %d rounds (must always be %d)" % (k, d["min"], d["max"], r, 8 - k))
            if int(d["final"]) != 8 * r:
                return "final published value %s after %d events (want %d)" % (d["final"], 8 * r, 8 * r)
    except (ValueError, KeyError, IndexError):
        return None  # unparsable implementation answer: left to the correspondence comparison
    return None


def key_of(line, impl, model):
    a = line.split(" ")
    op = a[1]
    if op in ("conc", "race"):
        return "rounded-counter-concurrent-inc"
    if op == "inc":
        return "rounded-counter-sequential-inc"
    return op


def gen_round8(ctx):
    rng = ctx.rng
    thorough = ctx.tier == "thorough"
    lines, kinds = [], []
    def add(l, k):
        lines.append(AREA + " " + l); kinds.append(k)
    for n in list(range(0, 200)) + [2**k + d for k in (10, 16, 31, 32, 52) for d in range(-9, 10)] + [2**53 - 8, 2**53 - 9]:
        add("bin %d" % n, "bin")
    for _ in range(200 if not thorough else 2000):
        add("bin %d" % rng.randrange(0, 2**53 - 8), "bin-random")
    for n in list(range(0, 70)) + [rng.randrange(70, 5000) for _ in range(30 if not thorough else 300)] + [100000]:
        add("inc %d" % n, "inc-seq")
    for k in (2, 3, 4, 8, 9, 16):
        add("conc %d %d %d" % (k, 1, 40), "inc-conc-1")
        add("conc %d %d %d" % (k, rng.choice([3, 5, 7, 9, 11]), 20), "inc-conc-n")
    add("conc 4 25001 4", "inc-conc-bulk")
    rounds = 4000 if not thorough else 40000
    for k in (2, 2, 3, 4, 8):
        add("race %d %d" % (k, rounds), "inc-race-at-boundary")
    add("race 1 50", "inc-race-at-boundary")
    return lines, kinds


def run(ctx):
    os.environ["VERIF_DRIVER"] = "1"
    exe = vlib.go_test_build("./broker", name="broker_c19.test")
    ctx.trusted.append("float64 in binCount is exact below 2^53 (stated, not proved); real goroutine schedules are sampled, "
                       "all interleavings are covered by the theorem about the modelled steps")
    ctx.assumptions += ["models = coq/Model/Round8.v, Metrics.v, Journal.v (hand written); tie = correspondence on generated cases"]
    lines, kinds = gen_round8(ctx)
    ctx.correspond(exe, lines, kinds, label="round8", prop=prop, key_of=key_of, impl_args=DRV_ARGS)


def replay(ctx, doc):
    os.environ["VERIF_DRIVER"] = "1"
    exe = vlib.go_test_build("./broker", name="broker_c19.test")
    bad = 0
    for v in doc.get("violations", []):
        case = v["replay"].get("case")
        if not case:
            continue
        m = vlib.run_model([case])[0]
        rc, r, err = vlib.run_impl(exe, [case], args=DRV_ARGS)
        r = r[0] if r else "!died"
        p = prop(case, r, m)
        print("case: %s\n model: %s\n impl:  %s\n property: %s" % (case[:300], m[:300], r[:300], p or "holds"))
        bad += 1 if p else 0
    return 1 if bad else 0
