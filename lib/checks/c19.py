"""C19 — published broker counts are rounded up to 8 and never too low; unique addresses; distinct-IP journal."""
import os
import vlib

AREA = "metrics"
DRV_ARGS = ["-test.run", "^TestVerifC19Driver$"]


def bin8(n):
    return 8 * ((n + 7) // 8)


def kv(s):
    return dict(x.split("=", 1) for x in s.split(" ") if "=" in x)


def prop(line, impl, model):
    """The property evaluated on the implementation's own answer."""
    a = line.split(" ")
    op = a[1]
    if impl.startswith("!panic") or impl == "!died":
        return "implementation panicked/died: " + impl[:200]
    try:
        if op == "jsoak":
            return (prop_jsoak(line, impl) or (None, None))[1]
        if impl.startswith("!"):
            return None
        if op == "ipc":
            return prop_ipc(line, impl)
        if op == "jwin":
            return prop_jwin(line, impl)
        if op == "jwrite":
            return prop_jwrite(line, impl)
        if op == "jkey":
            return prop_jkey(line, impl)
        if op == "jbig":
            return prop_jbig(line, impl)
        if op == "jipc":
            return (prop_jipc(line, impl) or (None, None))[1]
        if op == "jwf":
            return (prop_jwf(line, impl) or (None, None))[1]
        if op == "jipcf":
            return (prop_jipcf(line, impl) or (None, None))[1]
        if op == "jconc":
            return (prop_jconc(line, impl) or (None, None))[1]
        if op == "sched":
            return prop_sched(line, impl)
        if op == "bin":
            n, v = int(a[2]), int(impl)
            if not (n <= v < n + 8 and v % 8 == 0):
                return "binCount(%d) = %d is not the next multiple of 8" % (n, v)
        elif op == "inc":
            n, v = int(a[2]), int(kv(impl)["value"])
            if v != bin8(n):
                return "after %d sequential Incs the rounded counter publishes %d (want %d)" % (n, v, bin8(n))
        elif op == "conc":
            k, n = int(a[2]), int(a[3])
            vals = [int(x) for x in impl.split("=", 1)[1].split(",")] if impl != "values=-" else []
            for r, v in enumerate(vals):
                t = k * n * (r + 1)
                if v != bin8(t):
                    return "after %d Incs by %d goroutines the rounded counter publishes %d (true count %d, want %d)" % (t, k, v, t, bin8(t))
        elif op == "race":
            k, r = int(a[2]), int(a[3])
            d = kv(impl)
            if r > 0 and (int(d["min"]) != 8 - k or int(d["max"]) != 8 - k):
                return ("%d goroutines each did one Inc starting from a true count that is a multiple of 8: published - true "
                        "ranged over [%s, %s] in %d rounds (must always be %d)" % (k, d["min"], d["max"], r, 8 - k))
            if int(d["final"]) != 8 * r:
                return "final published value %s after %d events (want %d)" % (d["final"], 8 * r, 8 * r)
    except (ValueError, KeyError, IndexError):
        return None  # unparsable implementation answer: left to the correspondence comparison
    return None


def prop_sched(line, impl):
    """forced schedule on the real counter: whatever a scrape can read is bin8(completed Incs)"""
    d = kv(impl)
    items = d["obs"].split(",") if d["obs"] != "-" else []
    last = 0
    for i, it in enumerate(items):
        if it == "-":
            continue
        done, v = map(int, it.split(":"))
        if v != bin8(done):
            return ("forced schedule, step %d: %d Incs completed and no Inc in progress, the counter publishes %d (want %d)"
                    % (i + 1, done, v, bin8(done)))
        if done < last:
            return "forced schedule, step %d: completed Incs went back from %d to %d" % (i + 1, last, done)
        last = done
    return None


# ---------------------------------------------------------------- ipc op sequences
def spec_ipc(ops, geo=True):
    """The property's own reading of an op sequence: true counts per period, distinct addresses per
    normalised type, cumulative label counts. Returns (list of per-print dicts, prom dict)."""
    ev = dict.fromkeys(["idle", "with", "without", "rejected", "denied", "rdenied", "udenied", "matched"], 0)
    sets = {u: set() for u in range(5)}
    nat = {"r": set(), "u": set(), "k": set()}    # addresses by the NAT type of the first sighting per (type, address)
    cc = {}                                        # country -> number of first sightings
    prom = {}
    reports = []
    def bump(k):
        prom[k] = prom.get(k, 0) + 1
    for o in ops:
        f = o.split(",")
        if f[0] == "pp":
            t, n, relay, out = int(f[3]), int(f[4]), f[5] == "1", f[6]
            u = t if t < 4 else 4
            ev["with" if relay else "without"] += 1
            bump("%s.%d.%d" % ("wr" if relay else "wo", n, u))
            if out == "r":
                ev["rejected"] += 1
                bump("rj.%d.%d" % (n, u))
                continue
            if f[1] != "-":
                if f[1] not in sets[u] and geo:
                    # UpdateCountryStats looks at NAT type and country only at the first sighting of (type, address)
                    nat["r" if n == 1 else "u" if n == 2 else "k"].add(f[1])
                    cc[f[2]] = cc.get(f[2], 0) + 1
                sets[u].add(f[1])
            if out == "i":
                ev["idle"] += 1
                bump("pp.%d.0" % n)
            else:
                bump("pp.%d.1" % n)
        elif f[0] == "cd":
            n = int(f[1])
            ev["denied"] += 1
            ev["udenied" if n == 2 else "rdenied"] += 1
            bump("cp.%d.0" % n)
        elif f[0] == "cm":
            ev["matched"] += 1
            bump("cp.%d.1" % int(f[1]))
        elif f[0] == "gl":
            # LoadGeoipDatabases replaces the table and nothing else: the figures of the running period stay
            geo = f[1] != "0"
        elif f[0] == "pr":
            r = {k: bin8(v) for k, v in ev.items()}
            for u in range(4):
                r["ips.%d" % u] = len(sets[u])
            r["ips.total"] = sum(len(x) for x in sets.values())
            for b in "ruk":
                r["nat." + b] = len(nat[b])
            r["cc"] = dict(cc)
            reports.append(r)
        elif f[0] == "ze":
            for k in ev:
                ev[k] = 0
            sets = {u: set() for u in range(5)}
            nat = {"r": set(), "u": set(), "k": set()}
            cc = {}
    return reports, {k: bin8(v) for k, v in prom.items()}


def parse_items(s):
    if s == "-":
        return {}
    return dict(x.rsplit(":", 1) for x in s.split(","))


def prop_ipc(line, impl):
    a = line.split(" ")
    ops = a[3].split(";") if a[3] != "-" else []
    want_reports, want_prom = spec_ipc(ops, geo=a[2] == "1")
    d = kv(impl)
    got_reports = [parse_items(x) for x in d["reports"].split("/")] if d["reports"] != "-" else []
    if len(got_reports) != len(want_reports):
        return "printMetrics was called %d times but %d reports were read" % (len(want_reports), len(got_reports))
    for i, (w, g) in enumerate(zip(want_reports, got_reports)):
        for k, v in w.items():
            if k == "cc":
                got_cc = {x[3:]: y for x, y in g.items() if x.startswith("cc.")}
                if got_cc != {c: str(n) for c, n in v.items()}:
                    return ("country figures in report %d are %s; counting each (proxy type, address) pair once, at its first accepted "
                            "poll of the period, with the geoip table loaded at that moment (reloads change no count), gives %s" % (i + 1, got_cc, v))
                continue
            if g.get(k) != str(v):
                what = ("unique-address figure" if k.startswith("ips") else
                        "NAT-type figure (distinct addresses by the NAT type of their first accepted poll per proxy type)" if k.startswith("nat.")
                        else "rounded log count")
                return "%s `%s` in report %d is %s; the true figure is %d" % (what, k, i + 1, g.get(k), v)
    got_prom = parse_items(d["prom"])
    for k, v in want_prom.items():
        if got_prom.get(k) != str(v):
            return "rounded prometheus counter %s publishes %s; true count rounded up to 8 is %d" % (k, got_prom.get(k), v)
    for k, v in got_prom.items():
        if k not in want_prom and v != "0":
            return "rounded prometheus counter %s publishes %s but no such event happened" % (k, v)
    return None


def key_ipc(line, impl):
    p = prop_ipc(line, impl) or ""
    if "unique-address" in p:
        return "unique-address-count"
    if "NAT-type figure" in p:
        return "nat-bucket-count"
    if "country figures" in p:
        return "country-count"
    if "rounded log count" in p:
        return "log-count-rounding"
    if "prometheus" in p:
        return "prometheus-count-rounding"
    return "ipc"


def geo_table():
    """addresses with the country the repo's test geoip files give them (computed here from those files;
    a wrong entry shows up as a model/implementation disagreement, never as a silent pass)"""
    import ipaddress
    tab = []
    rows = [l.strip().split(",") for l in open(os.path.join(vlib.REPO, "broker", "test_geoip")) if l[0].isdigit()]
    for i in (0, 7, 101, 333, 600, 900, 1200):
        if i < len(rows):
            lo, hi, c = rows[i]
            tab.append((str(ipaddress.IPv4Address(int(lo))), c))
            tab.append((str(ipaddress.IPv4Address(int(hi))), c))
    rows6 = [l.strip().split(",") for l in open(os.path.join(vlib.REPO, "broker", "test_geoip6")) if l[0] not in "#\n"]
    for i in (3, 200, 500):
        if i < len(rows6):
            tab.append((str(ipaddress.IPv6Address(rows6[i][0])), rows6[i][2]))
    tab.append(("129.97.208.23", "CA"))
    return tab


def alt_cc(c):
    """the country of a range in the second pair of geoip files: the code reversed (ZZ when that is the same)"""
    return c[::-1] if c[::-1] != c else "ZZ"


def write_alt_geoip():
    """a second pair of geoip files: the ranges of the repo's test files, every range in another country"""
    d = os.path.join(vlib.TMP, "c19_geoip_alt_%d" % os.getpid())
    os.makedirs(d, exist_ok=True)
    for name in ("test_geoip", "test_geoip6"):
        out = []
        for l in open(os.path.join(vlib.REPO, "broker", name)):
            f = l.rstrip("\n").split(",")
            if l.startswith("#") or len(f) != 3:
                out.append(l.rstrip("\n"))
            else:
                out.append(",".join(f[:2] + [alt_cc(f[2])]))
        open(os.path.join(d, name), "w").write("\n".join(out) + "\n")
    return d


def apply_db(geo, ops):
    """the generators write every poll with the country of the repo's files; polls issued while the second pair
    is loaded (after gl,2) resolve to that pair's country"""
    db, out = (1 if geo else 0), []
    for o in ops:
        f = o.split(",")
        if f[0] == "gl":
            db = int(f[1])
        elif f[0] == "pp" and f[1] != "-" and db == 2:
            f[2] = alt_cc(f[2])
            o = ",".join(f)
        out.append(o)
    return out


def gen_ipc(ctx):
    rng = ctx.rng
    thorough = ctx.tier == "thorough"
    tab = geo_table()
    lines, kinds = [], []
    def add(geo, ops, k):
        ops = apply_db(geo, ops)
        lines.append("%s ipc %d %s" % (AREA, geo, ";".join(ops) if ops else "-")); kinds.append(k)
    def poll(out, addr=None, t=None, n=None, relay=None):
        a, c = addr if addr else rng.choice(tab[:6] if rng.random() < 0.7 else tab)
        if addr is None and rng.random() < 0.1:
            a, c = "-", "-"
        t = rng.choice([0, 0, 1, 2, 3, 4, 5, 6]) if t is None else t
        n = rng.randrange(3) if n is None else n
        relay = rng.randrange(2) if relay is None else relay
        return "pp,%s,%s,%d,%d,%d,%s" % (a, c, t, n, relay, out)
    def matched_pair(timeout=False):
        n = rng.randrange(3)
        cn = 2 if n in (0, 1) else rng.choice([0, 1])
        return [poll("m", n=n), ("ct,%d" if timeout else "cm,%d") % cn]
    # exhaustive: all sequences of <= 3 fast ops over a small alphabet, one report at the end
    alpha = [["pb"], ["pp,1.2.3.4,US,0,1,1,r"], ["pp,1.2.3.4,US,0,1,1,m", "cm,2"], ["pp,1.2.3.4,US,5,2,0,m", "cm,0"],
             ["pp,129.97.208.23,CA,0,2,1,m", "cm,1"], ["cd,2"], ["ze"], ["gl,2"]]
    seqs = [[]]
    for depth in range(3 if not thorough else 4):
        seqs = seqs + [sq + [x] for sq in seqs if len(sq) == depth for x in alpha]
    for sq in seqs:
        add(1, [o for x in sq for o in x] + ["pr"], "ipc-exhaustive-small")
    # counts across the multiples of 8
    for unit in alpha[1:6] + [["cd,1"], ["pp,1.2.3.4,US,6,0,0,m", "cm,2"]]:
        for k in list(range(6, 11)) + [15, 16, 17, 24, 25]:
            add(1, [o for _ in range(k) for o in unit] + ["pr"], "ipc-count-boundary")
    # random periods, fast ops only
    for _ in range(100 if not thorough else 1500):
        ops = []
        for _period in range(rng.randrange(1, 4)):
            for _ in range(rng.choice([0, 1, 3, 7, 8, 9, 12, 20])):
                r = rng.random()
                if r < 0.3:
                    ops += matched_pair()
                elif r < 0.5:
                    ops.append(poll("r"))
                elif r < 0.8:
                    ops.append("cd,%d" % rng.randrange(3))
                elif r < 0.85:
                    ops.append("pb")
                elif r < 0.9:
                    ops.append("gl,%d" % rng.choice([1, 2, 2, 0]))     # SIGHUP in the middle of a period
                else:
                    ops += matched_pair()
            ops.append("pr")
            if rng.random() < 0.7:
                ops.append("ze")
        add(rng.choice([1, 1, 0]), ops, "ipc-random-fast")
    # same address under several types / several unknown types / repeated; nat of first sighting
    a = tab[0]
    for ts in ([0, 0], [0, 1], [4, 5], [5, 6], [0, 4, 5, 0], [3, 3, 2, 6]):
        ops = []
        for t in ts:
            n = rng.randrange(3)
            ops += [poll("m", addr=a, t=t, n=n), "cm,%d" % (2 if n in (0, 1) else 0)]
        add(1, ops + ["pr", "ze", "pr"], "ipc-unique-addresses")
    # addresses net.ParseIP does not accept (a zone-scoped link-local address is what RemoteAddr gives for such a peer; a
    # host name; an out-of-range quad): each is an address of its own in the unique-address figures, country ??
    odd = [("fe80::1%eth0", "??"), ("fe80::2%eth0", "??"), ("fe80::1%eth1", "??"), ("not-an-ip", "??"), ("999.1.1.1", "??"), ("1.2.3", "??")]
    for ts in ([0, 0, 0], [0, 0, 4, 4], [5, 6, 5, 6, 0], [1, 1, 1, 1, 1, 1]):
        for g in (1, 0):
            ops = []
            for k, t in enumerate(ts):
                n = rng.randrange(3)
                ops += [poll("m", addr=odd[k % len(odd)], t=t, n=n), "cm,%d" % (2 if n in (0, 1) else 0)]
            ops += [poll("m", addr=a, t=ts[0], n=1), "cm,2", poll("m", addr=odd[0], t=ts[0], n=1), "cm,2"]
            add(g, ops + ["pr", "ze", "pr"], "ipc-unparseable-addresses")
    # NAT-type and country figures: what counts is the FIRST accepted poll of each (type, address) in the period
    b = tab[1] if len(tab) > 1 else tab[0]
    for seq in ([(a, 0, 1), (a, 1, 2), (a, 0, 2)], [(a, 0, 0), (b, 0, 1), (a, 4, 2), (a, 5, 1)], [(a, 0, 2), (a, 0, 1), (b, 3, 2), (b, 3, 0)],
                [(a, 2, 1), (b, 2, 1), (a, 1, 1)]):
        for g in (1, 0):
            ops = []
            for (ad, t, n) in seq:
                ops += [poll("m", addr=ad, t=t, n=n), "cm,%d" % (2 if n in (0, 1) else 0)]
            add(g, ops + ["pr", "ze"] + ops[-2:] + ["pr"], "ipc-nat-and-country-first-sighting")
    # geoip reload (SIGHUP) at every point of a period: the same table again, a table with other countries, a load that
    # fails (no table afterwards) and a good one after it; addresses seen before the reload poll again after it
    # (same type: de-duplicated; other type: a new first sighting under the new table), new addresses arrive
    c3 = tab[2] if len(tab) > 2 else tab[0]
    d4 = tab[4] if len(tab) > 4 else tab[0]
    def unit(ad, t, n):
        return [poll("m", addr=ad, t=t, n=n), "cm,%d" % (2 if n in (0, 1) else 0)]
    before = [unit(a, 0, 1), unit(b, 0, 2), unit(a, 1, 0), unit(c3, 5, 1)]
    after = [unit(a, 0, 2), unit(b, 1, 1), unit(d4, 0, 0), unit(c3, 6, 2)]
    for reload in (["gl,1"], ["gl,2"], ["gl,0"], ["gl,0", "gl,1"], ["gl,2", "gl,1"]):
        for pos in range(len(before) + 1):
            for g in (1, 0):
                ops = [o for u in before[:pos] for o in u] + reload + [o for u in before[pos:] + after for o in u]
                add(g, ops + ["pr"], "ipc-geoip-reload-in-period")
        ops = [o for u in before for o in u] + ["pr", "ze"] + reload + [o for u in after for o in u] + ["pr"]
        add(1, ops, "ipc-geoip-reload-after-period-end")
        ops = [o for u in before for o in u] + reload + ["pr", "ze"] + [o for u in after for o in u] + ["pr"]
        add(1, ops, "ipc-geoip-reload-before-period-end")
    for _ in range(20 if not thorough else 300):
        ops = []
        for _ in range(rng.randrange(2, 10)):
            if rng.random() < 0.3:
                ops.append("gl,%d" % rng.choice([1, 2, 2, 0]))
            elif rng.random() < 0.1:
                ops += ["pr", "ze"]
            else:
                ops += unit(rng.choice(tab[:5]), rng.choice([0, 0, 1, 4, 5]), rng.randrange(3))
        add(rng.choice([1, 1, 0]), ops + ["pr"], "ipc-geoip-reload-random")
    # slow cases: idle polls (10 s broker timeout) and client timeouts, placed just before a report
    for _ in range(6 if not thorough else 60):
        ops = []
        for _ in range(rng.choice([0, 2, 5])):
            ops += matched_pair() if rng.random() < 0.5 else ["cd,%d" % rng.randrange(3)]
        if rng.random() < 0.4:
            ops += matched_pair(timeout=True)
        for _ in range(rng.choice([1, 2, 7, 8, 9, 17])):
            ops.append(poll("i"))
        ops.append("pr")
        if thorough and rng.random() < 0.5:
            ops += ["ze"] + [poll("i") for _ in range(rng.choice([1, 8, 9]))] + ["pr"]
        add(1, ops, "ipc-idle-and-timeouts")
    return lines, kinds


# ---------------------------------------------------------------- journal
def prop_jwin(line, impl):
    a = line.split(" ")
    frm, to = int(a[2]), int(a[3])
    union, n = set(), 0
    if a[4] != "-":
        for c in a[4].split(";"):
            s, e, ips = c.split(":")
            if frm <= int(s) and int(e) <= to:
                n += 1
                if ips != "-":
                    union |= set(ips.split("."))
    d = kv(impl)
    if int(d["chunks"]) != n:
        return "window [%d,%d]: %s chunks included, %d lie inside the window" % (frm, to, d["chunks"], n)
    if int(d["sum"]) != len(union):
        return "window [%d,%d]: distinct count %s, the chunks inside the window hold %d distinct addresses" % (frm, to, d["sum"], len(union))
    return None


def prop_jwrite(line, impl):
    a = line.split(" ")
    ops = a[3].split(",") if a[3] != "-" else []
    adds = [(int(o[1:].split(".")[0]), o[1:].split(".")[1]) for o in ops if o[0] == "a"]
    last = max([int(o[1:].split(".")[0]) for o in ops] + [0])
    d = kv(impl)
    chunks = [tuple(map(int, c.split(":"))) for c in d["chunks"].split(";")] if d["chunks"] != "-" else []
    prev = 0
    for (s, e, card) in chunks:
        if s != prev or e < s:
            return "journal chunks do not tile the time line: chunk [%d,%d] follows instant %d" % (s, e, prev)
        want = len(set(ip for (t, ip) in adds if s <= t < e))
        if card != want:
            return "chunk [%d,%d] holds %d distinct addresses; %d distinct addresses were recorded in that interval" % (s, e, card, want)
        prev = e
    if ops and ops[-1][0] == "f" and prev != last:
        return "after the final flush at %d the journal ends at %d" % (last, prev)
    if int(d["all"]) != len(set(ip for (t, ip) in adds if t < prev)):
        return "whole-journal distinct count %s, recorded %d" % (d["all"], len(set(ip for (t, ip) in adds if t < prev)))
    return None


def prop_jkey(line, impl):
    """The chunk written to the journal is the sketch of the KEYED hashes of the addresses and nothing else."""
    a = line.split(" ")
    k1, k2 = a[2].split(".")
    n = len(set(a[3].split("."))) if a[3] != "-" else 0
    d = kv(impl)
    if d["journal"] != "sketch-only":
        return "the journal line holds more than timestamps and a sketch (%s)" % d["journal"]
    if int(d["n"]) != n:
        return None
    if int(d["own"]) != n:
        return ("a chunk of %d distinct addresses merged with the sketch of their HMAC-SHA3-256(key, address) values counts %s: "
                "the stored sketch is not the sketch of the keyed hashes" % (n, d["own"]))
    if n and k1 != k2 and int(d["other"]) != 2 * n:
        return ("the stored sketch of %d addresses shares values with the sketch of the same addresses under ANOTHER key "
                "(merged count %s, want %d): the stored values do not depend on the key" % (n, d["other"], 2 * n))
    if n and int(d["nokey"]) != 2 * n:
        return "the stored sketch equals the sketch under the empty key (merged count %s, want %d)" % (d["nokey"], 2 * n)
    return None


def prop_jbig(line, impl):
    """three chunks inside the window, the middle one with n addresses: all three are read and the estimate is that of n + 12"""
    n = int(line.split(" ")[2])
    d = kv(impl)
    if d["chunks"] != "3" or d["sum"].startswith("low"):
        return ("a journal of three chunks, all inside the query window, holding 5, %d and 7 distinct addresses: the reader included %s chunk(s) "
                "and its estimate is %s (want 3 chunks, %d addresses within 1 %%) and it reported no error - a chunk of that many addresses is ONE "
                "journal line of more than 64 KiB, bufio.Scanner gives up on it and ClusterCounter.Count takes that for the end of the journal: "
                "the chunk and everything behind it are silently left out" % (n, d["chunks"], d["sum"], n + 12))
    if d["sum"] != "ok":
        return "a journal of three chunks holding %d distinct addresses: estimate %s" % (n + 12, d["sum"])
    return None


def gen_journal(ctx):
    rng = ctx.rng
    thorough = ctx.tier == "thorough"
    lines, kinds = [], []
    def add(l, k):
        lines.append(AREA + " " + l); kinds.append(k)
    def ips(maxn=4, uni=6):
        n = rng.randrange(0, maxn + 1)
        return ".".join(str(rng.randrange(1, uni + 1)) for _ in range(n)) or "-"
    # every position of a chunk's two ends relative to the window ends (equality cases included)
    for s in (8, 9, 10, 11, 12):
        for e in (18, 19, 20, 21):
            add("jwin 10 20 %d:%d:1.2.3" % (s, e), "jwin-boundary")
            add("jwin 10 20 %d:%d:1.2;10:20:2.3;12:15:4" % (s, e), "jwin-boundary")
    add("jwin 10 20 -", "jwin-empty")
    add("jwin 10 10 10:10:5", "jwin-point")
    add("jwin 20 10 10:20:5", "jwin-inverted")
    for _ in range(150 if not thorough else 2500):
        frm = rng.randrange(0, 30)
        to = frm + rng.choice([0, 1, 5, 10, 30])
        cs, t = [], rng.choice([0, frm, max(0, frm - 1), frm + 1])
        for _ in range(rng.randrange(0, 7)):
            e = rng.choice([t, t + 1, t + 3, to, to + 1, max(t, to - 1)])
            e = max(e, t)
            cs.append("%d:%d:%s" % (t, e, ips()))
            t = e if rng.random() < 0.8 else e + rng.randrange(0, 3)
        add("jwin %d %d %s" % (frm, to, ";".join(cs) or "-"), "jwin-random")
    for _ in range(10 if not thorough else 60):
        n = rng.choice([17, 40, 60])
        base = rng.randrange(100, 60000)
        add("jwin 0 100 0:50:%s;50:100:%s" % (".".join(str(base + i) for i in range(n)), ".".join(str(base + n // 2 + i) for i in range(n))), "jwin-larger-sets")
    # journal lines around and beyond the 64 KiB of the reader's default scanner buffer (20 000 addresses: 61 585 bytes)
    for n in [0, 1000, 20000, 25000, 40000] + ([100000, 300000] if thorough else []):
        add("jbig %d" % n, "jbig-long-journal-line")
    # what a chunk stores: keyed hashes only
    for ks in ("1.2", "1.1", "7.3"):
        for ipl in ("-", "5", "5.5.5", "1.2.3.4.5.6.7.8", ".".join(str(1000 + i) for i in range(40))):
            add("jkey %s %s" % (ks, ipl), "jkey")
    for _ in range(10 if not thorough else 100):
        add("jkey %d.%d %s" % (rng.randrange(1, 50), rng.randrange(1, 50), ips(maxn=12, uni=60000)), "jkey-random")
    # the real writer on a tick grid
    for _ in range(60 if not thorough else 600):
        k = rng.choice([0, 1, 2, 3, 5])
        t, ops = 0, []
        for _ in range(rng.randrange(1, 14)):
            t += rng.choice([1, 1, 2, k, k + 1, k + 2]) or 1
            if rng.random() < 0.12:
                ops.append("f%d" % t)
            else:
                ops.append("a%d.%d" % (t, rng.randrange(1, 6)))
        ops.append("f%d" % (t + rng.choice([1, 2, k + 2])))
        add("jwrite %d %s" % (k, ",".join(ops)), "jwrite-realtime")
    return lines, kinds

# ---------------------------------------------------------------- journal behind the broker (call site)
def parse_jipc_ops(tok):
    """-> list of (kind, tick, ip, type, outcome)"""
    ops = []
    for o in (tok.split(",") if tok != "-" else []):
        if o[0] == "p":
            t, ip, ty, out = o[1:].split(".")
            ops.append(("p", int(t), ip, int(ty), out))
        else:
            ops.append((o[0], int(o[1:]), None, None, None))
    return ops


def prop_jipc(line, impl):
    """The property on the implementation's own journal: every window made of whole chunks counts exactly the distinct
    addresses whose ACCEPTED polls happened inside it (the chunk boundaries are read from the journal itself);
    per-type unique figures count an address once per type and period.  -> None or (key, text)"""
    a = line.split(" ")
    ops = parse_jipc_ops(a[3])
    acc = [(t, ip, ty) for (k, t, ip, ty, out) in ops if k == "p" and out == "a"]
    d = kv(impl)
    chunks = [tuple(map(int, c.split(":"))) for c in d["chunks"].split(";")] if d["chunks"] != "-" else []
    prev = 0
    for (s, e, card) in chunks:
        if s != prev or e < s:
            return ("journal-writer", "journal chunks do not tile the time line: chunk [%d,%d] follows instant %d" % (s, e, prev))
        prev = e
    if ops and ops[-1][0] == "f" and prev != ops[-1][1]:
        return ("journal-writer", "after the final flush at %d the journal ends at %d" % (ops[-1][1], prev))
    wins = {}
    if d["wins"] != "-":
        for w in d["wins"].split(","):
            ij, sm, n = w.split(":")
            wins[tuple(map(int, ij.split("-")))] = (int(sm), int(n))
    for i in range(len(chunks)):
        for j in range(i, len(chunks)):
            frm, to = chunks[i][0], chunks[j][1]
            if (i, j) not in wins:
                return ("journal-broker-window", "no answer for the window of chunks %d..%d" % (i, j))
            sm, n = wins[(i, j)]
            inside = len([c for c in chunks if frm <= c[0] and c[1] <= to])
            if n != inside:
                return ("journal-broker-window", "window [%d,%d]: %d chunks included, %d lie inside it" % (frm, to, n, inside))
            want = set(ip for (t, ip, ty) in acc if frm <= t < to)
            if sm != len(want):
                before = set(ip for (t, ip, ty) in acc if t < frm)
                if sm < len(want) and (want & before):
                    return ("journal-misses-repeated-address",
                            "journal window [%d,%d] (chunks %d..%d) counts %d distinct addresses, but %d distinct proxy addresses "
                            "polled inside it (%s); %s had already polled before the window" %
                            (frm, to, i, j, sm, len(want), ",".join(sorted(want)), ",".join(sorted(want & before))))
                return ("journal-broker-window", "journal window [%d,%d] (chunks %d..%d) counts %d distinct addresses; %d distinct "
                        "proxy addresses polled inside it (%s)" % (frm, to, i, j, sm, len(want), ",".join(sorted(want))))
    # unique-address figures of the metrics period that is open at the end
    sets = {u: set() for u in range(5)}
    for (k, t, ip, ty, out) in ops:
        if k == "z":
            sets = {u: set() for u in range(5)}
        elif k == "p" and out == "a":
            sets[ty if ty < 4 else 4].add(ip)
    want = [len(sets[u]) for u in range(4)] + [sum(len(x) for x in sets.values())]
    got = d["uniq"].split(".")
    if got != [str(x) for x in want]:
        return ("unique-address-count", "unique-address figures (4 types, total) are %s; the distinct addresses per type are %s"
                % (d["uniq"], ".".join(map(str, want))))
    return None


def gen_jipc(ctx):
    rng = ctx.rng
    thorough = ctx.tier == "thorough"
    lines, kinds = [], []
    def add(k, ops, kind):
        lines.append("%s jipc %d %s" % (AREA, k, ",".join(ops) if ops else "-")); kinds.append(kind)
    def batches(k, bs, zero_after=(), final=True):
        """bs = list of batches of (ip, type, outcome); consecutive polls one tick apart, batches k+1.. ticks apart"""
        t, ops = 0, []
        for bi, b in enumerate(bs):
            t += (k + 1) if bi else 1
            for (ip, ty, out) in b:
                ops.append("p%d.%d.%d.%s" % (t, ip, ty, out)); t += 1
            if bi in zero_after:
                ops.append("z%d" % t); t += 1
        if final:
            ops.append("f%d" % (t + 1))
        return ops
    A = lambda ip, ty=0: (ip, ty, "a")
    # the same address in several chunks of one metrics period (same type / other type / unknown types), at every
    # position of a batch; with and without a period boundary in between
    add(2, batches(2, [[A(1), A(2), A(3)], [A(1), A(4), A(1)], [A(2), A(4), A(5), A(3)]]), "jipc-repeat-across-chunks")
    add(1, batches(1, [[A(1)], [A(2), A(1)], [A(3), A(1)], [A(1), A(3)]]), "jipc-repeat-across-chunks")
    add(3, batches(3, [[A(1, 0), A(1, 1)], [A(2, 1), A(1, 1), A(1, 0)], [A(2, 4), A(1, 5), A(2, 6)]]), "jipc-repeat-across-chunks")
    add(2, batches(2, [[A(1), A(2)], [A(3), A(1), A(2)], [A(3), A(2)]], zero_after=(1,)), "jipc-repeat-and-period-end")
    add(2, batches(2, [[A(7), A(8)], [A(9), (7, 0, "r"), (8, 0, "n")], [A(9), A(7)]]), "jipc-rejected-not-recorded")
    add(2, batches(2, [[A(1), A(2)], [A(3), A(1)]], final=False), "jipc-open-chunk")
    add(0, [], "jipc-empty")
    for pos in range(3):
        for ty2 in (0, 1, 5):
            second = [A(10), A(11)]
            second.insert(pos, A(1, ty2))
            add(2, batches(2, [[A(1, 0), A(2, 0)], second]), "jipc-repeat-position")
    # random histories over a small universe: repetitions are the rule
    for _ in range(40 if not thorough else 500):
        k = rng.choice([1, 2, 2, 3])
        t, ops = 0, []
        for _ in range(rng.randrange(4, 15)):
            t += rng.choice([1, 1, 1, 2, k + 1, k + 2])
            r = rng.random()
            if r < 0.06:
                ops.append("z%d" % t)
            elif r < 0.11:
                ops.append("f%d" % t)
            else:
                out = "a" if rng.random() < 0.85 else rng.choice("rn")
                ops.append("p%d.%d.%d.%s" % (t, rng.randrange(1, 5), rng.choice([0, 0, 0, 1, 4, 5]), out))
        if rng.random() < 0.85:
            ops.append("f%d" % (t + rng.choice([1, 2, k + 2])))
        add(k, ops, "jipc-random")
    return lines, kinds


# ---------------------------------------------------------------- concurrent polls, slow journal disk
def prop_jconc(line, impl):
    """Concurrent polls through IPC.ProxyPolls while a journal Write is held open.  On the implementation's own journal
    (its timestamps, the membership of every polled address in every chunk): every accepted poll's address is in a chunk
    whose span meets the time the poll was in flight, in no chunk it has no business in, no span is flushed twice, the
    chunks tile the time line.  -> None or (key, text)"""
    a = line.split(" ")
    toks = a[3].split(",") if a[3] != "-" else []
    acc, hold, first_after_h = [], False, False
    for tk in toks:
        if tk[0] == "h":
            hold, first_after_h = True, True
        elif tk[0] == "r":
            hold = False
        elif tk[0] == "p":
            t, ip, ty, out = tk[1:].split(".")
            if out == "a":
                acc.append(dict(t=int(t), ip=ip, ty=int(ty), conc=hold and not first_after_h))
            first_after_h = False
    closed = bool(toks) and toks[-1][0] == "f"
    d = kv(impl)
    chunks = [tuple(map(int, c.split(":"))) for c in d["chunks"].split(";")] if d["chunks"] != "-" else []
    memb = [([] if m == "-" else [int(x) for x in m.split("+")]) for m in d["memb"].split(",")] if d["memb"] != "-" else []
    ret = [int(x) for x in d["ret"].split(",")] if d["ret"] != "-" else []
    if len(memb) != len(acc) or len(ret) != len(acc):
        return ("journal-broker", "%d accepted polls, %d membership items" % (len(acc), len(memb)))
    for p, m, r in zip(acc, memb, ret):
        p["in"], p["ret"] = m, r
        if r < p["t"]:
            return ("journal-broker", "the poll of %s at %d did not return (returned at %d)" % (p["ip"], p["t"], r))
    for p in acc:
        if closed and not p["in"]:
            if p["conc"]:
                return ("journal-poll-lost-during-flush",
                        "address %s polled at instant %d (ProxyPolls returned at %d) while another poll's journal flush was waiting for the "
                        "disk: it is in NO chunk of the journal %s - an accepted poll that the distinct-IP journal never counts"
                        % (p["ip"], p["t"], p["ret"], d["chunks"]))
            return ("journal-poll-not-recorded", "address %s polled at instant %d is in no chunk of the journal %s" % (p["ip"], p["t"], d["chunks"]))
    prev = 0
    for i, (s, e, card) in enumerate(chunks):
        if s != prev or e < s:
            twin = [c for c in chunks[:i] if c[0] == s]
            if twin:
                return ("journal-chunk-written-twice", "chunk [%d,%d] starts where chunk [%d,%d] already started: the same recording span "
                        "was flushed twice (journal %s)" % (s, e, twin[0][0], twin[0][1], d["chunks"]))
            return ("journal-writer", "journal chunks do not tile the time line: chunk [%d,%d] follows instant %d" % (s, e, prev))
        prev = e
    for p in acc:
        for j in p["in"]:
            if j >= len(chunks):
                return ("journal-broker", "membership in a chunk that does not exist")
            s, e, _ = chunks[j]
            if not any(q["ip"] == p["ip"] and q["t"] <= e and s <= q["ret"] for q in acc):
                return ("journal-poll-misplaced", "chunk %d [%d,%d] holds address %s, which polled only at %s" %
                        (j, s, e, p["ip"], ",".join("%d..%d" % (q["t"], q["ret"]) for q in acc if q["ip"] == p["ip"])))
        if p["in"] and not any(p["t"] <= chunks[j][1] and chunks[j][0] <= p["ret"] for j in p["in"]):
            return ("journal-poll-misplaced", "address %s polled at %d..%d is in chunks %s only, none of which spans that time"
                    % (p["ip"], p["t"], p["ret"], p["in"]))
        if len([q for q in acc if q["ip"] == p["ip"]]) == 1 and len(p["in"]) > 1:
            return ("journal-chunk-written-twice", "address %s polled once (at %d) and is in %d chunks: %s of %s"
                    % (p["ip"], p["t"], len(p["in"]), p["in"], d["chunks"]))
    for j, (s, e, card) in enumerate(chunks):
        want = len(set(p["ip"] for p in acc if j in p["in"]))
        if card != want:
            return ("journal-writer", "chunk %d [%d,%d] counts %d distinct addresses; %d of the polled addresses are in it" % (j, s, e, card, want))
    sets = {u: set() for u in range(5)}
    for tk in toks:
        if tk[0] == "z":
            sets = {u: set() for u in range(5)}
        elif tk[0] == "p":
            t, ip, ty, out = tk[1:].split(".")
            if out == "a":
                sets[int(ty) if int(ty) < 4 else 4].add(ip)
    want = [len(sets[u]) for u in range(4)] + [sum(len(x) for x in sets.values())]
    if d["uniq"].split(".") != [str(x) for x in want]:
        return ("unique-address-count", "unique-address figures (4 types, total) are %s; the distinct addresses per type are %s"
                % (d["uniq"], ".".join(map(str, want))))
    return None


def prop_jsoak(line, impl):
    a = line.split(" ")
    if impl.startswith("!fatal"):
        return ("journal-unserialised-access", "%s goroutines polling through IPC.ProxyPolls with the distinct-IP journal attached: the Go runtime "
                "stopped the broker process (%s) - two polls inside the journal writer at once" % (a[2], impl[7:].replace("_", " ")))
    d = {k: int(v) for k, v in kv(impl).items()}
    what = "%s goroutines x %s polls through IPC.ProxyPolls, every poll from its own address, journal interval %s us, every journal Write takes %s us: " % tuple(a[2:6])
    if d["lost"]:
        return ("journal-poll-lost-during-flush", what + "%d of the %d accepted polls are in NO chunk of the journal (read back with the journal's own "
                "timestamps after a final flush): polls that arrived while another poll was in the disk write of a flush" % (d["lost"], d["polls"]))
    if d["tiled"] != 1 or d["twice"]:
        return ("journal-chunk-written-twice", what + "the chunks do not tile the time line / hold an address twice (tiled=%d, sum of the chunk "
                "cardinals minus the cardinal of their union=%d)" % (d["tiled"], d["twice"]))
    if d["misplaced"]:
        return ("journal-poll-misplaced", what + "%d polls are only in chunks whose span does not meet the time the poll was in flight" % d["misplaced"])
    if d["polls"] != int(a[2]) * int(a[3]):
        return ("journal-broker", "polls=%d" % d["polls"])
    return None


def gen_jconc(ctx):
    rng = ctx.rng
    thorough = ctx.tier == "thorough"
    lines, kinds = [], []
    def add(k, ops, kind):
        lines.append("%s jconc %d %s" % (AREA, k, ",".join(ops))); kinds.append(kind)
    P = lambda t, ip, ty=0, out="a": "p%d.%d.%d.%s" % (t, ip, ty, out)
    # two polls fill the first chunk; the poll at 5 finds the interval elapsed and flushes; its Write is held; n polls arrive;
    # the disk answers at r.  r - 5 <= k: the arrivals join the holder's new sketch; r - 5 > k: the first arrival flushes again
    for k in (1, 2, 3):
        for n in (1, 2, 4):
            for rel in (1, k, k + 1, k + 3):
                t0 = 2 + k + 1                      # first instant with lastWriteTime + k + 1/2 < now
                ops = [P(1, 1), P(2, 2), "h%d" % (t0 - 1) if t0 - 1 > 2 else "h%d" % t0]
                th = t0 if t0 - 1 > 2 else t0 + 1   # the holder's instant
                ops.append(P(th, 3))
                for i in range(n):
                    ops.append(P(th + 1 + i, 10 + i, ty=rng.choice([0, 0, 1, 5])))
                r = th + n + rel
                ops += ["r%d" % r, P(r + 1, 30), "f%d" % (r + k + 3)]
                add(k, ops, "jconc-polls-arrive-during-flush")
    # the arrivals are the holder's address / addresses of the chunk being written / rejected and portless polls
    add(2, [P(1, 1), P(2, 2), "h4", P(5, 3), P(6, 3), P(7, 1), P(8, 2, 1), "r9", "f12"], "jconc-arrivals-repeat-addresses")
    add(2, [P(1, 1), "h4", P(5, 2), P(6, 3, 0, "r"), P(7, 4, 0, "n"), P(8, 5), "r9", P(10, 3), "f13"], "jconc-arrivals-not-accepted")
    # the gate is armed but the next poll has no flush to do: it returns; a later one is held
    add(3, [P(1, 1), "h2", P(3, 2), P(4, 3), P(6, 4), P(7, 5), "r9", "f10"], "jconc-hold-armed-early")
    add(5, [P(1, 1), "h2", P(3, 2), "r4", "f5"], "jconc-hold-never-reached")
    # two held flushes in one history, a metrics period ending in between
    add(2, [P(1, 1), "h3", P(4, 2), P(5, 3), "r6", "z7", "h9", P(10, 1), P(11, 3), P(12, 4), "r14", "f18"], "jconc-two-held-flushes")
    add(1, ["h2", P(3, 1), P(4, 2), "r5", "h7", P(8, 3), P(9, 1), "r13", P(14, 2), "f16"], "jconc-two-held-flushes")
    add(2, ["f1"], "jconc-trivial")
    for _ in range(25 if not thorough else 400):
        k = rng.choice([1, 2, 2, 3])
        t, ops, ip = 0, [], 0
        for _ in range(rng.randrange(1, 4)):
            for _ in range(rng.randrange(0, 4)):                 # quiet polls
                t += rng.choice([1, 1, 2, k + 1]); ip += 1
                ops.append(P(t, rng.choice([ip, rng.randrange(1, ip + 1)]), rng.choice([0, 0, 1, 4])))
            if rng.random() < 0.25:
                t += 1; ops.append("z%d" % t)
            t += rng.choice([1, k + 1, k + 2]); ops.append("h%d" % t); t += 1
            for _ in range(rng.randrange(1, 6)):                 # the first of these that has a flush to do is held
                ip += 1
                ops.append(P(t, rng.choice([ip, rng.randrange(1, ip + 1)]), rng.choice([0, 0, 1, 4]), rng.choice("aaaaarn"))); t += 1
            t += rng.choice([0, 1, k, k + 2]); ops.append("r%d" % t)
        ops.append("f%d" % (t + rng.choice([1, 2, k + 2])))
        add(k, ops, "jconc-random")
    # unforced: many goroutines, a journal whose every Write is slow
    soaks = [(4, 150, 2000, 500), (8, 100, 3000, 1000)] if not thorough else \
            [(4, 150, 2000, 500), (8, 100, 3000, 1000), (4, 150, 400, 200), (8, 60, 250, 300), (8, 700, 500, 300), (16, 350, 300, 500), (32, 180, 1000, 1000), (3, 1900, 200, 100),
             (64, 90, 2000, 1500), (2, 2500, 150, 50)]
    sl = ["%s jsoak %d %d %d %d" % (AREA, g, n, iv, w) for (g, n, iv, w) in soaks]
    return lines, kinds, sl, ["jsoak"] * len(sl)


# ---------------------------------------------------------------- journal sink that fails
def parse_lines(tok):
    """-> list of None (unparsable line) | (start, end, card)"""
    return [None if c == "x" else tuple(map(int, c.split(":"))) for c in tok.split(";")] if tok != "-" else []


def check_spans(lines, adds):
    """every chunk that can be read back must hold exactly the addresses recorded inside its own recording span:
    adds = [(tick, ip)]; a chunk [s, e] with more addresses than were recorded in [s, e) carries recordings from outside"""
    for c in lines:
        if c is None:
            continue
        s, e, card = c
        if e < s:
            return ("journal-writer", "chunk [%d,%d] ends before it starts" % (s, e))
        inside = set(ip for (t, ip) in adds if s <= t < e)
        before = set(ip for (t, ip) in adds if t < e)
        if card != len(inside):
            if card > len(inside) and card <= len(before):
                return ("journal-chunk-span-excludes-recordings",
                        "after a failed journal write: chunk labelled [%d,%d] holds %d distinct addresses but only %d were recorded inside that "
                        "span (%d up to its end): it carries recordings made BEFORE its recording start, so a window query reports addresses "
                        "not recorded inside the window" % (s, e, card, len(inside), len(before)))
            return ("journal-writer", "chunk [%d,%d] holds %d distinct addresses; %d were recorded in that span" % (s, e, card, len(inside)))
    return None


def prop_jwf(line, impl):
    a = line.split(" ")
    ops = a[4].split(",") if a[4] != "-" else []
    adds = [(int(o[1:].split(".")[0]), o[1:].split(".")[1]) for o in ops if o[0] == "a"]
    d = kv(impl)
    lines = parse_lines(d["lines"])
    bad = check_spans(lines, adds)
    if bad:
        return bad
    if any(c is None for c in lines) != (d["all"] == "err"):
        return ("journal-failing-sink", "lines=%s but the reader answered all=%s" % (d["lines"], d["all"]))
    if d["all"] != "err":
        upto = max([c[1] for c in lines] + [0])
        want = len(set(ip for c in lines for (t, ip) in adds if c[0] <= t < c[1]))
        if int(d["all"]) != want:
            return ("journal-failing-sink", "whole-journal distinct count %s; the chunks in the file span %d distinct recorded addresses (up to %d)"
                    % (d["all"], want, upto))
    return None


def prop_jipcf(line, impl):
    a = line.split(" ")
    ops = parse_jipc_ops(a[4])
    adds = [(t, ip) for (k, t, ip, ty, out) in ops if k == "p" and out == "a"]
    d = kv(impl)
    lines = parse_lines(d["lines"])
    bad = check_spans(lines, adds)
    if bad:
        return bad
    if any(c is None for c in lines) != (d["wins"] == "err"):
        return ("journal-failing-sink", "lines=%s but the reader answered wins=%s" % (d["lines"], d["wins"]))
    if d["wins"] not in ("err", "-"):
        good = [c for c in lines if c is not None]
        for w in d["wins"].split(","):
            ij, sm, n = w.split(":")
            i, j = map(int, ij.split("-"))
            frm, to = good[i][0], good[j][1]
            inside = [c for c in good if frm <= c[0] and c[1] <= to]
            want = set(ip for c in inside for (t, ip) in adds if c[0] <= t < c[1])
            if int(n) != len(inside) or int(sm) != len(want):
                return ("journal-broker-window", "window [%d,%d]: reader says %s addresses in %s chunks; the %d chunks inside it span %d "
                        "distinct accepted-poll addresses" % (frm, to, sm, n, len(inside), len(want)))
    # the metrics never notice the journal's trouble
    sets = {u: set() for u in range(5)}
    for (k, t, ip, ty, out) in ops:
        if k == "z":
            sets = {u: set() for u in range(5)}
        elif k == "p" and out == "a":
            sets[ty if ty < 4 else 4].add(ip)
    want = [len(sets[u]) for u in range(4)] + [sum(len(x) for x in sets.values())]
    if d["uniq"].split(".") != [str(x) for x in want]:
        return ("unique-address-count", "unique-address figures are %s with a failing journal sink; the distinct addresses per type are %s"
                % (d["uniq"], ".".join(map(str, want))))
    return None


def gen_failing_sink(ctx):
    """writer ops against a sink that fails at chosen Write calls: (journal lines, broker lines)"""
    rng = ctx.rng
    thorough = ctx.tier == "thorough"
    jl, jk, bl, bk = [], [], [], []
    modes = "ntlws"
    # every failure mode at the first, a middle and the last flush of a fixed history with distinct addresses
    hist = ["a1.1", "a2.2", "f3", "a4.3", "a5.4", "f6", "a7.5", "f8", "a9.6", "f10"]
    for m in modes:
        for pos in range(4):
            plan = "o" * pos + m
            jl.append("%s jwf 100 %s %s" % (AREA, plan, ",".join(hist))); jk.append("jwf-one-failure")
        jl.append("%s jwf 100 %s %s" % (AREA, m + m, ",".join(hist))); jk.append("jwf-two-failures")
    # the automatic flush of AddIPToSet fails (interval elapsed), then an explicit flush succeeds
    for m in modes:
        jl.append("%s jwf 2 %s a1.1,a2.2,a5.3,a6.4,f7,a8.5,f12" % (AREA, m)); jk.append("jwf-auto-flush-fails")
        jl.append("%s jwf 2 %s a1.1,a5.2,a9.3,a13.4,f14" % (AREA, "o" + m + m)); jk.append("jwf-auto-flush-fails")
    for _ in range(50 if not thorough else 600):
        k = rng.choice([1, 2, 3, 100])
        t, ops, nflush = 0, [], 0
        for i in range(rng.randrange(3, 12)):
            t += rng.choice([1, 1, 2, k + 1] if k < 100 else [1, 1, 2])   # k = 100: explicit flushes only
            if rng.random() < 0.3:
                ops.append("f%d" % t); nflush += 1
            else:
                ops.append("a%d.%d" % (t, 100 + len(ops)))   # distinct addresses: every misplaced recording shows
        ops.append("f%d" % (t + 1))
        plan = "".join(rng.choice("ooo" + modes) for _ in range(rng.randrange(1, 8)))
        jl.append("%s jwf %d %s %s" % (AREA, k, plan, ",".join(ops))); jk.append("jwf-random")
    # the same behind the broker's ProxyPolls
    bh = ["p1.1.0.a", "p2.2.0.a", "f3", "p4.3.1.a", "p5.1.0.a", "f6", "p7.4.0.a", "z8", "p9.5.4.a", "f10"]
    for m in modes:
        for pos in range(3):
            bl.append("%s jipcf 100 %s %s" % (AREA, "o" * pos + m, ",".join(bh))); bk.append("jipcf-one-failure")
        bl.append("%s jipcf 2 %s p1.1.0.a,p2.2.0.a,p5.3.0.a,p6.4.1.a,f7,p8.5.0.a,f12" % (AREA, m)); bk.append("jipcf-auto-flush-fails")
    for _ in range(12 if not thorough else 200):
        k = rng.choice([2, 3, 100])
        t, ops = 0, []
        for i in range(rng.randrange(3, 10)):
            t += rng.choice([1, 1, 2, k + 1] if k < 100 else [1, 1, 2])
            r = rng.random()
            if r < 0.25:
                ops.append("f%d" % t)
            elif r < 0.3:
                ops.append("z%d" % t)
            else:
                ops.append("p%d.%d.%d.a" % (t, 100 + len(ops), rng.choice([0, 0, 1, 5])))
        ops.append("f%d" % (t + 1))
        plan = "".join(rng.choice("ooo" + modes) for _ in range(rng.randrange(1, 6)))
        bl.append("%s jipcf %d %s %s" % (AREA, k, plan, ",".join(ops))); bk.append("jipcf-random")
    return jl, jk, bl, bk


def key_of(line, impl, model):
    a = line.split(" ")
    op = a[1]
    if op == "jwin":
        return "journal-window"
    if op == "jwrite":
        return "journal-writer"
    if op == "jkey":
        return "journal-not-keyed-sketch"
    if op == "jbig":
        return "journal-reader-drops-long-line"
    if op == "jipc":
        try:
            return (prop_jipc(line, impl) or ("journal-broker", None))[0]
        except (ValueError, KeyError, IndexError):
            return "journal-broker"
    if op in ("jconc", "jsoak"):
        try:
            return ((prop_jconc if op == "jconc" else prop_jsoak)(line, impl) or ("journal-concurrent-polls", None))[0]
        except (ValueError, KeyError, IndexError):
            return "journal-concurrent-polls"
    if op in ("jwf", "jipcf"):
        try:
            return ((prop_jwf if op == "jwf" else prop_jipcf)(line, impl) or ("journal-failing-sink", None))[0]
        except (ValueError, KeyError, IndexError):
            return "journal-failing-sink"
    if op == "sched":
        return "rounded-counter-forced-schedule"
    if op == "ipc":
        try:
            return key_ipc(line, impl)
        except (ValueError, KeyError, IndexError):
            return "ipc"
    if op in ("conc", "race"):
        return "rounded-counter-concurrent-inc"
    if op == "inc":
        return "rounded-counter-sequential-inc"
    return op


def gen_round8(ctx):
    rng = ctx.rng
    thorough = ctx.tier == "thorough"
    lines, kinds = [], []
    def add(l, k):
        lines.append(AREA + " " + l); kinds.append(k)
    for n in list(range(0, 200)) + [2**k + d for k in (10, 16, 31, 32, 52) for d in range(-9, 10)] + [2**53 - 8, 2**53 - 9]:
        add("bin %d" % n, "bin")
    for _ in range(200 if not thorough else 2000):
        add("bin %d" % rng.randrange(0, 2**53 - 8), "bin-random")
    for n in list(range(0, 70)) + [rng.randrange(70, 5000) for _ in range(30 if not thorough else 300)] + [100000]:
        add("inc %d" % n, "inc-seq")
    for k in (2, 3, 4, 8, 9, 16):
        add("conc %d %d %d" % (k, 1, 40), "inc-conc-1")
        add("conc %d %d %d" % (k, rng.choice([3, 5, 7, 9, 11]), 20), "inc-conc-n")
    add("conc 4 25001 4", "inc-conc-bulk")
    # persistent spinning workers: ~10^5 boundary crossings per second and more
    rounds = 200000 if not thorough else 1000000
    for k in ((2, 2, 3, 8) if not thorough else (2, 2, 3, 4, 5, 8)):
        add("race %d %d" % (k, rounds), "inc-race-at-boundary")
    add("race 1 50", "inc-race-at-boundary")
    # the interleaving machine runr on explicit schedules, forced on the real counter (lock acquisition order)
    import itertools
    for n in range(0, 7):
        for sc in itertools.product("01", repeat=n):
            add("sched 2 %s" % (".".join(sc) or "-"), "sched-exhaustive-2-threads")
    for k in (1, 2, 3, 5):
        # round robin: every Inc is contended at every step; crosses the multiples of 8 several times
        add("sched %d %s" % (k, ".".join(str(i % k) for i in range(45 * k))), "sched-round-robin")
        # one thread at a time
        add("sched %d %s" % (k, ".".join(str(t) for t in range(k) for _ in range(5 * 9))), "sched-bursts")
    for _ in range(60 if not thorough else 800):
        k = rng.choice([1, 2, 2, 3, 4, 6])
        n = rng.choice([5, 20, 45, 90, 200])
        bias = rng.random()
        cur, sc = 0, []
        for _ in range(n):
            if rng.random() > bias:
                cur = rng.randrange(k)
            sc.append(str(cur))
        add("sched %d %s" % (k, ".".join(sc)), "sched-random")
    return lines, kinds


def run(ctx):
    os.environ["VERIF_DRIVER"] = "1"
    exe = vlib.go_test_build("./broker", name="broker_c19.test")
    ctx.trusted.append("float64 in binCount is exact below 2^53 (stated, not proved); real goroutine schedules are sampled, "
                       "all interleavings are covered by the theorem about the modelled steps")
    ctx.assumptions += ["models = coq/Model/Round8.v, Metrics.v, Journal.v, BrokerJournal.v (hand written); tie = correspondence on generated cases"]
    lines, kinds = gen_round8(ctx)
    ctx.correspond(exe, lines, kinds, label="round8", prop=prop, key_of=key_of, impl_args=DRV_ARGS)
    os.environ["VERIF_C19_GEOIP_DIR"] = os.path.join(vlib.REPO, "broker")
    os.environ["VERIF_C19_GEOIP_ALT_DIR"] = write_alt_geoip()
    lines, kinds = gen_ipc(ctx)
    ctx.correspond(exe, lines, kinds, label="broker-ipc-metrics", prop=prop, key_of=key_of, impl_args=DRV_ARGS)
    jexe = vlib.go_build("./zz_verif/c19journal")
    ctx.trusted.append("HyperLogLog++ sketch (library): modelled as the exact set of masked values, checked on small sets only; "
                       "HMAC-SHA3 mask modelled as an injective function")
    lines, kinds = gen_journal(ctx)
    fj, fjk, fb, fbk = gen_failing_sink(ctx)
    ctx.correspond(jexe, lines + fj, kinds + fjk, label="ip-journal", prop=prop, key_of=key_of)
    # the journal behind the real IPC.ProxyPolls (call site: every accepted poll is recorded at its instant)
    lines, kinds = gen_jipc(ctx)
    ctx.correspond(exe, lines + fb, kinds + fbk, label="broker-journal-call-site", prop=prop, key_of=key_of, impl_args=DRV_ARGS)
    # concurrent polls while the journal's disk is slow (the journal call site is serialised by metrics.lock only)
    lines, kinds, sl, sk = gen_jconc(ctx)      # the soaks run in child processes of the driver (a runtime fatal ends only the child)
    ctx.correspond(exe, lines + sl, kinds + sk, label="broker-journal-concurrent-polls", prop=prop, key_of=key_of, impl_args=DRV_ARGS)


def replay(ctx, doc):
    os.environ["VERIF_DRIVER"] = "1"
    exe = vlib.go_test_build("./broker", name="broker_c19.test")
    os.environ["VERIF_C19_GEOIP_DIR"] = os.path.join(vlib.REPO, "broker")
    os.environ["VERIF_C19_GEOIP_ALT_DIR"] = write_alt_geoip()
    bad = 0
    for v in doc.get("violations", []):
        case = v["replay"].get("case")
        if not case:
            continue
        m = vlib.run_model([case])[0]
        if case.split(" ")[1] in ("jwin", "jwrite", "jkey", "jwf", "jbig"):
            rc, r, err = vlib.run_impl(vlib.go_build("./zz_verif/c19journal"), [case])
        else:
            rc, r, err = vlib.run_impl(exe, [case], args=DRV_ARGS)
        r = r[0] if r else "!died"
        p = prop(case, r, m)
        print("case: %s\n model: %s\n impl:  %s\n property: %s" % (case[:300], m[:300], r[:300], p or "holds"))
        bad += 1 if p else 0
    return 1 if bad else 0
