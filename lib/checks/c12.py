"""C12 — broker messages round-trip and invalid ones are rejected (common/messages,
common/bridgefingerprint, NAT names of common/nat).

Two phases per decode case: (1) the Go driver parses the bytes with encoding/json generically
(token stream: duplicate keys, key order, number literals kept) and prints a canonical value;
(2) the extracted Coq model decodes that *value*, the Go code decodes the *bytes*; results are
compared (Ok + exact fields, or just "err").  The property itself is evaluated on the
implementation's answer by `spec_*` below (a declarative re-statement of the protocol rules
over the generic value: last non-null occurrence of a field, etc.), independent of the model."""
import binascii
import json as pyjson
import re
import vlib

AREA = "messages"
DEFAULT_FP = b"2B280B23E1107BB62ABFC40DDCC8824814F80A72"
NATS = [b"unknown", b"restricted", b"unrestricted"]
KNOWN_TYPES = [b"standalone", b"webext", b"badge", b"iptproxy"]


def hx(b):
    return binascii.hexlify(b).decode()


def X(b):
    return "x" + hx(b)


# ------------------------------------------------------------------ canonical value <-> python

def cparse(t):
    """canonical token -> ('n',) ('t',) ('f',) ('d',bytes) ('s',bytes) ('a',[..]) ('o',[(k,v)..]); None for '!'"""
    if t == "!":
        return None
    pos = [0]

    def take():
        j = t.index(";", pos[0])
        b = binascii.unhexlify(t[pos[0]:j])
        pos[0] = j + 1
        return b

    def val():
        c = t[pos[0]]
        pos[0] += 1
        if c in "ntf":
            return (c,)
        if c in "ds":
            return (c, take())
        if c == "[":
            out = []
            while t[pos[0]] != "]":
                out.append(val())
            pos[0] += 1
            return ("a", out)
        if c == "{":
            out = []
            while t[pos[0]] != "}":
                assert t[pos[0]] == "k"
                pos[0] += 1
                k = take()
                out.append((k, val()))
            pos[0] += 1
            return ("o", out)
        raise ValueError("bad canonical value " + t[:80])
    v = val()
    assert pos[0] == len(t)
    return v


# ------------------------------------------------------------------ the property, declaratively

def fold(k):
    """Unicode simple case folding as far as it can reach an ASCII name."""
    try:
        s = k.decode("utf-8")
    except UnicodeDecodeError:
        return None
    return "".join("S" if c == "\u017f" else "K" if c == "\u212a" else c.upper() if "a" <= c <= "z" else c for c in s)


INT_RE = re.compile(rb"-?(0|[1-9][0-9]*)\Z")


class Reject(Exception):
    pass


class Reason(Reject):
    """a poll response with a failure status: an error for DecodePollResponse*, but the status text, NAT type and relay
    URL still reach the caller (op prr)"""
    def __init__(self, why, fields):
        Reject.__init__(self, why)
        self.fields = fields


def fields_of(v, schema):
    """schema: list of (name, 's'|'i'|'p').  The protocol reading of a JSON value as a message:
    must be an object (null = empty object); a field's value is its last occurrence that is
    not null (for the optional pattern: its last occurrence, null = absent); a field carried
    with the wrong JSON kind, or a non-integer / out-of-range count, is malformed."""
    if v is None:
        raise Reject("not valid JSON")
    if v[0] == "n":
        ents = []
    elif v[0] == "o":
        ents = v[1]
    else:
        raise Reject("not a JSON object")
    res = {}
    for name, ty in schema:
        hits = [x for k, x in ents if k == name or (fold(k) is not None and fold(k) == fold(name))]
        cur = None if ty == "p" else (b"" if ty == "s" else 0)
        for x in hits:
            if x[0] == "n":
                if ty == "p":
                    cur = None
            elif x[0] == "s" and ty in "sp":
                cur = x[1]
            elif x[0] == "d" and ty == "i" and INT_RE.match(x[1]) and -2**63 <= int(x[1]) < 2**63:
                cur = int(x[1])
            else:
                raise Reject("field %s has the wrong JSON kind" % name.decode())
        res[name] = cur
    return res


def check_nat(n):
    if n == b"":
        return b"unknown"
    if n in NATS:
        return n
    raise Reject("NAT type outside the three names")


def check_major(ver):
    if ver.split(b".")[0] != b"1":
        raise Reject("major version other than 1")


def check_fp(fp):
    if not re.match(rb"([0-9a-fA-F]{2})*\Z", fp) or len(fp) // 2 not in (20, 32):
        raise Reject("fingerprint is not 20 or 32 hex-encoded bytes")


PPR = [(b"Sid", "s"), (b"Version", "s"), (b"Type", "s"), (b"NAT", "s"), (b"Clients", "i"), (b"AcceptedRelayPattern", "p")]
PR = [(b"Status", "s"), (b"Offer", "s"), (b"NAT", "s"), (b"RelayURL", "s")]
AR = [(b"Version", "s"), (b"Sid", "s"), (b"Answer", "s")]
ARS = [(b"Status", "s")]
CPR = [(b"offer", "s"), (b"nat", "s"), (b"fingerprint", "s")]
CPS = [(b"answer", "s"), (b"error", "s")]


def spec_ppr(v):
    f = fields_of(v, PPR)
    check_major(f[b"Version"])
    if f[b"Sid"] == b"":
        raise Reject("missing session id")
    nat = check_nat(f[b"NAT"])
    ty = f[b"Type"] if f[b"Type"] in KNOWN_TYPES else b"unknown"
    pat = f[b"AcceptedRelayPattern"]
    return [X(f[b"Sid"]), X(ty), X(nat), str(f[b"Clients"]), X(pat or b""), "1" if pat is not None else "0"]


def spec_ppr0(v):
    r = spec_ppr(v)
    if r[4] != "x":
        raise Reject("legacy decoder: relay pattern present")
    return r[:4]


def spec_pr(v):
    f = fields_of(v, PR)
    st = f[b"Status"]
    if st == b"":
        raise Reject("missing status")
    nat = f[b"NAT"] or b"unknown"
    if st == b"client match":
        if f[b"Offer"] == b"":
            raise Reject("client match without offer")
        return [X(f[b"Offer"]), X(nat), X(f[b"RelayURL"])]
    if st == b"no match":
        return [X(b""), X(nat), X(f[b"RelayURL"])]
    raise Reason("broker reported failure status", [X(st), X(nat), X(f[b"RelayURL"])])


def spec_pr0(v):
    r = spec_pr(v)
    if r[2] != "x":
        raise Reject("legacy decoder: relay URL present")
    return r[:2]


def spec_ar(v):
    f = fields_of(v, AR)
    check_major(f[b"Version"])
    if f[b"Sid"] == b"" or f[b"Answer"] == b"":
        raise Reject("missing sid or answer")
    return [X(f[b"Answer"]), X(f[b"Sid"])]


def spec_ars(v):
    f = fields_of(v, ARS)
    if f[b"Status"] == b"":
        raise Reject("missing status")
    return ["1" if f[b"Status"] == b"success" else "0"]


def spec_cpr_body(v):
    f = fields_of(v, CPR)
    if f[b"offer"] == b"":
        raise Reject("missing offer")
    fp = f[b"fingerprint"] or DEFAULT_FP
    check_fp(fp)
    nat = check_nat(f[b"nat"])
    return [X(f[b"offer"]), X(nat), X(fp)]


def spec_cps(v):
    f = fields_of(v, CPS)
    if f[b"answer"] == b"" and f[b"error"] == b"":
        raise Reject("neither answer nor error")
    return [X(f[b"answer"]), X(f[b"error"])]


SPEC = {"ppr": spec_ppr, "ppr0": spec_ppr0, "pr": spec_pr, "prr": spec_pr, "pr0": spec_pr0, "ar": spec_ar, "ars": spec_ars,
        "cps": spec_cps}


def expected_decode(msg, data, jv):
    """('ok ...' | 'err', reason)"""
    try:
        if msg == "cpr":
            if b"\n" not in data:
                raise Reject("no version line")
            ver, _ = data.split(b"\n", 1)
            if ver != b"1.0":
                raise Reject("client message version is not exactly 1.0")
            return "ok " + " ".join(spec_cpr_body(cparse(jv))), None
        return "ok " + " ".join(SPEC[msg](cparse(jv))), None
    except Reason as e:
        if msg == "prr":
            return "reason " + " ".join(e.fields), None
        return "err", str(e)
    except Reject as e:
        return "err", str(e)


def unx(t):
    return binascii.unhexlify(t[1:])


def expected_roundtrip(msg, a):
    """what decoding the encoding of these fields must give, from the property's text"""
    try:
        if msg in ("ppr", "ppr0"):
            sid, ty, nat, n = unx(a[0]), unx(a[1]), unx(a[2]), int(a[3])
            pat = unx(a[4]) if msg == "ppr" else b""
            if sid == b"":
                raise Reject("missing session id")
            nat = check_nat(nat)
            ty = ty if ty in KNOWN_TYPES else b"unknown"
            if msg == "ppr":
                return "ok " + " ".join([X(sid), X(ty), X(nat), str(n), X(pat), "1"])
            return "ok " + " ".join([X(sid), X(ty), X(nat), str(n)])
        if msg in ("pr", "pr0", "prr"):
            offer, ok, nat = unx(a[0]), a[1] == "1", unx(a[2])
            relay = unx(a[3]) if msg != "pr0" else b""
            reason = unx(a[4]) if msg != "pr0" else b"no match"
            if ok:
                if offer == b"":
                    raise Reject("client match without offer")
                r = [X(offer), X(nat or b"unknown"), X(relay)]
            else:
                if msg == "prr" and reason not in (b"", b"client match", b"no match"):
                    # the failure reason is a field of the message: it comes back as the text of the decoder's error
                    return "reason " + " ".join([X(reason), X(b"unknown"), X(b"")])
                if reason != b"no match":
                    raise Reject("failure status")
                r = [X(b""), X(b"unknown"), X(b"")]
            if msg == "pr0":
                if r[2] != "x":
                    raise Reject("relay")
                r = r[:2]
            return "ok " + " ".join(r)
        if msg == "ar":
            answer, sid = unx(a[0]), unx(a[1])
            if sid == b"" or answer == b"":
                raise Reject("missing sid or answer")
            return "ok " + X(answer) + " " + X(sid)
        if msg == "ars":
            return "ok " + a[0]
        if msg == "cpr":
            offer, nat, fp = unx(a[0]), unx(a[1]), unx(a[2])
            if offer == b"":
                raise Reject("missing offer")
            fp = fp or DEFAULT_FP
            check_fp(fp)
            return "ok " + " ".join([X(offer), X(check_nat(nat)), X(fp)])
        if msg == "cps":
            answer, error = unx(a[0]), unx(a[1])
            if answer == b"" and error == b"":
                raise Reject("neither answer nor error")
            return "ok " + X(answer) + " " + X(error)
    except Reject:
        return "err"
    raise ValueError(msg)


def S(b):
    return "s" + hx(b) + ";"


def K(b):
    return "k" + hx(b) + ";"


def expected_encode(msg, a):
    """the JSON object the encoder must produce (top-level keys sorted, as both drivers print it)"""
    if msg in ("ppr", "ppr0"):
        pat = unx(a[4]) if msg == "ppr" else b""
        ents = [(b"Sid", S(unx(a[0]))), (b"Version", S(b"1.3")), (b"Type", S(unx(a[1]))), (b"NAT", S(unx(a[2]))),
                (b"Clients", "d" + hx(a[3].encode()) + ";"), (b"AcceptedRelayPattern", S(pat))]
    elif msg in ("pr", "pr0", "prr"):
        relay = unx(a[3]) if msg != "pr0" else b""
        reason = unx(a[4]) if msg != "pr0" else b"no match"
        if a[1] == "1":
            ents = [(b"Status", S(b"client match")), (b"Offer", S(unx(a[0]))), (b"NAT", S(unx(a[2]))), (b"RelayURL", S(relay))]
        else:
            ents = [(b"Status", S(reason)), (b"Offer", S(b"")), (b"NAT", S(b"")), (b"RelayURL", S(b""))]
    elif msg == "ar":
        ents = [(b"Version", S(b"1.3")), (b"Sid", S(unx(a[1]))), (b"Answer", S(unx(a[0])))]
    elif msg == "ars":
        ents = [(b"Status", S(b"success" if a[0] == "1" else b"client gone"))]
    elif msg == "cpr":
        ents = [(b"offer", S(unx(a[0]))), (b"nat", S(unx(a[1]))), (b"fingerprint", S(unx(a[2]) or DEFAULT_FP))]
    elif msg == "cps":
        ents = [(k, S(unx(x))) for k, x in ((b"answer", a[0]), (b"error", a[1])) if unx(x) != b""]
    ents.sort(key=lambda e: e[0])
    body = "{" + "".join(K(k) + v for k, v in ents) + "}"
    return ("x312e30 " + body) if msg == "cpr" else body


# ------------------------------------------------------------------ property on the implementation's answer

def prop(line, impl, model):
    a = line.split(" ")
    op = a[1]
    if impl.startswith("!panic") or impl == "!died":
        return "implementation panicked/died: " + impl[:200]
    if impl.startswith("!encoder-result-changed"):
        return "an encoder's result was overwritten by a later encode (the bytes handed to the caller are not the message any more): " + impl[:300]
    if op in ("vsplit", "nsplit"):
        # the library calls whose result the decoders index without (vsplit) / with (nsplit) a length check
        data = unx(a[2])
        want = data.split(b".") if op == "vsplit" else data.split(b"\n", 1)
        got = [] if impl == "-" else [unx(t) for t in impl.split(",")]
        if not got:
            return "%s returned an empty slice: indexing its result panics" % ("strings.Split" if op == "vsplit" else "bytes.SplitN")
        if got != want:
            return "%s(%r) = %r, expected %r" % ("strings.Split" if op == "vsplit" else "bytes.SplitN", data[:100], got[:5], want[:5])
        return None
    kind, msg = op[0], op[1:]
    if kind == "d":
        data = unx(a[2])
        want, why = expected_decode(msg, data, a[-1])
        if impl != want:
            if impl == "err":
                return "a message the protocol allows was rejected (expected %s)" % want[:200]
            if want == "err":
                return "a message the protocol forbids was accepted (%s): %s" % (why, impl[:200])
            return "decoded fields differ from the message's fields: got %s, expected %s" % (impl[:200], want[:200])
    elif kind == "r":
        want = expected_roundtrip(msg, a[2:])
        if impl != want:
            return "round trip: decode(encode(fields)) = %s, expected %s" % (impl[:200], want[:200])
    elif kind == "e":
        want = expected_encode(msg, a[2:])
        if impl != want:
            return "encoder output (as parsed back by encoding/json) is %s, expected %s" % (impl[:300], want[:300])
    return None


def key_of(line, impl, model):
    a = line.split(" ")
    op = a[1]
    if impl.startswith("!panic") or impl == "!died":
        return op + "-panic"
    if impl.startswith("!encoder-result-changed"):
        return "encoder-result-aliased"
    if op in ("vsplit", "nsplit"):
        return op + "-library-contract"
    if op[0] == "d":
        want, _ = expected_decode(op[1:], unx(a[2]), a[-1])
        return op + ("-rejects-valid" if impl == "err" else "-accepts-forbidden" if want == "err" else "-wrong-fields")
    return op + ("-roundtrip" if op[0] == "r" else "-encode")


# ------------------------------------------------------------------ generators

def jlit(rng, b):
    """a JSON string literal for bytes b (valid UTF-8), with varied escaping"""
    s = b.decode("utf-8")
    mode = rng.randrange(4)
    if mode == 0:
        return pyjson.dumps(s).encode()
    if mode == 1:
        return pyjson.dumps(s, ensure_ascii=False).encode()
    out = ['"']
    for ch in s:
        o = ord(ch)
        if (mode == 2 and rng.random() < 0.3 and o < 0x10000) or o < 0x20 or ch in '"\\':
            out.append("\\u%04x" % o)
        else:
            out.append(ch)
    out.append('"')
    return "".join(out).encode()


STRS = [b"", b"a", b"ymbcCMto7KHNGYlp", b"s\xc3\xa9ssion\xe2\x9c\x93", b'q"uo\\te\n\t', b"<>&\xe2\x80\xa8", b"\x00\x01",
        b"\xf0\x9f\x98\x80", b" ", b"null", b"0"]
VERSIONS = [b"1", b"1.0", b"1.3", b"1.x", b"1.", b"1..2", b"10.0", b".1", b"", b"2.0", b"0.1", b"1.3.7", b" 1.0", b"1 .0",
            b"01.0", b"\xef\xbc\x91.0", b"1\n.0", b"11", b"1,0", b"-1.0", b"1.-", b"."]
TYPES = KNOWN_TYPES + [b"unknown", b"", b"Standalone", b"custom", b"standalone ", b"BADGE", b"web ext"]
NATV = [b"", b"unknown", b"restricted", b"unrestricted", b"Unknown", b"restricted ", b"none", b"unrestricted\x00",
        b"symmetric", b"UNRESTRICTED", b" ", b"un"]
INTS = [b"0", b"8", b"-1", b"-8", b"2147483647", b"2147483648", b"9223372036854775807", b"9223372036854775808",
        b"-9223372036854775808", b"-9223372036854775809", b"1e2", b"1.0", b"1.5", b"-0", b"0.0", b"1E0", b"100000000000000000000",
        b"-0.0", b"0e0", b"12345678901234567890123", b"1e-2", b"16"]
WRONG = [b"null", b"true", b"false", b"[]", b"{}", b"[\"a\"]", b"{\"Sid\":\"x\"}", b"0", b"1.5", b"\"8\"", b"\"\""]
FPS = [b"", DEFAULT_FP, DEFAULT_FP.lower(), DEFAULT_FP[:39], DEFAULT_FP + b"0", DEFAULT_FP[:38], DEFAULT_FP + b"00", b"ab" * 32, b"ab" * 31,
       b"ab" * 33, b"AB" * 16 + b"cd" * 16, b"zz" * 20, b"2B280B23E1107BB62ABFC40DDCC8824814F80A7G", b" " + DEFAULT_FP[1:], b"ab" * 10, b"ab" * 16,
       b"ab" * 40, b"0x" + DEFAULT_FP[2:], DEFAULT_FP[:20] + b"\xc3\xa9" + DEFAULT_FP[22:]]
STATUS = [b"client match", b"no match", b"", b"success", b"client gone", b"Client match", b"no match ", b"incorrect relay pattern",
          b"timed out", b"match", b"broker is 100% busy", b"%s", b"%d%%", b"%!v(MISSING)", b"50%", b"a\nb %x"]


def variants(rng, name):
    """case / unicode variants of a key; some match the field, some do not"""
    s = name.decode()
    out = [s, s.lower(), s.upper(), s.swapcase(), s.capitalize(), s + " ", " " + s, s + "s", s[:-1], s + "\u0000", "_" + s]
    if "s" in s.lower():
        i = s.lower().index("s")
        out += [s[:i] + "\u017f" + s[i + 1:], s.replace("s", "\u017f").replace("S", "\u017f")]
    if "k" in s.lower():
        i = s.lower().index("k")
        out.append(s[:i] + "\u212a" + s[i + 1:])
    out.append(s.replace("e", "\u00e9", 1))
    out.append(s.replace("i", "\u0130", 1).replace("I", "\u0131", 1))
    return out


def render(rng, ents, ws=True):
    """ents: list of (key str, raw value bytes) -> JSON object text"""
    def sp():
        return rng.choice([b"", b"", b"", b" ", b"\n", b"\t ", b"\r\n"]) if ws else b""
    parts = []
    for k, v in ents:
        kb = jlit(rng, k.encode("utf-8")) if isinstance(k, str) else k
        parts.append(sp() + kb + sp() + b":" + sp() + v + sp())
    return sp() + b"{" + b",".join(parts) + b"}" + sp()


class Msg:
    def __init__(self, msg, fields):
        self.msg = msg
        self.fields = fields     # list of (name bytes, kind, pool, valid pool)


MSGS = {
    "ppr": [(b"Sid", "s", STRS, STRS[1:]), (b"Version", "s", VERSIONS, VERSIONS[:4]), (b"Type", "s", TYPES, TYPES),
            (b"NAT", "s", NATV, NATV[:4]), (b"Clients", "i", INTS, INTS[:10]), (b"AcceptedRelayPattern", "p", STRS + [b"snowflake.torproject.net$", b"^x$"], STRS)],
    "pr": [(b"Status", "s", STATUS, STATUS[:2]), (b"Offer", "s", STRS + [b'{"type":"offer","sdp":"v=0\\r\\n"}'], STRS[1:]),
           (b"NAT", "s", NATV, NATV), (b"RelayURL", "s", STRS + [b"wss://snowflake.torproject.net/"], [b"", b"wss://snowflake.torproject.net/"])],
    "ar": [(b"Version", "s", VERSIONS, VERSIONS[:4]), (b"Sid", "s", STRS, STRS[1:]), (b"Answer", "s", STRS + [b'{"type":"answer","sdp":"x"}'], STRS[1:])],
    "ars": [(b"Status", "s", STATUS, STATUS[1:])],
    "cpr": [(b"offer", "s", STRS, STRS[1:]), (b"nat", "s", NATV, NATV[:4]), (b"fingerprint", "s", FPS, FPS[:3] + [b"ab" * 32])],
    "cps": [(b"answer", "s", STRS, STRS), (b"error", "s", STRS + [b"no snowflake proxies currently available"], STRS)],
}
LEGACY = {"ppr": "ppr0", "pr": "pr0"}


def raw_value(rng, kind, pool, valid_bias=0.75, vpool=None):
    if rng.random() < valid_bias and vpool:
        b = rng.choice(vpool)
    else:
        b = rng.choice(pool)
    if kind == "i":
        return b
    return jlit(rng, b)


def structured(rng, msg):
    """(kind label, JSON text bytes)"""
    fields = MSGS[msg]
    ents = []
    label = "valid"
    for name, kind, pool, vpool in fields:
        ents.append((name.decode(), raw_value(rng, kind, pool, 0.85, vpool)))
    nm = rng.choice([0, 0, 1, 1, 1, 2, 2, 3])
    for _ in range(nm):
        i = rng.randrange(len(fields))
        name, kind, pool, vpool = fields[i]
        m = rng.randrange(9)
        pos = [j for j, e in enumerate(ents) if isinstance(e[0], str) and fold(e[0].encode()) == fold(name)]
        if m == 0 and pos:
            del ents[rng.choice(pos)]
            label = "absent"
        elif m == 1 and pos:
            ents[rng.choice(pos)] = (name.decode(), rng.choice(WRONG))
            label = "wrong-kind"
        elif m == 2 and pos:
            j = rng.choice(pos)
            ents[j] = (rng.choice(variants(rng, name)), ents[j][1])
            label = "key-variant"
        elif m == 3:
            v = rng.choice([raw_value(rng, kind, pool, 0.5, vpool), b"null", rng.choice(WRONG)])
            k = rng.choice(variants(rng, name)[:5]) if rng.random() < 0.5 else name.decode()
            ents.insert(rng.randrange(len(ents) + 1), (k, v))
            label = "duplicate"
        elif m == 4:
            ents.insert(rng.randrange(len(ents) + 1), (rng.choice(["x", "", "Sidx", "extra", "__proto__"]),
                                                       rng.choice(WRONG + [b'{"a":[1,2,{"b":null}]}', b"[[[[]]]]", b"1e999"])))
            label = "unknown-key"
        elif m == 5 and pos:
            ents[rng.choice(pos)] = (name.decode(), raw_value(rng, kind, pool, 0.0))
            label = "pool-value"
        elif m == 6 and pos:
            ents[rng.choice(pos)] = (name.decode(), b"null")
            label = "null"
        elif m == 7:
            rng.shuffle(ents)
            label = "shuffled"
        elif m == 8 and pos and kind != "i":
            j = rng.choice(pos)
            ents[j] = (ents[j][0], jlit(rng, bytes(rng.randrange(32, 127) for _ in range(rng.choice([0, 1, 2, 40, 64, 300])))))
            label = "random-string"
    return label, render(rng, ents)


def sweeps(rng, msg):
    """one-factor sweeps: every pool value of every field with the others valid; every wrong
    kind; every key variant; every ordered pair of duplicates from a small value set"""
    fields = MSGS[msg]
    out = []
    def base():
        return [(name.decode(), raw_value(rng, kind, pool, 1.0, vpool)) for name, kind, pool, vpool in fields]
    for i, (name, kind, pool, vpool) in enumerate(fields):
        for b in pool:
            e = base()
            e[i] = (name.decode(), b if kind == "i" else jlit(rng, b))
            out.append(("sweep-value", render(rng, e, ws=False)))
        for w in WRONG:
            e = base()
            e[i] = (name.decode(), w)
            out.append(("sweep-kind", render(rng, e, ws=False)))
        for kv in variants(rng, name):
            e = base()
            e[i] = (kv, e[i][1])
            out.append(("sweep-key", render(rng, e, ws=False)))
        e = base()
        del e[i]
        out.append(("sweep-absent", render(rng, e, ws=False)))
        small = [b"null", b'""', b'"v"', b"7", b"true"] + ([b'"1.0"', b'"2.0"'] if name == b"Version" else []) + \
                ([b'"restricted"', b'"bogus"'] if name.lower() == b"nat" else [])
        for v1 in small:
            for v2 in small:
                e = base()
                e[i] = (name.decode(), v1)
                e.append((rng.choice([name.decode(), name.decode().lower(), name.decode().upper()]), v2))
                out.append(("sweep-duplicate", render(rng, e, ws=False)))
    for t in [b"null", b"{}", b"[]", b"[{}]", b"0", b'"x"', b"true", b" null ", b"{}{}", b"{} x", b"", b" ", b"{", b"nul", b"{\"Sid\"}",
              b"{\"Sid\":}", b"{'Sid':'a'}", b"{\"Sid\":\"a\",}", b"\xef\xbb\xbf{}", b"{\"Sid\":\"\xff\"}", b"{\"Sid\":\"\\ud800\"}",
              b"{\"S\\u0069d\":\"a\"}", b"{\"Sid\":\"a\"}\n", b"[" * 200 + b"]" * 200,
              b"{\"Sid\":01}", b"{\"Clients\":+1}", b"{\"Clients\":1.}", b"{\"Clients\":.5}", b"{\"Clients\":0x10}", b"{\"Clients\":NaN}"]:
        out.append(("toplevel", t))
    return out


def mutate(rng, b):
    b = bytearray(b)
    for _ in range(rng.choice([1, 1, 1, 2, 3])):
        m = rng.randrange(6)
        if not b:
            b = bytearray(rng.randrange(256) for _ in range(3))
        i = rng.randrange(len(b))
        if m == 0:
            b[i] = rng.randrange(256)
        elif m == 1:
            del b[i]
        elif m == 2:
            b.insert(i, rng.choice(b'{}[]":,\\\n\x00 0-9eE.ntf\xff\xc5\xbf'))
        elif m == 3:
            b = b[:i]
        elif m == 4:
            j = rng.randrange(i, len(b))
            b = b[:i] + b[i:j] * 2 + b[j:]
        else:
            b[i] ^= 1 << rng.randrange(8)
    return bytes(b[:1500])   # the shared OCaml runner is quadratic in the line length


def random_bytes(rng):
    n = rng.choice([0, 1, 2, 3, 5, 8, 16, 40])
    alpha = rng.choice([None, b'{}[]":, \n1.0abSidnulltruefalse\\'])
    return bytes(rng.choice(alpha) if alpha else rng.randrange(256) for _ in range(n))


CPR_VERSIONS = [b"1.0", b"1.0", b"1.0", b"1.0", b"1.3", b"1", b"", b"1.0 ", b"1.0\r", b" 1.0", b"2.0", b"1.00", b"1.0\n", b"\n1.0", b"01.0"]


def utf8_str(rng):
    if rng.random() < 0.6:
        return rng.choice(STRS + [b"v=0\r\no=- 1 2 IN IP4 0.0.0.0\r\n", b'{"type":"offer","sdp":"x"}', b"\xe2\x84\xaa\xc5\xbf", b"\x7f", b"\xef\xbf\xbd", b"\xed\x9f\xbf\xee\x80\x80"])
    n = rng.choice([1, 2, 3, 10, 100, 400])
    cps = [rng.choice([rng.randrange(0, 128), rng.randrange(128, 0x800), rng.randrange(0x800, 0xd800), rng.randrange(0xe000, 0x10000),
                       rng.randrange(0x10000, 0x110000)]) for _ in range(n)]
    return "".join(map(chr, cps)).encode("utf-8")


def gen_decode_inputs(ctx):
    """list of (msg, kindlabel, data bytes)"""
    rng = ctx.rng
    thorough = ctx.tier == "thorough"
    mul = 10 if thorough else 1
    out = []
    for msg in MSGS:
        texts = sweeps(rng, msg)
        for _ in range(700 * mul):
            texts.append(structured(rng, msg))
        valid = [t for _, t in texts[:400]]
        for _ in range(250 * mul):
            texts.append(("mutated", mutate(rng, rng.choice(valid))))
        for _ in range(120 * mul):
            texts.append(("random-bytes", random_bytes(rng)))
        if msg in LEGACY:
            # legacy decoders accept only messages without the newer field: bias towards absent / empty
            saved = MSGS[msg]
            MSGS[msg] = saved[:-1] + [(saved[-1][0], saved[-1][1], saved[-1][2], [b""])]
            for _ in range(150 * mul):
                label, t = structured(rng, msg)
                out.append((LEGACY[msg], "legacy-" + label, t))
            MSGS[msg] = saved[:-1]
            for _ in range(100 * mul):
                label, t = structured(rng, msg)
                out.append((LEGACY[msg], "legacy-nofield-" + label, t))
            MSGS[msg] = saved
        for label, t in texts:
            if msg == "cpr":
                if label in ("random-bytes",) and rng.random() < 0.5:
                    data = t
                else:
                    ver = rng.choice(CPR_VERSIONS) if rng.random() < 0.25 else b"1.0"
                    data = ver + b"\n" + t if rng.random() < 0.97 else ver + t
            else:
                data = t
            out.append((msg, label, data))
            if msg == "pr" and rng.random() < 0.5:
                out.append(("prr", label, data))     # the same bytes, failure reason observed
            if msg in LEGACY and rng.random() < 0.35:
                out.append((LEGACY[msg], label, data))
    return out + guard_inputs()


def guard_inputs():
    """inputs aimed at the partial operations of the decoders (coq/Model/MessagesPanic.v): the two length /
    nil checks the code makes, and the unchecked Split(...)[0]"""
    out = []
    body = b'{"offer":"o"}'
    for d in [b"", b"1.0", b"1.0\n", b"\n", b"\n\n", b"1.0\n\n", b"1", b"1.", b"1.0" + body, b"1.0\n" + body, b"1.0\r\n" + body,
              b"\n1.0\n" + body, b"1.0\n" + body + b"\n", b"1.0\n" + body + b"\n1.0\n" + body, b"1.0\x00", b"1.0\n\x00", b"2.0", b"1.0 "]:
        out.append(("cpr", "guard-len", d))
    for pat in [None, b"null", b'""', b'"x"', b"0", b"[]"]:
        for ver in [b"1.3", b"1.2", b"1", b"", b".", b"..", b"1.", b".1", b"1..", b"\xc2\xb7", b"1\xe3\x80\x82" b"0"]:
            ents = [("Sid", b'"s"'), ("Version", pyjson.dumps(ver.decode("utf-8")).encode())]
            if pat is not None:
                ents.append(("AcceptedRelayPattern", pat))
            t = b"{" + b",".join(pyjson.dumps(k).encode() + b":" + v for k, v in ents) + b"}"
            out.append(("ppr", "guard-nil" if ver == b"1.3" else "split-edge", t))
            out.append(("ppr0", "guard-nil" if ver == b"1.3" else "split-edge", t))
            if pat is None:
                out.append(("ar", "split-edge", b'{"Sid":"s","Answer":"a","Version":%s}' % pyjson.dumps(ver.decode("utf-8")).encode()))
    for t in [b'{"Sid":"s"}', b'{"Sid":"s","Version":null}', b'{"Version":"1"}', b"{}", b"null"]:
        out.append(("ppr", "split-edge", t))
        out.append(("ar", "split-edge", t))
    return out


def gen_split_lines(ctx):
    """the two library calls whose result is indexed: model of the call vs the call, and the contract the
    code relies on (at least one element) as the property"""
    rng = ctx.rng
    lines, kinds = [], []
    vs = list(VERSIONS) + [b"...", b"a.b.c.d", b".a", b"a.", b"\xe3\x80\x82", b"1\x00.2", b". .", b"1.3\n"]
    for _ in range(150 if ctx.tier != "thorough" else 1500):
        vs.append(bytes(rng.choice(b"..1230 a\n\xc3\xa9") for _ in range(rng.choice([0, 1, 2, 3, 5, 9, 30]))))
    for v in vs:
        lines.append("%s vsplit %s" % (AREA, X(v))); kinds.append("vsplit")
    ds = [d for m, _, d in guard_inputs() if m == "cpr"]
    for _ in range(150 if ctx.tier != "thorough" else 1500):
        ds.append(bytes(rng.choice(b"\n\n1.0{}\r a\x00") for _ in range(rng.choice([0, 1, 2, 3, 5, 9, 30]))))
    for d in ds:
        lines.append("%s nsplit %s" % (AREA, X(d))); kinds.append("nsplit")
    return lines, kinds


def gen_encode_lines(ctx):
    rng = ctx.rng
    mul = 10 if ctx.tier == "thorough" else 1
    lines, kinds = [], []
    def add(l, k):
        lines.append(AREA + " " + l); kinds.append(k)
    def pick(pool, p=0.5):
        return rng.choice(pool) if rng.random() < p else utf8_str(rng)
    ints = [int(x) for x in INTS[:10] if -2**63 <= int(x) < 2**63] + [-9223372036854775807, 7, 1000000, 10**18, -10**18, 99999999999, 4611686018427387904]
    for both in ("e", "r"):
        for _ in range(250 * mul):
            a = [X(pick(STRS)), X(pick(TYPES)), X(pick(NATV, 0.8)), str(rng.choice(ints) if rng.random() < 0.7 else rng.randrange(-2**63, 2**63)),
                 X(pick(STRS + [b"snowflake.torproject.net$"]))]
            add(both + "ppr " + " ".join(a), both + "ppr")
            if rng.random() < 0.3:
                add(both + "ppr0 " + " ".join(a[:4]), both + "ppr0")
        for _ in range(200 * mul):
            a = [X(pick(STRS)), rng.choice("01"), X(pick(NATV, 0.8)), X(pick([b"", b"wss://snowflake.torproject.net/"], 0.8)), X(pick(STATUS, 0.8))]
            add(both + "pr " + " ".join(a), both + "pr")
            add(both + "prr " + " ".join(a), both + "prr")
            if rng.random() < 0.3:
                add(both + "pr0 " + " ".join(a[:3]), both + "pr0")
        for _ in range(150 * mul):
            add(both + "ar %s %s" % (X(pick(STRS)), X(pick(STRS))), both + "ar")
        for b in "01":
            add(both + "ars " + b, both + "ars")
        for _ in range(250 * mul):
            add(both + "cpr %s %s %s" % (X(pick(STRS)), X(pick(NATV, 0.85)), X(pick(FPS, 0.9))), both + "cpr")
        for _ in range(150 * mul):
            add(both + "cps %s %s" % (X(pick(STRS, 0.7)), X(pick(STRS, 0.7))), both + "cps")
    if ctx.tier == "thorough":
        # a few long fields (the shared OCaml runner is quadratic in the line length, so only a few)
        bigs = "\u00e9\u2713x\"\\\n" * 500
        big = bigs.encode("utf-8")
        add("rppr %s x x 8 %s" % (X(big), X(bigs[:400].encode("utf-8"))), "rppr-long")
        add("rar %s %s" % (X(big), X(b"s")), "rar-long")
        add("rcps %s x" % X(big), "rcps-long")
    # exhaustive small scope: NAT names x types x sid presence; fingerprints; status values
    for nat in NATV:
        for ty in TYPES:
            for sid in (b"", b"s"):
                add("rppr %s %s %s 8 x" % (X(sid), X(ty), X(nat)), "rppr-sweep")
    for fp in FPS:
        for nat in NATV[:5]:
            add("rcpr x6f %s %s" % (X(nat), X(fp)), "rcpr-sweep")
    for st in STATUS:
        for ok in "01":
            for offer in (b"", b"o"):
                add("rpr %s %s x %s %s" % (X(offer), ok, X(b"wss://r/"), X(st)), "rpr-sweep")
                add("rprr %s %s x %s %s" % (X(offer), ok, X(b"wss://r/"), X(st)), "rprr-sweep")
    return lines, kinds


def decode_lines(exe, inputs):
    """phase 1: ask the Go driver for the generic value of every byte string"""
    q = []
    for msg, label, data in inputs:
        if msg == "cpr":
            body = data.split(b"\n", 1)[1] if b"\n" in data else None
            q.append(AREA + " gen " + X(body if body is not None else b""))
        else:
            q.append(AREA + " gen " + X(data))
    rc, jv, err = vlib.run_impl(exe, q)
    if rc != 0 or len(jv) != len(q):
        raise RuntimeError("driver died in phase 1 (generic parse) at input %d: %s" % (len(jv), err[-400:]))
    lines, kinds = [], []
    for (msg, label, data), j in zip(inputs, jv):
        if j.startswith("!panic"):
            j = "!"
        if msg == "cpr":
            body = data.split(b"\n", 1)[1] if b"\n" in data else None
            lines.append("%s dcpr %s %s %s" % (AREA, X(data), X(body) if body is not None else "-", j if body is not None else "!"))
        else:
            lines.append("%s d%s %s %s" % (AREA, msg, X(data), j))
        kinds.append("d%s-%s" % (msg, label))
    return lines, kinds


def run(ctx):
    exe = vlib.go_build("./zz_verif/messages")
    ctx.trusted += ["encoding/json's parser/printer (library boundary): the model decodes the JSON value Go's own tokenizer "
                    "yields for the bytes (harness/overlay/zz_verif/messages/main.go: generic); round-trip theorems assume parse(print v)=v",
                    "python re-statement of the protocol rules in lib/checks/c12.py (spec_*), used as the oracle on the implementation's answers"]
    ctx.assumptions += ["model = coq/Model/JsonBoundary.v + coq/Model/Messages.v (hand written); tie = correspondence on generated cases",
                        "Go `int` is 64 bit (linux/amd64)", "error text is not compared (class only), except the failure reason of a proxy poll response, which is the message's Status member (ops dprr/rprr)",
                        "every encoder result is kept by the driver and compared with a private copy after the following encodes (a result is the caller's)",
                        "no-panic: coq/Model/MessagesPanic.v makes every index / dereference of the decoders an explicit step (the d* ops run "
                        "these refined decoders); strings.Split and bytes.SplitN are executable models compared with the real calls (ops vsplit, nsplit)"]
    inputs = gen_decode_inputs(ctx)
    lines, kinds = decode_lines(exe, inputs)
    ctx.correspond(exe, lines, kinds, label="messages-decode", prop=prop, key_of=key_of)
    e_lines, e_kinds = gen_encode_lines(ctx)
    s_lines, s_kinds = gen_split_lines(ctx)
    ctx.correspond(exe, e_lines + s_lines, e_kinds + s_kinds, label="messages-encode-roundtrip", prop=prop, key_of=key_of)


def replay(ctx, doc):
    exe = vlib.go_build("./zz_verif/messages")
    bad = 0
    for v in doc.get("violations", []):
        case = v["replay"].get("case")
        if not case:
            continue
        m = vlib.run_model([case])[0]
        rc, r, err = vlib.run_impl(exe, [case])
        r = r[0] if r else "!died"
        p = prop(case, r, m)
        a = case.split(" ")
        print("case: %s\n bytes: %r\n model: %s\n impl:  %s\n property: %s" % (
            case[:300], unx(a[2])[:200] if a[1][0] == "d" else None, m[:300], r[:300], p or "holds"))
        bad += 1 if p else 0
    return 1 if bad else 0
