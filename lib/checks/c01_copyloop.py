"""C01, relay step: the proxy's copyLoop (proxy/lib/snowflake.go) relays each direction as an in-order byte
prefix, closes each conn exactly once and does nothing after it returned.

Model: coq/Model/CopyLoop.v (theorems C01_relay_* in coq/Properties/C01.v), extracted and run on the same case
lines as the REAL copyLoop, which the driver harness/overlay/proxy/lib/zz_verif_copyloop_test.go runs on two
scripted conns whose every Read / Write / Close call is gated and released according to the schedule of the case.

    copyloop run <reads0> <writes0> <reads1> <writes1> <schedule>        (see coq/Run/CopyloopRun.v)

`evaluate` is the property itself on the implementation's answer."""
import os
import zlib

import vlib

AREA = "copyloop"
DRIVER_ARGS = ("-test.run", "^TestVerifCopyloopDriver$", "-test.timeout=0")
BUF = 32768

KEYS = ("relay-inserted-or-reordered-bytes", "relay-dropped-bytes", "relay-conn-closed-twice", "relay-conn-left-open", "relay-wrote-after-close",
        "relay-returned-without-cause", "relay-stuck", "relay-crash")


def payload(tok):
    if tok[0] == "x":
        return bytes.fromhex(tok[1:])
    n, a = tok[1:].split(".")
    return bytes((int(a) + i) & 255 for i in range(int(n)))


def form(b):
    if len(b) <= 48:
        return "x" + b.hex()
    return "n%d.%s.%s.%d" % (len(b), b[:8].hex(), b[-8:].hex(), zlib.adler32(b))


def form_len(tok):
    if tok[0] == "x":
        return len(tok[1:]) // 2
    return int(tok[1:].split(".")[0])


def script_data(tok):
    if tok == "-":
        return b""
    return b"".join(payload(t[2:]) for t in tok.split(","))


def parse(res):
    d = {}
    for tok in res.split(" "):
        if "=" in tok:
            k, v = tok.split("=", 1)
            d[k] = v
    return d


def evaluate(line, impl):
    """(key, text) of the first clause of the property that fails on the implementation's answer, or None."""
    a = line.split(" ")
    sched = "" if a[6] == "-" else a[6]
    if impl.startswith("!panic") or impl == "!died":
        return ("relay-crash", "copyLoop panicked / the driver died: " + impl[:300])
    if impl.startswith("!stuck") or impl.startswith("!hang"):
        return ("relay-stuck", "copyLoop did not reach the call the schedule releases next (a copier or the deferred Close "
                "never showed up, or it did not return after shutdown): " + impl[:300])
    if impl.startswith("!"):
        return None
    try:
        d = parse(impl)
        data = [script_data(a[2]), script_data(a[4])]
        r = [int(d["r0"]), int(d["r1"])]
        w = [d["w0"], d["w1"]]
        c = [int(d["c0"]), int(d["c1"])]
        ret = d["ret"] == "1"
        late = [int(x) for x in d["late"].split(",")]
        p = d["p"]
    except (KeyError, ValueError, IndexError):
        return ("relay-crash", "unparsable result: " + impl[:300])
    name = ["c1 (client side)", "c2 (server side)"]
    for s in (0, 1):
        # what side 1-s accepted against what side s handed out (the first r[s] bytes of its script)
        n = form_len(w[1 - s])
        if r[s] > len(data[s]):
            return ("relay-inserted-or-reordered-bytes", "side %d handed out %d bytes but its script holds %d" % (s, r[s], len(data[s])))
        if n > r[s] or form(data[s][:n]) != w[1 - s]:
            return ("relay-inserted-or-reordered-bytes",
                    "direction %s -> %s: the relay wrote %s (%d bytes) to %s, which is not a prefix of the %d bytes it had read from %s (%s)"
                    % (name[s], name[1 - s], w[1 - s][:80], n, name[1 - s], r[s], name[s], form(data[s][:r[s]])[:80]))
    for s in (0, 1):
        # a copier parked at a Read holds no chunk and has seen no failed Write: everything it read has been written
        if len(p) == 3 and p[s] == "r" and form_len(w[1 - s]) != r[s]:
            return ("relay-dropped-bytes", "direction %s -> %s is waiting for more input, but only %d of the %d bytes it has read were written to %s"
                    % (name[s], name[1 - s], form_len(w[1 - s]), r[s], name[1 - s]))
    for s in (0, 1):
        if c[s] > 1:
            return ("relay-conn-closed-twice", "copyLoop called Close %d times on %s" % (c[s], name[s]))
    if late[0] > 0 or late[1] > 0:
        return ("relay-wrote-after-close", "after copyLoop returned, %d more bytes were written to c1 and %d to c2" % (late[0], late[1]))
    if ret:
        for s in (0, 1):
            if c[s] == 0:
                return ("relay-conn-left-open", "copyLoop returned without closing %s" % name[s])
    if "s" not in sched and len(p) == 3 and p[2] != "w" and p[0] != "-" and p[1] != "-":
        return ("relay-returned-without-cause", "copyLoop left its select although both copiers are still running and shutdown was not closed (p=%s)" % p)
    return None


def prop(line, impl, model):
    e = evaluate(line, impl)
    return e[1] if e else None


def key_of(line, impl, model):
    e = evaluate(line, impl)
    return e[0] if e else "correspondence"


# ------------------------------------------------------------------ generation

def rand_payload(rng, big_ok=True):
    x = rng.random()
    if x < 0.12:
        return "x"
    if x < 0.62:
        return "x" + bytes(rng.randrange(256) for _ in range(rng.choice([1, 1, 2, 3, 5, 8]))).hex()
    if x < 0.93 or not big_ok:
        return "g%d.%d" % (rng.choice([16, 48, 49, 100, 300, 1000]), rng.randrange(256))
    return "g%d.%d" % (rng.choice([BUF - 1, BUF, BUF + 1, 40000, 2 * BUF, 2 * BUF + 1, 70000]), rng.randrange(256))


def rand_reads(rng, n=None, end=None, big_ok=True):
    n = rng.choice([0, 1, 2, 2, 3, 4, 5]) if n is None else n
    items = []
    for i in range(n):
        k = "d"
        if rng.random() < 0.12:
            k = rng.choice("ef")          # an error in the middle of the script (what follows is never read)
        items.append(k + ":" + rand_payload(rng, big_ok))
    end = rng.choice(["", "", "e", "f", "E", "F"]) if end is None else end
    if end in ("e", "f"):
        items.append(end + ":x")                         # EOF / error alone
    elif end in ("E", "F") and items:
        items[-1] = end.lower() + items[-1][1:]          # together with the last data
    return ",".join(items) or "-"


def rand_writes(rng, n=None):
    n = rng.choice([0, 0, 0, 1, 2, 3]) if n is None else n
    items = []
    for _ in range(n):
        x = rng.random()
        if x < 0.5:
            items.append("o")
        elif x < 0.75:
            items.append("s%d" % rng.choice([0, 1, 2, 3, 47, 48, 100, BUF - 1, BUF]))
        else:
            items.append("t%d" % rng.choice([0, 0, 1, 2, 50, BUF]))
    return ",".join(items) or "-"


def rand_sched(rng, n, weights="0000111mmsab"):
    return "".join(rng.choice(weights) for _ in range(n))


def insert_at(s, i, c):
    return s[:i] + c + s[i:]


def gen(ctx):
    rng = ctx.rng
    thorough = ctx.tier == "thorough"
    mult = 10 if thorough else 1
    lines, kinds = [], []

    def add(kind, r0, w0, r1, w1, sched):
        lines.append("%s run %s %s %s %s %s" % (AREA, r0, w0, r1, w1, sched or "-"))
        kinds.append(kind)

    # the plain relay: both directions pumped to the end in any interleaving, then the closes
    for _ in range(25 * mult):
        r0, r1 = rand_reads(rng, end=rng.choice("efEF")), rand_reads(rng)
        pump = ["0"] * rng.randrange(2, 14) + ["1"] * rng.randrange(0, 14)
        rng.shuffle(pump)
        add("pump-both-directions", r0, "-", r1, "-", "".join(pump) + "mm" + rand_sched(rng, rng.randrange(0, 4)))
    # boundary reads: empty reads, empty read with EOF / error, data together with EOF / error
    for end in ("e", "f", "E", "F", ""):
        for first in ("d:x", "d:x01", "e:x", "f:x", "e:x0102", "f:x0102"):
            add("read-boundaries", first + ("" if end == "" else "," + rand_reads(rng, 1, end, False)), "-", rand_reads(rng, 1, ""), "-",
                "000000" + rng.choice(["", "1", "11"]) + "mm0")
    # a chunk larger than io.Copy's buffer: pieces of 32768
    for n in [BUF - 1, BUF, BUF + 1, 40000, 2 * BUF, 2 * BUF + 1] + ([70000, 3 * BUF + 5, 100000] if thorough else []):
        for cut in (rng.randrange(1, 4), 8):
            add("chunk-over-32768", "%s:g%d.%d" % (rng.choice("dde"), n, rng.randrange(256)), rand_writes(rng, 1), "d:x0a0b", rng.choice(["-", "o,o,s5", "o,t100"]),
                "0" * cut + rng.choice(["", "s", "b", "1"]) + "0" * rng.randrange(0, 4) + "mm")
    # short writes and write errors, at the first Write or at any later one
    for _ in range(30 * mult):
        k = rng.randrange(0, 4)
        ws = ["o"] * k + [rng.choice(["s0", "s1", "s2", "t0", "t1", "t3", "s%d" % BUF])]
        side = rng.randrange(2)
        w = [rand_writes(rng), rand_writes(rng)]
        w[side] = ",".join(ws)
        add("short-write-or-write-error", rand_reads(rng, rng.randrange(1, 5), big_ok=False), w[0], rand_reads(rng, rng.randrange(1, 5), big_ok=False), w[1],
            rand_sched(rng, rng.randrange(4, 16), "0000111m") + "mmmm")
    # shutdown at any point of an otherwise complete run
    for _ in range(25 * mult):
        base = rand_sched(rng, rng.randrange(0, 12), "00011")
        i = rng.randrange(0, len(base) + 1)
        tail = rand_sched(rng, rng.randrange(0, 8), "01mm")
        add("shutdown-at-any-point", rand_reads(rng, big_ok=False), rand_writes(rng), rand_reads(rng, big_ok=False), rand_writes(rng), insert_at(base, i, "s") + tail + "mm")
    # somebody else closes a side at any point
    for _ in range(25 * mult):
        base = rand_sched(rng, rng.randrange(0, 12), "00011")
        i = rng.randrange(0, len(base) + 1)
        tail = rand_sched(rng, rng.randrange(0, 8), "01mmab")
        add("outside-close-at-any-point", rand_reads(rng, big_ok=False), rand_writes(rng), rand_reads(rng, big_ok=False), rand_writes(rng),
            insert_at(base, i, rng.choice("ab")) + tail + rng.choice(["", "mm"]))
    # one copier has finished, the other one keeps relaying until copyLoop has really closed the conns; a copier
    # holding a chunk finds its destination closed
    for _ in range(30 * mult):
        fin = rng.randrange(2)                       # the direction that finishes first (EOF / error at once or after one chunk)
        first = rng.choice(["e:x", "f:x", "e:x01", "d:x0102,e:x"])
        other = ",".join("d:" + rand_payload(rng, False) for _ in range(rng.randrange(2, 6)))
        r = [None, None]
        r[fin], r[1 - fin] = first, other
        f, o = str(fin), str(1 - fin)
        sched = o * rng.randrange(0, 4) + f * rng.choice([1, 2, 3]) + o * rng.randrange(0, 5) + "m" + o * rng.randrange(0, 4) + "m" + o * rng.randrange(0, 3) + rng.choice(["", "m", "mm"])
        add("other-direction-still-relaying", r[0], rand_writes(rng), r[1], rand_writes(rng), sched)
    # anything
    for _ in range(90 * mult):
        add("random", rand_reads(rng, big_ok=rng.random() < 0.1), rand_writes(rng), rand_reads(rng, big_ok=False), rand_writes(rng),
            rand_sched(rng, rng.choice([0, 1, 3, 6, 10, 16, 24])) + rng.choice(["", "", "mm", "smmm", "mmmm"]))
    # every schedule of length 3 (quick: a seeded third of them) / 4 (thorough) over 0 1 m s on one small script
    alpha = "01ms"
    L = 4 if thorough else 3
    for i in range(len(alpha) ** L):
        if not thorough and rng.random() > 0.34:
            continue
        s, x = "", i
        for _ in range(L):
            s += alpha[x % 4]
            x //= 4
        add("all-short-schedules", "d:x0102,e:x03", "s1", "e:x09", "-", s + "mm")
    return lines, kinds


def is_big(line):
    return any(t.startswith("g") and int(t[1:].split(".")[0]) > 4000
               for tok in line.split(" ")[2:6] if tok != "-" for it in tok.split(",") for t in [it[2:]] if ":" in it[:2])


def build_driver():
    """The test binary of proxy/lib with ONLY this tie's in-package driver (and the wire helper package) injected, through an
    overlay map of its own: another area's in-package file that stops compiling after a refactor of proxy/lib cannot take
    the relay tie down with it."""
    import json
    vlib.go_prepare()
    rels = [os.path.join("proxy", "lib", "zz_verif_copyloop_test.go"), os.path.join("zz_verif", "wire", "wire.go")]
    ov = os.path.join(vlib.GOB, "overlay_c01_copyloop.json")
    data = json.dumps({"Replace": {os.path.join(vlib.REPO, r): os.path.join(vlib.OVERLAY_SRC, r) for r in rels}}, indent=1)
    if not os.path.exists(ov) or open(ov).read() != data:
        open(ov, "w").write(data)
    out = os.path.join(vlib.GOB, "bin", "proxylib_copyloop.test")
    os.makedirs(os.path.dirname(out), exist_ok=True)
    rc, o, e = vlib.sh(["go", "test", "-c", "-vet=off", "-tags", "verif", "-modfile=" + os.path.join(vlib.GOB, "go.mod"), "-overlay", ov,
                        "-ldflags=-checklinkname=0", "-o", out, "./proxy/lib"], cwd=vlib.REPO, env=vlib.GOENV, timeout=900)
    if rc != 0:
        raise vlib.GoBuildError("go test -c ./proxy/lib (copyLoop relay driver) failed:\n%s" % (o + e)[-3000:])
    return out


def run_copyloop(ctx):
    try:
        exe = build_driver()
    except vlib.GoBuildError as e:
        # copyLoop is unexported: this tie needs an in-package driver. If it no longer compiles (copyLoop renamed, its
        # signature changed) the whole-system rig still moves bytes through the real relay: say so and go on.
        note = ("relay tie unavailable: harness/overlay/proxy/lib/zz_verif_copyloop_test.go no longer compiles against this tree "
                "(copyLoop renamed or its signature changed?); the whole-system rig still ran. " + str(e)[-600:].replace("\n", " | "))
        vlib.log("C01 note: " + note[:400])
        ctx.extra.setdefault("notes", []).append(note)
        ctx.assumptions.append(note[:300])
        return
    ctx.trusted += ["the gated scripted conns of harness/overlay/proxy/lib/zz_verif_copyloop_test.go (a closed conn fails Read and Write and wakes "
                    "the calls parked on it, as io.Pipe and net.Conn do); io.Copy is the real one (Go 1.23.5)"]
    ctx.assumptions += ["relay step: model = coq/Model/CopyLoop.v, one schedulable event per Read / Write / Close call of copyLoop's three "
                        "goroutines; the real copyLoop is replayed under the same schedule and must print the model's line"]
    lines, kinds = gen(ctx)
    old = os.environ.get("VERIF_DRIVER")
    os.environ["VERIF_DRIVER"] = "copyloop"
    try:
        # the cases with chunks above io.Copy's buffer are kept out of the in-Coq (vm_compute) cross-check of the extraction
        big = [i for i, l in enumerate(lines) if is_big(l)]
        small = [i for i in range(len(lines)) if i not in set(big)]
        ctx.correspond(exe, [lines[i] for i in small], [kinds[i] for i in small], label="copyloop", prop=prop, key_of=key_of,
                       impl_args=DRIVER_ARGS, crosscheck=10)
        ctx.correspond(exe, [lines[i] for i in big], [kinds[i] for i in big], label="copyloop", prop=prop, key_of=key_of,
                       impl_args=DRIVER_ARGS, crosscheck=0)
    finally:
        if old is None:
            del os.environ["VERIF_DRIVER"]
        else:
            os.environ["VERIF_DRIVER"] = old


def replay_copyloop(ctx, doc):
    """replay the violations of label `copyloop` of a replay document; returns the number that still fail"""
    cases = [v["replay"].get("case") for v in doc.get("violations", []) if v.get("replay", {}).get("label") == "copyloop"]
    cases = [c for c in cases if c]
    if not cases:
        return 0
    exe = build_driver()
    bad = 0
    for case in cases:
        m = vlib.run_model([case])[0]
        rc, r, err = vlib.run_impl(exe, [case], args=DRIVER_ARGS, env=dict(os.environ, VERIF_DRIVER="copyloop"))
        r = r[0] if r else "!died"
        e = evaluate(case, r)
        print("case: %s\n model: %s\n impl:  %s\n property: %s" % (case[:400], m[:300], r[:300], ("FAILS [%s] %s" % e) if e else "holds"))
        bad += 1 if e else 0
    return bad
