#!/usr/bin/env python3
"""Confirm and run a seeded mutation delivered by an independent sub-agent.
usage: seedtest.py <ID> <mdir> [<check id to run, default ID>]
 - scratch worktree of /repo HEAD under /tmp/seed-<ID>-<m>
 - demo: passes clean, fails with the patch (parsed from RUN.md)
 - with the patch: go build ./... and the existing tests of the touched packages pass
 - VERIF_REPO=<worktree> ./check <ID> --tier quick  -> must print VIOLATION
 - result recorded in /verif/seeded/<ID>-<m>/"""
import json
import os
import re
import shutil
import subprocess
import sys
import time

V = os.path.dirname(os.path.dirname(os.path.abspath(__file__)))
ENV = dict(os.environ, GOFLAGS="-mod=mod", GOPROXY="off", GOSUMDB="off", GOTOOLCHAIN="local")


def sh(cmd, cwd=None, timeout=1500, env=None):
    try:
        p = subprocess.run(cmd, cwd=cwd, shell=True, capture_output=True, text=True, timeout=timeout, env=env or ENV)
        return p.returncode, p.stdout + p.stderr
    except subprocess.TimeoutExpired as e:
        return 124, "timeout"


def main():
    demo_only = "--demo-only" in sys.argv
    if demo_only:
        sys.argv.remove("--demo-only")
    ID, mdir = sys.argv[1], sys.argv[2].rstrip("/")
    checks = sys.argv[3].split(",") if len(sys.argv) > 3 else [ID]
    if demo_only:
        checks = []
    m = os.path.basename(mdir)
    wt = "/tmp/seed-%s-%s" % (ID, m)
    gm = wt + "-gomod"
    sh("git -C /repo worktree remove --force %s" % wt)
    rc, out = sh("git -C /repo worktree add --detach %s" % wt)
    assert rc == 0, out
    os.makedirs(gm, exist_ok=True)
    shutil.copy(wt + "/go.mod", gm)
    shutil.copy(wt + "/go.sum", gm)
    res = dict(property=ID, mutation=m, at=time.strftime("%Y-%m-%d %H:%M:%S"))
    meta = json.load(open(mdir + "/meta.json")) if os.path.exists(mdir + "/meta.json") else {}
    patch = mdir + "/patch.diff"
    gof = "-modfile=%s/go.mod -ldflags=-checklinkname=0" % gm
    # --- demo parse
    run_md = open(mdir + "/RUN.md").read() if os.path.exists(mdir + "/RUN.md") else ""
    run_md = re.sub(r"\\\n\s*", " ", run_md)
    demo_cmds = []
    cps = re.findall(r"cp\s+(\S+)\s+(\S+)", run_md)
    for line_ in run_md.split("\n"):
        if not re.search(r"\b[Cc]opy\b|\bcp\b|[Pp]lace|[Pp]ut ", line_):
            continue
        toks = re.findall(r"`([^`]+)`", line_)
        srcs = [t for t in toks if ("demo" in t and t.endswith(".go")) or t.endswith("demo_test.go")]
        if not srcs:
            continue
        src_ = srcs[0] if srcs[0].startswith("/") else os.path.join(mdir, os.path.basename(srcs[0]))
        dsts = [t for t in toks if t != srcs[0] and t.endswith(".go") and "/" in t]
        if not dsts:
            dsts = [t for t in toks if t != srcs[0] and ("/" in t) and not t.startswith("go ") and os.path.isdir(os.path.join(wt, re.sub(r"^<[^>]*>/", "", t)))]
        if dsts:
            cps.append((src_, dsts[-1]))
    gos = re.findall(r"(go (?:test|run)[^\n`]*)", run_md)
    copies = []
    for src, dst in cps:
        src = src.strip("`'\"")
        dst = dst.strip("`'\"")
        if not src.startswith("/"):
            src = os.path.join(mdir, os.path.basename(src))
        dst = re.sub(r"^<checkout>/", "", dst)
        dst = re.sub(r"^(<repo>|\$REPO|\$\{?REPO\}?|<worktree>|/tmp/mut-%s|\.)/" % ID, "", dst)
        dst = re.sub(r"^<[^>]*>/", "", dst)
        if os.path.exists(src) and not dst.startswith("/") and dst not in ("the", "a", "into"):
            copies = [c for c in copies if c[0] != src] + [(src, dst)]
    gocmd = None
    for g in gos:
        if "-run" in g or "go run" in g:
            g = re.sub(r"-modfile=(<[^>]*>\S*|\S+)", "", g)
            g = re.sub(r"-ldflags=(<[^>]*>|\S+)", "", g)
            g = re.sub(r"^.*?(go (test|run))", r"\1", g)
            g = re.sub(r"(GOFLAGS|GOPROXY|GOSUMDB|GOTOOLCHAIN)=\S+", "", g)
            g = g.replace("go test", "go test %s" % gof, 1) if "go test" in g else g.replace("go run", "go run %s" % gof, 1)
            if "-vet=off" not in g and "go test" in g:
                g = g.replace("go test", "go test -vet=off", 1)
            gocmd = g.strip().rstrip("`")
            break

    def run_demo():
        for src, dst in copies:
            d = os.path.join(wt, dst)
            if os.path.isdir(d):
                d = os.path.join(d, os.path.basename(src))
            os.makedirs(os.path.dirname(d), exist_ok=True)
            shutil.copy(src, d)
        r = sh(gocmd, cwd=wt, timeout=900)
        for src, dst in copies:
            d = os.path.join(wt, dst)
            if os.path.isdir(d):
                d = os.path.join(d, os.path.basename(src))
            try:
                os.remove(d)
            except OSError:
                pass
        return r

    if copies and gocmd:
        rc0, out0 = run_demo()
        res["demo_cmd"] = gocmd
        res["demo_clean"] = "pass" if rc0 == 0 else "FAIL(%d): %s" % (rc0, out0[-400:])
    else:
        res["demo_clean"] = "not-parsed"
    # --- apply
    rc, out = sh("git apply %s" % patch, cwd=wt)
    res["patch_applies"] = (rc == 0)
    if rc != 0:
        res["error"] = out[-500:]
    else:
        rc, out = sh("go build %s ./..." % gof, cwd=wt)
        res["build_with_patch"] = "ok" if rc == 0 else "FAIL: " + out[-600:]
        files = [l[6:] for l in open(patch).read().split("\n") if l.startswith("+++ b/")]
        pkgs = sorted(set("./" + os.path.dirname(f) for f in files))
        extra = {"./common/util": ["./client/lib", "./proxy/lib"], "./common/encapsulation": ["./client/lib", "./server/lib"],
                 "./common/messages": ["./broker", "./client/lib", "./proxy/lib"], "./common/turbotunnel": ["./client/lib", "./server/lib"],
                 "./common/namematcher": ["./broker", "./proxy/lib"], "./common/amp": ["./broker", "./client/lib"],
                 "./common/bridgefingerprint": ["./broker", "./common/messages"]}
        tp = list(pkgs)
        for p in pkgs:
            tp += extra.get(p, [])
        tp = sorted(set(tp))
        rc, out = sh("go test -vet=off -count=1 %s %s" % (gof, " ".join(tp)), cwd=wt, timeout=1200)
        res["existing_tests_with_patch"] = ("pass: " if rc == 0 else "FAIL: ") + " ".join(tp) + ("" if rc == 0 else " :: " + out[-800:])
        if copies and gocmd:
            rc1, out1 = run_demo()
            res["demo_with_patch"] = "fails (as intended)" if rc1 != 0 else "PASSES (demo does not detect the mutation)"
            res["demo_output"] = out1[-600:]
        # --- our checks
        res["checks"] = {}
        # private copy of the Coq tree and build dir: C07/C20 regenerate coq/Gen/*.v from the tree under test
        work = os.path.join(V, "build", "seedwork", "%s-%s" % (ID, m))
        if checks:
            shutil.rmtree(work, ignore_errors=True)
            os.makedirs(work)
            sh("cp -a %s %s" % (os.path.join(V, "coq"), os.path.join(work, "coq")))
        for cid in checks:
            t = time.time()
            rc, out = sh("./check %s --tier quick" % cid, cwd=V, timeout=2400, env=dict(ENV, VERIF_REPO=wt, VERIF_EVID_DIR=os.path.join(V, "build", "seed-evidence"), VERIF_REPLAY_DIR=os.path.join(V, "build", "seed-replays"),
                                   VERIF_COQ_DIR=os.path.join(work, "coq"), VERIF_BUILD_DIR=os.path.join(work, "build")))
            viol = [l for l in out.split("\n") if l.startswith("VIOLATION") or l.startswith("OK ") or l.startswith("KNOWN-FINDING")]
            keys = re.findall(r"violation \[([^\]]+)\]", out)
            res["checks"][cid] = dict(rc=rc, lines=viol[:5], keys=sorted(set(keys))[:10], wall=round(time.time() - t, 1),
                                      tail=out[-700:] if rc not in (0, 1) else "")
    shutil.rmtree(os.path.join(V, "build", "seedwork", "%s-%s" % (ID, m)), ignore_errors=True)
    sh("git -C %s checkout -- . && git -C %s clean -fdq" % (wt, wt))
    sh("git -C /repo worktree remove --force %s" % wt)
    shutil.rmtree(gm, ignore_errors=True)
    # go build cache dirs of this scratch repo
    shutil.rmtree(os.path.join(V, "build", "go-" + __import__("hashlib").sha1(wt.encode()).hexdigest()[:8]), ignore_errors=True)
    dst = os.path.join(V, "seeded", "%s-%s" % (ID, m))
    os.makedirs(dst, exist_ok=True)
    for f in os.listdir(mdir):
        p = os.path.join(mdir, f)
        if os.path.isfile(p):
            shutil.copy(p, dst)
        elif os.path.isdir(p):
            shutil.copytree(p, os.path.join(dst, f), dirs_exist_ok=True)
    if demo_only and os.path.exists(os.path.join(dst, "meta.json")):
        old = json.load(open(os.path.join(dst, "meta.json")))
        if "what_i_ran" in old and old["what_i_ran"].get("checks"):
            res["checks"] = old["what_i_ran"]["checks"]
    meta.update(dict(breaks=ID, what_i_ran=res))
    json.dump(meta, open(os.path.join(dst, "meta.json"), "w"), indent=1)
    caught = {c: (r["rc"] == 1 and any(l.startswith("VIOLATION") for l in r["lines"])) for c, r in res.get("checks", {}).items()}
    print(json.dumps(dict(id=ID, m=m, demo_clean=res.get("demo_clean"), demo_patch=res.get("demo_with_patch"),
                          build=res.get("build_with_patch"), tests=res.get("existing_tests_with_patch", "")[:60],
                          caught=caught, keys={c: r["keys"] for c, r in res.get("checks", {}).items()},
                          lines={c: r["lines"] for c, r in res.get("checks", {}).items()})))


main()
