NOTES = ("All checks: ./check <id> --tier quick|thorough. Proof = Coq theorems in coq/Properties/<id>.v about the hand-written "
         "executable model; tie to /repo = correspondence (extracted model vs Go drivers built from the working tree through "
         "go build -overlay) plus translators where stated. See DESIGN.md.")
NOT_APPLICABLE = {}
CLAIMED = {
 "C09": dict(
   text="Theorems over the Gallina model of common/encapsulation (all item sequences, all reader scripts permitted by the io.Reader contract, all byte strings): script independence of the decoder, round trip, error classification, padding size, size budget. The model is tied to the Go code by byte-exact correspondence on boundary-biased and exhaustive-small cases.",
   note="Trusted: Coq kernel (vm_compute in cross-check only), extraction (ExtrOcamlBasic), the scripted io.Reader driver, io.ReadFull/io.CopyN modelled at Read-call granularity. The Go code itself is modelled, not verified."),
}
