#!/bin/bash
# Independent re-check of the compiled property files and everything they depend on (coqchk), with the axiom summary.
# usage: lib/coqchk.sh [Cxx ...]   (default: all)   -> build/coqchk/<id>.log
cd "$(dirname "$0")/../coq"
mkdir -p ../build/coqchk
ids=${@:-$(ls Properties/*.v | sed 's#Properties/##; s#\.v##')}
for id in $ids; do
  ( /usr/bin/time -f "%es" timeout 7200 coqchk -silent -o -Q . Snow Snow.Properties.$id > ../build/coqchk/$id.log 2>&1; echo "$id rc=$? $(grep -A1 'Axioms' ../build/coqchk/$id.log | tail -1 | tr -d ' ') $(tail -1 ../build/coqchk/$id.log)" )
done
