#!/bin/bash
# Runs the repository's own test suite with the verif guard OFF (no -tags verif, no overlay),
# without writing into /repo (go.mod/go.sum are copied out and passed with -modfile).
set -u
export GOFLAGS=-mod=mod GOPROXY=off GOSUMDB=off GOTOOLCHAIN=local
mkdir -p /verif/build/baseline
cp /repo/go.mod /repo/go.sum /verif/build/baseline/
cd /repo && go test -modfile=/verif/build/baseline/go.mod -json -vet=off -count=1 -timeout 25m ./... > /verif/build/baseline/out.json 2>/verif/build/baseline/err.txt
python3 - <<'PY'
import json
ok=set(); bad=set()
for l in open('/verif/build/baseline/out.json'):
    try: e=json.loads(l)
    except Exception: continue
    if e.get('Test') and e.get('Action') in ('pass','fail'):
        (ok if e['Action']=='pass' else bad).add(e['Package']+'::'+e['Test'])
base=set(json.load(open('/root/.vp/BASELINE.json'))['stable_pass']) if __import__('os').path.exists('/root/.vp/BASELINE.json') else set()
missing=sorted(base-ok)
print("passed=%d failed=%d baseline=%d baseline_missing=%d"%(len(ok),len(bad),len(base),len(missing)))
for m in missing[:20]: print("MISSING",m)
raise SystemExit(1 if missing else 0)
PY
