#!/bin/bash
# Runs every claimed check (quick tier by default) on the current /repo, 4 at a time; prints one line each.
cd "$(dirname "$0")/.."
tier=${1:-quick}
ids=$(python3 -c "import json; print(' '.join(c['property_id'] for c in json.load(open('MANIFEST.json'))['checks']))")
mkdir -p build/tmp/runall
printf '%s\n' $ids | xargs -P 4 -I{} bash -c "s=\$(date +%s); ./check {} --tier $tier > build/tmp/runall/{}.log 2>&1; rc=\$?; e=\$(( \$(date +%s) - s )); echo \"{} rc=\$rc \${e}s \$(grep -E '^(OK|VIOLATION)' build/tmp/runall/{}.log | head -2 | tr '\n' ' ')\""
