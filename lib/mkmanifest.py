#!/usr/bin/env python3
"""Regenerates MANIFEST.json from lib/manifest_data.py (kept valid at all times)."""
import json, os, sys
sys.path.insert(0, os.path.dirname(os.path.abspath(__file__)))
import manifest_data as M
V = os.path.dirname(os.path.dirname(os.path.abspath(__file__)))
md = os.path.join(V, "lib", "manifest.d")
if os.path.isdir(md):
    for f in sorted(os.listdir(md)):
        if f.endswith(".json"):
            M.CLAIMED.setdefault(f[:-5], {}).update(json.load(open(os.path.join(md, f))))
ids = [json.loads(l)["id"] for l in open(os.path.join(V, "properties.jsonl"))]
checks = []
for cid in ids:
    if cid not in M.CLAIMED:
        continue
    c = M.CLAIMED[cid]
    checks.append(dict(
        property_id=cid,
        quick_cmd="./check %s --tier quick" % cid,
        thorough_cmd="./check %s --tier thorough" % cid,
        evidence_file="/verif/evidence/%s.json" % cid,
        replay_cmd_template="./check %s --replay {path}" % cid,
        engine="coq-model+correspondence",
        level_claimed=dict(category=c.get("category", "proof"), text=c["text"], design_ref=c.get("design_ref", "DESIGN.md §4 " + cid)),
        level_note=c["note"],
        technique=c.get("technique", "machine-checked proof in Coq 8.16.1 over an executable Gallina model, tied to /repo by a differential correspondence check (extracted model vs Go implementation)"),
    ))
na = [dict(property_id=cid, reason=M.NOT_APPLICABLE.get(cid, "check not built yet in this session; no claim is made")) for cid in ids if cid not in M.CLAIMED]
man = dict(
    version=1,
    setup_cmd="./check setup",
    hooks=dict(guard="verif", enable="go build/test -tags verif -overlay build/go/overlay.json (drivers under /verif/harness/overlay are injected at build time; /repo carries no hook code)",
               baseline_off_cmd="/verif/lib/baseline.sh", source_commits=[], add_only=True),
    engines=[dict(name="coq-model+correspondence", path="/verif/check", serves_properties=[c["property_id"] for c in checks],
                  kind_free_text="Coq 8.16.1 theorems over executable Gallina models (coq/), extracted to OCaml (ExtrOcamlBasic) and run against Go drivers built from /repo's working tree; python orchestration in lib/")],
    checks=checks,
    notes=M.NOTES,
    not_applicable=na,
)
json.dump(man, open(os.path.join(V, "MANIFEST.json"), "w"), indent=1)
print("MANIFEST.json: %d checks, %d not claimed" % (len(checks), len(na)))
