(* Generic line-protocol driver for the extracted model: each stdin line is converted
   to a list of Coq N (bytes), passed to Dispatch.run_line, and the result printed. *)

let rec pos_of_int i =
  if i = 1 then Model.XH
  else if i land 1 = 0 then Model.XO (pos_of_int (i lsr 1))
  else Model.XI (pos_of_int (i lsr 1))
let n_of_int i = if i = 0 then Model.N0 else Model.Npos (pos_of_int i)
let rec int_of_pos = function
  | Model.XH -> 1
  | Model.XO p -> 2 * int_of_pos p
  | Model.XI p -> 2 * int_of_pos p + 1
let int_of_n = function Model.N0 -> 0 | Model.Npos p -> int_of_pos p

let table = Array.init 256 n_of_int

let list_of_string (s : string) =
  let r = ref [] in
  for i = String.length s - 1 downto 0 do
    r := table.(Char.code s.[i]) :: !r
  done;
  !r

let string_of_list l =
  let b = Buffer.create 256 in
  List.iter (fun n -> Buffer.add_char b (Char.chr ((int_of_n n) land 255))) l;
  Buffer.contents b

let () =
  try
    while true do
      let line = input_line stdin in
      let out = string_of_list (Model.run_line (list_of_string line)) in
      print_string out; print_char '\n'
    done
  with End_of_file -> ()
