(* placeholder until Proofs/PeersProofs.v lands *)
From Snow Require Import Model.Peers Model.Connect.
