(* C15 — Client bounds its peers, survives failed rendezvous, always shuts down.
   Models: coq/Model/Peers.v (interleaving machine; V0 = pinned code, V1 = code with
   proposed-fixes/C15-end-once.diff and C15-collect-send-select-melt.diff) and
   coq/Model/Connect.v (CV0 pinned, CV1 = with C15-nil-pc.diff); coq/Model/PeerLife.v (last part of this file) puts
   the life cycle of a WebRTCPeer - Close as two steps, peers quiet for longer than SnowflakeTimeout - on top of Peers.v.
   `reachable v max s`: s is reached from `init max` by ANY finite interleaving of Collect steps,
   any number of Pop and End callers, and peers closing on their own (unbounded).

   What is tied to the Go code and what is not (connect).  The oracle of Model/Connect.v has one boolean per library call
   that can fail.  o_newpc, o_negotiate, o_setremote, o_open are provoked in the Go code (coq/Run/ConnectRun.v: ICE
   configurations pion rejects, scripted broker answers, a proxy that vanishes).  o_createdc, o_offer, o_setlocal
   (pc.CreateDataChannel, pc.CreateOffer, pc.SetLocalDescription failing, with the pc.Close() branches of
   preparePeerConnection) are covered by C15_connect_total for all 128 outcome combinations but CANNOT be provoked in
   the unmodified code, for these reasons (pion/webrtc v3.1.41, pion/ice v2.2.6, read for this purpose):
     - NewWebRTCPeerWithEvents receives only (config, broker, listener); preparePeerConnection builds its own
       webrtc.SettingEngine (mDNS disabled, everything else default) and API, so the only thing a caller controls in
       pion is the webrtc.Configuration, in which the client only ever sets ICEServers (rendezvous.go
       NewWebRTCDialerWithEvents).  Everything pion checks about ICE servers (URL scheme, host, TURN credentials) is
       checked in api.NewPeerConnection (initConfiguration, NewICEGatherer): that is o_newpc.
     - CreateDataChannel fails only on a closed PeerConnection, on invalid parameters (MaxPacketLifeTime together with
       MaxRetransmits, a label or protocol longer than 65535 bytes: the code passes the fixed label "snowflake-<16 hex>"
       and Ordered only) or when no SCTP stream id is left on an established association (there is none yet).
     - CreateOffer fails only on a closed PeerConnection, with an identity provider (pc.idpLoginURL, never set by pion),
       when ice.NewAgent fails (port range, mDNS host name, ICE-lite, NAT 1:1 mapping, explicit ufrag/pwd: all taken
       from the SettingEngine, which the code leaves at its defaults; the ICE URLs were validated before), or after 128
       concurrent changes of the local media (there are no media).
     - SetLocalDescription fails only on a closed PeerConnection, in a signalling state other than stable (the
       PeerConnection is new), on a description that does not parse (it is the one CreateOffer has just produced), or
       when ICEGatherer.Gather fails (the agent exists already; gathering errors are logged, not returned).
     - Nobody but connect holds c.pc before connect returns: no event is emitted and no callback into caller code runs
       between api.NewPeerConnection and SetLocalDescription, so a driver cannot close the PeerConnection in between.
   The driver is an in-package test file (no change to /repo, no replacement of library files), so these three outcomes
   stay theorem-only; a change of preparePeerConnection that, say, forgot pc.Close() on those branches would not be seen
   by the correspondence. *)
From Coq Require Import List Arith Bool.
From Snow Require Import Model.BrokerExchange Proofs.BrokerExchangeProofs.
From Snow Require Import Model.Peers Model.Connect Model.CloseConn Model.PeerLife Proofs.PeersProofs Proofs.PeersRetryProofs Proofs.ConnectProofs Proofs.CloseConnProofs Proofs.PeerLifeProofs.
Import ListNotations.

(* ---- bound.  "Held" = every peer that Catch has ever returned and that is not closed (they are all
   in activePeers or in the hands of the collector between Catch and PushBack).  Both the pinned and
   the repaired code, every maximum (0 included). Count() = length of the purged activePeers. *)
Theorem C15_bound : forall v max s, reachable v max s ->
  length (live_peers s) <= max /\ length (active s) <= max.
Proof. intros v max s R. split; [exact (live_peers_bound v max s R) | exact (active_bound v max s R)]. Qed.

(* ---- Pop only returns a peer by the step that has just seen it open, and that peer came out of the channel *)
Theorem C15_pop_live : forall v s l s' i p, step v s l = Some s' ->
  nth_error (pops s') i = Some (P_Ret (Some p)) -> nth_error (pops s) i <> Some (P_Ret (Some p)) ->
  l = Pop_check i /\ nth_error (pops s) i = Some (P_Got p) /\ closedf s p = false.
Proof.
  intros v s l s' i p H Hr Hn. pose proof (pop_ret_only_by_check v s l s' i p H Hr Hn) as ->.
  split; [reflexivity|]. exact (pop_returns_checked v s i s' p H Hr).
Qed.

(* ---- when any End call has returned: every peer ever caught is closed, melt and the channel are closed,
   no rendezvous is in flight (both code versions; in V0 only if the process has not panicked before) *)
Theorem C15_end_closes_all : forall v max s i, reachable v max s -> nth_error (ends s) i = Some E_Done ->
  (forall p, p < next_peer s -> closedf s p = true) /\ live_peers s = [] /\
  melted s = true /\ chan_closed s = true /\ col_hasconn (col s) = false.
Proof. intros v max s i R H. exact (end_done_facts v max s i R H). Qed.

(* ---- after End: Collect is refused before Catch; a Catch begins only while melt is open; Pop returns nil
   without blocking *)
Theorem C15_after_end_collect : forall v s s', melted s = true -> step v s Col_check = Some s' ->
  col s' = C_Unlock R_Melted.
Proof. exact collect_refused_after_melt. Qed.

Theorem C15_after_end_no_catch : forall v s l s', step v s l = Some s' ->
  col s' = C_Catching -> col s <> C_Catching -> melted s = false.
Proof. exact catch_begins_unmelted. Qed.

Theorem C15_after_end_pop : forall v max s i j, reachable v max s -> nth_error (ends s) i = Some E_Done ->
  (forall s' p, step v s (Pop_check j) = Some s' -> nth_error (pops s') j <> Some (P_Ret (Some p))) /\
  (panicked s = false -> nth_error (pops s) j = Some P_Wait -> exists s', step v s (Pop_recv j) = Some s').
Proof. exact pop_after_end. Qed.

(* ---- the repaired code never panics (close of a closed channel, send on a closed channel) *)
Theorem C15_no_panic : forall max s, reachable V1 max s -> panicked s = false.
Proof. exact v1_no_panic. Qed.

(* ---- End terminates (repaired code).  From EVERY reachable state, for every End caller i that has not
   returned, and whichever way the in-flight Catch returns (oracle), there is a continuation of at most
   end_rank s i <= 15 steps, all of them steps of End callers or of the collector that is already inside
   Collect (no new Collect, no Pop, no peer closing needed), after which that End has returned.  Since this
   holds in every reachable state, no interleaving of the other threads can bring the system to a state
   where End can no longer return; the only wait is for the one Catch already in flight. *)
Theorem C15_end_terminates : forall max s i e (oracle : bool), reachable V1 max s ->
  nth_error (ends s) i = Some e ->
  end_rank s i <= 15 /\
  exists tr s', length tr <= end_rank s i /\ forallb helpful tr = true /\ Forall (oracle_ok oracle) tr /\
    run V1 s tr = Some s' /\ nth_error (ends s') i = Some E_Done.
Proof.
  intros max s i e oracle R H. split; [exact (end_rank_bound max s i R)|].
  exact (end_terminates (end_rank s i) max s i e oracle R H (le_n _)).
Qed.

(* each pending End has an enabled helpful step that strictly decreases its rank *)
Theorem C15_end_enabled : forall max s i e (oracle : bool), reachable V1 max s ->
  nth_error (ends s) i = Some e -> e <> E_Done ->
  exists l s', step V1 s l = Some s' /\ helpful l = true /\ oracle_ok oracle l /\
    end_rank s' i < end_rank s i /\ exists e', nth_error (ends s') i = Some e'.
Proof. exact end_progress. Qed.

(* ---- connect (repaired): never a panic; on error everything acquired is released; on success the peer is open *)
Theorem C15_connect_total : forall o,
  let '(r, c) := new_peer CV1 o in
  r <> Conn_Panic /\
  (r = Conn_Err -> all_released c = true /\ stale_checker c = false) /\
  (r = Conn_Ok -> pc c = Some false /\ dc c = Some false /\ peer_closed c = false /\ stale_checker c = true
                  /\ (o_newpc o && o_createdc o && o_offer o && o_setlocal o && o_negotiate o && o_setremote o && o_open o = true)).
Proof. exact connect_total_v1. Qed.

(* ---- every event of an attempt can be rendered (both code versions, all 128 outcome combinations): a failure event
   always carries its error.  render_ok is what String() - called on every event by the listener of the client binary,
   on the goroutine that emits the event - needs in order not to panic. *)
Theorem C15_events_renderable : forall v o, forallb render_ok (events (snd (new_peer v o))) = true.
Proof. exact connect_events_render. Qed.

(* ---- a failed attempt is reported: through an event that carries the failure, except when it is SetRemoteDescription
   that refuses the answer (then only through the error returned to connectLoop, which logs it) *)
Theorem C15_failure_reported : forall o, fst (new_peer CV1 o) = Conn_Err ->
  existsb flagged (events (snd (new_peer CV1 o))) = true \/
  (o_newpc o && o_createdc o && o_offer o && o_setlocal o && o_negotiate o = true /\ o_setremote o = false).
Proof. exact connect_failure_reported. Qed.

Theorem C15_connect_rendezvous_once : forall v o, rv_calls (snd (new_peer v o)) <= 1 /\
  (rv_calls (snd (new_peer v o)) = 1 -> o_newpc o && o_createdc o && o_offer o && o_setlocal o = true).
Proof. exact connect_rendezvous_once. Qed.

(* ==== "a failed attempt is ... retried later" (Proofs/PeersRetryProofs.v).  A failed attempt is the in-flight Catch
   returning an error (Catch_err; by C15_connect_total that is every way NewWebRTCPeerWithEvents can fail). *)

(* ---- the failure itself changes nothing but the collector's program counter: no peer, no list entry, no channel slot *)
Theorem C15_failure_consumes_nothing : forall v s s', step v s Catch_err = Some s' ->
  col s = C_Catching /\ s' = set_col s (C_Unlock R_Fail).
Proof. exact catch_err_effect. Qed.

(* ---- Collect then returns the error: two steps of the collector, always enabled, lead back to idle with the lock free *)
Theorem C15_failure_returns_idle : forall max s, reachable V1 max s -> col s = C_Unlock R_Fail ->
  exists s', run V1 s [Col_unlock; Col_return] = Some s' /\ s' = set_col (set_lock s None) C_Idle /\ lock s = Some T_Col.
Proof. intros max s R Hc. exact (failure_returns_idle V1 max s R (v1_no_panic max s R) Hc). Qed.

(* ---- from EVERY reachable state in which the connection has not been closed (melt open) and the collector is between two
   Collect calls - after any number of failed attempts, under any interleaving with the other threads - Collect gets the
   lock at once and starts a rendezvous attempt exactly when fewer than Max live peers are held: no failure latches *)
Theorem C15_retry_enabled : forall max s, reachable V1 max s -> melted s = false -> col s = C_Idle ->
  exists s1 s2, step V1 s Col_lock = Some s1 /\ step V1 s1 Col_check = Some s2 /\
    (length (filter (live s) (active s)) < max -> col s2 = C_Catching) /\
    (max <= length (filter (live s) (active s)) -> col s2 = C_Unlock R_AtCap).
Proof. intros max s R Hm Hc. exact (retry_enabled V1 max s R (v1_no_panic max s R) Hm Hc). Qed.

(* ---- and right after a failed attempt there always is room (the slot the attempt had reserved is free again): unless the
   connection is closed meanwhile, the collector's next four steps put a new rendezvous attempt in flight, with the same
   peers, the same channel contents, and the list merely purged of closed peers *)
Theorem C15_retry_after_failure : forall max s, reachable V1 max s -> melted s = false -> col s = C_Unlock R_Fail ->
  exists s', run V1 s [Col_unlock; Col_return; Col_lock; Col_check] = Some s' /\ col s' = C_Catching /\
             next_peer s' = next_peer s /\ chan s' = chan s /\ closedf s' = closedf s /\
             active s' = filter (live s) (active s).
Proof. intros max s R Hm Hc. exact (retry_after_failure V1 max s R (v1_no_panic max s R) Hm Hc). Qed.

(* ---- failures never consume capacity and are not counted anywhere: k+1 failed attempts in a row leave exactly the state
   a single Count() purge leaves, for every k, and the next attempt can start from it *)
Theorem C15_failures_leave_no_trace : forall v k s, can_attempt s ->
  run v s (times (S k) collect_fail) = Some (purged s) /\ can_attempt (purged s).
Proof. exact failures_leave_no_trace. Qed.

Example C15_ex_failing_reachable : exists s, reachable V1 2 s /\ col s = C_Unlock R_Fail /\ melted s = false /\
  panicked s = false /\ length (live_peers s) = 1.
Proof. exact ex_failing_reachable. Qed.

Example C15_ex_retry_enabled_hyps : exists s, reachable V1 2 s /\ melted s = false /\ col s = C_Idle /\ length (live_peers s) = 1.
Proof.
  destruct (run V1 (init 2) (collect_ok ++ collect_fail)) as [s|] eqn:E; [|vm_compute in E; discriminate].
  exists s. split; [eapply run_reachable; [apply reach_init|exact E]|].
  vm_compute in E. inversion E; subst. repeat split; reflexivity.
Qed.

Example C15_ex_can_attempt : can_attempt (init 1) /\ exists s, run V1 (init 2) collect_ok = Some s /\ can_attempt s.
Proof. exact ex_can_attempt. Qed.

Example C15_ex_failure_reported_hyp : fst (new_peer CV1 (mkO true true true true true true false)) = Conn_Err.
Proof. reflexivity. Qed.

(* ---- refutations on the pinned code (each witness was replayed on the Go code, see lib/checks/c15.py DIRECTED) *)
Theorem C15_v0_refuted_double_end : exists s, run V0 (init 1) trace_double_end = Some s /\ panicked s = true
  /\ nth_error (ends s) 0 = Some E_Done.
Proof. exact v0_double_end_panics. Qed.

Theorem C15_v0_refuted_end_deadlock : exists s, run V0 (init 2) trace_deadlock = Some s /\ panicked s = false /\
  nth_error (ends s) 0 = Some E_Melted /\
  (forall l, helpful l = true -> step V0 s l = None) /\
  (forall tr s', forallb no_pop tr = true -> run V0 s tr = Some s' -> nth_error (ends s') 0 = Some E_Melted).
Proof. exact v0_deadlock. Qed.

Theorem C15_v0_refuted_nil_pc : forall o, o_newpc o = false ->
  fst (new_peer CV0 o) = Conn_Panic /\ all_released (snd (new_peer CV0 o)) = false.
Proof. exact connect_v0_nil_pc. Qed.

(* ---- non-vacuity of the hypotheses *)
Example C15_ex_end_done_reachable : exists s, reachable V1 2 s /\ nth_error (ends s) 0 = Some E_Done /\ next_peer s = 2.
Proof.
  destruct (run V1 (init 2) (collect_ok ++ collect_ok ++
     [End_call; End_once 0; End_melt 0; End_lock 0; End_closechan 0; End_closepeers 0; End_unlock 0; End_finish 0]))
    as [s|] eqn:E; [|vm_compute in E; discriminate].
  exists s. split; [eapply run_reachable; [apply reach_init|exact E]|].
  vm_compute in E. inversion E; subst. split; reflexivity.
Qed.

Example C15_ex_end_pending_while_catching : exists s, reachable V1 2 s /\ nth_error (ends s) 0 = Some E_Melted /\
  col s = C_Catching /\ end_rank s 0 = 9.
Proof.
  destruct (run V1 (init 2) [Col_lock; Col_check; End_call; End_once 0; End_melt 0]) as [s|] eqn:E; [|vm_compute in E; discriminate].
  exists s. split; [eapply run_reachable; [apply reach_init|exact E]|].
  vm_compute in E. inversion E; subst. repeat split; reflexivity.
Qed.

Example C15_ex_bound_tight : exists s, reachable V0 2 s /\ length (live_peers s) = 2.
Proof.
  destruct (run V0 (init 2) (collect_ok ++ collect_ok)) as [s|] eqn:E; [|vm_compute in E; discriminate].
  exists s. split; [eapply run_reachable; [apply reach_init|exact E]|].
  vm_compute in E. inversion E; subst. reflexivity.
Qed.

Example C15_ex_pop_returns : exists s s', step V1 s (Pop_check 0) = Some s' /\ nth_error (pops s') 0 = Some (P_Ret (Some 0))
  /\ nth_error (pops s) 0 <> Some (P_Ret (Some 0)).
Proof.
  destruct (run V1 (init 1) (collect_ok ++ [Pop_call; Pop_recv 0])) as [s|] eqn:E; [|vm_compute in E; discriminate].
  exists s. vm_compute in E. inversion E; subst. eexists. split; [reflexivity|]. split; [reflexivity|discriminate].
Qed.

Example C15_ex_melted_collect : exists s s', melted s = true /\ step V1 s Col_check = Some s'.
Proof.
  destruct (run V1 (init 1) [End_call; End_once 0; End_melt 0; End_lock 0; End_closechan 0; End_closepeers 0; End_unlock 0; Col_lock])
    as [s|] eqn:E; [|vm_compute in E; discriminate].
  exists s. vm_compute in E. inversion E; subst. eexists. split; reflexivity.
Qed.

Example C15_ex_nil_pc : o_newpc (mkO false true true true true true true) = false.
Proof. reflexivity. Qed.

(* ==== SnowflakeConn.Close (coq/Model/CloseConn.v: Stream.Close, result ignored; then End, unconditionally; then
   pconn.Close and sess.Close) composed with the Peers machine.  `creachable K_pinned v max c`: c is reached by ANY
   interleaving of Peers steps (connect loop, data path, other End callers, peers closing), the session dying on its
   own, the stream being closed directly, and any number of Close calls. *)

(* ---- once a Close call is past its End (in particular once it has returned): every peer ever caught is closed,
   the collection has ended, no rendezvous attempt is in flight - whether or not the session was dead, the stream
   closed before, or other Close calls overlap *)
Theorem C15_close_closes_all : forall v max c k pc, creachable K_pinned v max c ->
  nth_error (closers c) k = Some pc -> returned pc = true ->
  (forall p, p < next_peer (ps c) -> closedf (ps c) p = true) /\ live_peers (ps c) = [] /\
  melted (ps c) = true /\ chan_closed (ps c) = true /\ col_hasconn (col (ps c)) = false.
Proof.
  intros v max c k pc R Hk Hr.
  exact (close_after_end_facts _ _ _ _ _ _ R Hk (close_returned_ended _ _ _ _ _ R Hk Hr)).
Qed.

(* ---- and that stays so for ever: whatever happens after Close has returned (the connect loop calling Collect again,
   further Close calls, ...), no rendezvous attempt is in flight and no peer is held in any later state *)
Theorem C15_close_stops_rendezvous : forall v max c k pc tr c', creachable K_pinned v max c ->
  nth_error (closers c) k = Some pc -> returned pc = true -> crun K_pinned v c tr = Some c' ->
  col (ps c') <> C_Catching /\ live_peers (ps c') = [] /\ melted (ps c') = true.
Proof.
  intros v max c k pc tr c' R Hk Hr Hrun.
  exact (close_stops_rendezvous _ _ _ _ _ _ _ _ R Hk (close_returned_ended _ _ _ _ _ R Hk Hr) Hrun).
Qed.

(* ---- Close returns (repaired Peers code): from EVERY reachable state, every Close call that has not returned completes
   within 20 steps, all of them its own, steps of End callers, or steps of the collector already inside Collect
   (whichever way the in-flight Catch returns: oracle).  Stream.Close, pconn.Close, sess.Close are assumed to return. *)
Theorem C15_close_terminates : forall max c k pc (oracle : bool), creachable K_pinned V1 max c ->
  nth_error (closers c) k = Some pc ->
  exists tr c', length tr <= 20 /\ Forall (close_helpful k oracle) tr /\
    crun K_pinned V1 c tr = Some c' /\ nth_error (closers c') k = Some (K_Done true).
Proof. exact close_terminates. Qed.

(* ---- "retried later" over the whole connection: whatever has happened to the connection short of closing it (the session
   dead, the stream or the packet conn closed, any number of failed attempts before), while the collection has not been
   ended the connect loop's next Collect gets the lock and starts a rendezvous attempt whenever fewer than Max peers are held *)
Theorem C15_conn_retry_enabled : forall max c, creachable K_pinned V1 max c ->
  melted (ps c) = false -> col (ps c) = C_Idle ->
  exists c1 c2, cstep K_pinned V1 c (L_P Col_lock) = Some c1 /\ cstep K_pinned V1 c1 (L_P Col_check) = Some c2 /\
    sess_dead c2 = sess_dead c /\ closers c2 = closers c /\
    (length (filter (live (ps c)) (active (ps c))) < max -> col (ps c2) = C_Catching).
Proof.
  intros max c R Hm Hc. pose proof (creach_proj _ _ _ _ R) as Rp.
  destruct (retry_enabled V1 max (ps c) Rp (v1_no_panic max _ Rp) Hm Hc) as (s1 & s2 & S1 & S2 & Hlt & _).
  cbn [cstep]. rewrite S1. eexists. eexists. split; [reflexivity|]. cbn [cstep ps]. rewrite S2.
  split; [reflexivity|]. cbn. auto.
Qed.

Example C15_ex_conn_retry_hyps : exists c, creachable K_pinned V1 2 c /\ melted (ps c) = false /\ col (ps c) = C_Idle /\
  sess_dead c = true /\ length (live_peers (ps c)) = 1.
Proof.
  destruct (crun K_pinned V1 (kinit 2) (map L_P (collect_ok ++ collect_fail) ++ [L_SessDies])) as [c|] eqn:E; [|vm_compute in E; discriminate].
  exists c. split; [eapply crun_reachable; [apply creach_init|exact E]|].
  vm_compute in E. inversion E; subst. repeat split.
Qed.

(* ---- the theorems above depend on End being called unconditionally: a Close that returns when Stream.Close reports
   an error leaves the collection running with a rendezvous in flight *)
Theorem C15_close_early_return_refuted : exists c, crun K_early V1 (kinit 1) trace_early = Some c /\
  nth_error (closers c) 0 = Some (K_Done false) /\ melted (ps c) = false /\ col (ps c) = C_Catching.
Proof. exact early_leaves_collection_running. Qed.

Example C15_ex_close_dead_session : exists c, crun K_pinned V1 (kinit 2) trace_dead_then_close = Some c /\
  creachable K_pinned V1 2 c /\ sess_dead c = true /\ col (ps c) = C_Catching /\
  nth_error (closers c) 1 = Some K_Stream /\ live_peers (ps c) = [0].
Proof. exact ex_dead_then_close. Qed.

Example C15_ex_close_returned : exists c, creachable K_pinned V1 2 c /\ nth_error (closers c) 0 = Some (K_Done true) /\
  sess_dead c = true /\ next_peer (ps c) = 1.
Proof.
  destruct (crun K_pinned V1 (kinit 2) (map L_P collect_ok ++ [L_SessDies; L_Close; L_Stream 0; L_CallEnd 0] ++
     map L_P [End_once 0; End_melt 0; End_lock 0; End_closechan 0; End_closepeers 0; End_unlock 0; End_finish 0] ++
     [L_EndRet 0; L_Pconn 0; L_Sess 0])) as [c|] eqn:E; [|vm_compute in E; discriminate].
  exists c. split; [eapply crun_reachable; [apply creach_init|exact E]|].
  vm_compute in E. inversion E; subst. repeat split.
Qed.

(* ==== the life cycle of a peer (coq/Model/PeerLife.v): WebRTCPeer.Close is TWO steps - LL_CloseBegin p (Close enters
   once.Do; the code closes the `closed` channel first, so Closed() answers true from here on) and LL_CloseEnd p (cleanup()
   has torn down the pipe, the DataChannel and the PeerConnection) - and a peer may have been quiet for longer than
   SnowflakeTimeout (LL_Quiet / LL_Recv) without anybody having closed it.  `lreachable v FlagFirst max s`: s is reached
   by ANY interleaving of the Peers machine's steps with Close calls beginning and ending and peers going quiet and
   receiving again.  begun s p = somebody has begun to close p; untouched s p = negb (begun s p). *)

(* ---- "never hands a peer that is already closed to the data path", at the granularity of Close: whenever a Pop call
   comes to return a peer - by whatever step of whatever thread - nobody had BEGUN to close that peer (so nothing of it was
   torn down), and the step is that popper's own test of Closed() *)
Theorem C15_pop_never_closing : forall v max s l s' i p, lreachable v FlagFirst max s -> lstep v FlagFirst s l = Some s' ->
  nth_error (pops (lp s')) i = Some (P_Ret (Some p)) -> nth_error (pops (lp s)) i <> Some (P_Ret (Some p)) ->
  l = LL_P (Pop_check i) /\ begun s p = false /\ torn s p = false /\ begun s' p = false.
Proof. exact pop_hands_out_untouched. Qed.

(* ---- this depends on the order inside Close: with cleanup() before close(c.closed) (FlagLast) Pop hands the data path a
   spare whose teardown is in progress *)
Theorem C15_close_flag_last_refuted : exists s, lrun V1 FlagLast (linit 2) trace_flag_last = Some s /\
  nth_error (pops (lp s)) 0 = Some (P_Ret (Some 0)) /\ begun s 0 = true /\ torn s 0 = false.
Proof. exact flag_last_pop_refuted. Qed.

Example C15_ex_pop_skips_closing : exists s, lrun V1 FlagFirst (linit 2) (trace_flag_last ++ [LL_P (Pop_recv 0); LL_P (Pop_check 0)]) = Some s /\
  lreachable V1 FlagFirst 2 s /\
  nth_error (pops (lp s)) 0 = Some (P_Ret (Some 1)) /\ begun s 0 = true /\ torn s 0 = false /\ begun s 1 = false.
Proof. exact flag_first_pop_skips. Qed.

(* ---- Count()/purgeClosedPeers only ever drops a peer somebody has begun to close: every other peer ever caught is in
   activePeers (or in the collector's hand between Catch and PushBack) in EVERY reachable state, however long it has been
   quiet (quiet s p is not even mentioned) *)
Theorem C15_untouched_tracked : forall v max s p, lreachable v FlagFirst max s ->
  p < next_peer (lp s) -> begun s p = false -> In p (active (lp s)) \/ col (lp s) = C_Caught p.
Proof. exact untouched_tracked. Qed.

(* ---- the purge of Collect removes EXACTLY the peers whose Close has begun, and changes nothing else about the peers *)
Theorem C15_purge_exact : forall v max s s', lreachable v FlagFirst max s ->
  lstep v FlagFirst s (LL_P Col_check) = Some s' -> melted (lp s) = false ->
  active (lp s') = filter (untouched s) (active (lp s)) /\ begun s' = begun s /\ quiet s' = quiet s.
Proof. exact purge_exact. Qed.

Theorem C15_quiet_peer_kept : forall v max s s' p, lreachable v FlagFirst max s ->
  lstep v FlagFirst s (LL_P Col_check) = Some s' -> melted (lp s) = false ->
  In p (active (lp s)) -> begun s p = false -> In p (active (lp s')) /\ begun s' p = false.
Proof. exact quiet_peer_kept. Qed.

(* ---- the bound and End, over "Close has not begun": at most Max peers nobody has begun to close; once an End call has
   returned, Close has begun on every peer ever caught, and the peers End itself closed are torn down *)
Theorem C15_bound_untouched : forall v max s, lreachable v FlagFirst max s ->
  length (filter (untouched s) (seq 0 (next_peer (lp s)))) <= max.
Proof. exact untouched_bound. Qed.

Theorem C15_end_begins_all : forall v max s i p, lreachable v FlagFirst max s ->
  nth_error (ends (lp s)) i = Some E_Done -> p < next_peer (lp s) -> begun s p = true.
Proof. exact end_begins_all. Qed.

Theorem C15_end_tears_down : forall v o s i s' p, lstep v o s (LL_P (End_closepeers i)) = Some s' ->
  In p (active (lp s)) -> closedf (lp s) p = false -> begun s' p = true /\ torn s' p = true.
Proof. exact end_tears_down. Qed.

(* a quiet peer in use with Max 1: reachable, not closed, in the list; the purge keeps it and Collect is refused *)
Example C15_ex_quiet_peer : exists s s', lrun V1 FlagFirst (linit 1) trace_quiet = Some s /\ lreachable V1 FlagFirst 1 s /\
  quiet s 0 = true /\ begun s 0 = false /\ melted (lp s) = false /\ In 0 (active (lp s)) /\
  lstep V1 FlagFirst s (LL_P Col_check) = Some s' /\ col (lp s') = C_Unlock R_AtCap.
Proof. exact quiet_example. Qed.

Example C15_ex_end_during_teardown : exists s, lrun V1 FlagFirst (linit 2) trace_end_life = Some s /\ lreachable V1 FlagFirst 2 s /\
  nth_error (ends (lp s)) 0 = Some E_Done /\ next_peer (lp s) = 2 /\
  begun s 0 = true /\ torn s 0 = false /\ begun s 1 = true /\ torn s 1 = true.
Proof. exact end_life_example. Qed.

(* ---- the rendezvous attempt in flight is itself bounded (Model/BrokerExchange.v).  End / SnowflakeConn.Close wait "at most
   for one rendezvous attempt already in flight": the termination theorems above are stated for a Catch that returns; for
   the broker exchange inside it that is provided by the code's own transport (createBrokerTransport: ResponseHeaderTimeout
   15 s), whatever the broker does - including accepting the request and never answering.  Tied: Run/CloseconnRun.v takes
   the outcome of the `silent` scenarios from negotiate_outcome code_transport B_Silent; the Go driver runs them through
   NewSnowflakeClient -> NewBrokerChannel -> createBrokerTransport against a broker that reads the request and stays silent
   (key rendezvous-attempt-unbounded). *)
Theorem C15_rendezvous_exchange_bounded : forall b, exists d ok, exchange_end code_transport b = Some (d, ok) /\ d <= 15.
Proof. exact code_exchange_bounded. Qed.

Theorem C15_rendezvous_not_in_flight_after_limit : forall b n, 15 <= n -> in_flight code_transport b n = false.
Proof. exact code_not_in_flight_after. Qed.

Theorem C15_negotiate_returns : forall b, exists ok, negotiate_outcome code_transport b = Some ok.
Proof. exact code_negotiate_returns. Qed.

Theorem C15_answer_in_time_kept : forall d ok, d <= 15 -> exchange_end code_transport (B_Answers d ok) = Some (d, ok).
Proof. exact code_answer_in_time_kept. Qed.

(* non-vacuity: the silent broker's attempt is in flight up to the limit and fails exactly there *)
Example C15_ex_silent_broker : in_flight code_transport B_Silent 14 = true /\ exchange_end code_transport B_Silent = Some (15, false) /\
  exchange_end code_transport (B_Answers 15 true) = Some (15, true) /\ exchange_end code_transport (B_Answers 16 true) = Some (15, false).
Proof. repeat split; reflexivity. Qed.

(* a transport without the limit (the 15 s put on another field) is refuted: a silent broker holds the attempt for ever,
   and only a silent one does *)
Theorem C15_unlimited_transport_refuted : (forall n, in_flight (mkXT None) B_Silent n = true) /\ negotiate_outcome (mkXT None) B_Silent = None.
Proof. split; [exact unlimited_silent_for_ever | exact unlimited_silent_never_returns]. Qed.

Theorem C15_unlimited_only_silence_hangs : forall b, b <> B_Silent -> exists ok, negotiate_outcome (mkXT None) b = Some ok.
Proof. exact unlimited_others_return. Qed.
