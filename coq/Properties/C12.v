(* placeholder until Proofs/MessagesProofs.v lands *)
From Snow Require Import Lib.Wire Model.JsonBoundary Model.Messages.
