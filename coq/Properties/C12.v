(* C12 — Broker messages round-trip and invalid ones are rejected.
   Model: Model/JsonBoundary.v (Go's typed unmarshalling over a JSON value) + Model/Messages.v.
   Vocabulary (Proofs/MessagesProofs.v):
     fstr v "F" / fint / fptr   the message's value for field F: its last occurrence (keys compared
                                after case folding) that is a string / integer literal / string-or-null
     well_typed sc v            v is an object (or null) and every entry whose key folds to a field
                                name of schema sc carries null or a value of that field's JSON kind
                                (int fields: an integer literal within int64)
     valid_nat n                n is "", "unknown", "restricted" or "unrestricted"
     fingerprint_valid fp       fp is the hex encoding of 20 or 32 bytes
   encoding/json's byte-level parser/printer are Section variables of the *_bytes theorems. *)
From Coq Require Import List NArith ZArith String.
From Snow Require Import Lib.Wire Model.JsonBoundary Model.Messages Proofs.MessagesProofs.
From Snow Require Import Model.MessagesPanic Proofs.MessagesPanicProofs.
Import ListNotations.
Open Scope N_scope.

(* ---- Go's single pass over the object is the per-field reading used below (any schema
   whose folded field names are distinct, which holds for the six message structs) *)
Theorem C12_unmarshal_is_per_field_reading : forall sc v, nodup_folds sc ->
  unmarshal sc v =
  if typed_okb sc v then Some (map (fun fd => fieldval (snd fd) (hits (fst fd) (entries v))) sc) else None.
Proof. exact unmarshal_eq. Qed.

Theorem C12_well_typed_reading : forall sc v, typed_okb sc v = true <-> well_typed sc v.
Proof. exact typed_okb_iff. Qed.

(* ---- round trips: for ALL field values (any byte strings, any int64 count) *)
Theorem C12_roundtrip_proxy_poll : forall sid ty nat n pat,
  sid <> [] -> valid_nat nat -> int64 n ->
  decode_proxy_poll (encode_proxy_poll sid ty nat n pat) =
  Ok {| pq_sid := sid; pq_type := norm_type ty; pq_nat := nat_default nat; pq_clients := n;
        pq_pattern := pat; pq_aware := true |}.
Proof. exact roundtrip_proxy_poll. Qed.

Theorem C12_roundtrip_proxy_poll_legacy : forall sid ty nat n,
  sid <> [] -> valid_nat nat -> int64 n ->
  decode_proxy_poll_legacy (encode_proxy_poll_legacy sid ty nat n) = Ok (sid, norm_type ty, nat_default nat, n).
Proof. exact roundtrip_proxy_poll_legacy. Qed.

Theorem C12_roundtrip_poll_response : forall offer success nat relay reason,
  decode_poll_response (encode_poll_response offer success nat relay reason) =
  if success then (if beq offer [] then Err else Ok (offer, nat_default nat, relay))
  else if beq reason NO_MATCH then Ok ([], NAT_UNKNOWN, []) else Err.
Proof. exact roundtrip_poll_response. Qed.

(* The failure reason of a proxy poll response is a field of the message: the Go decoder hands it to the caller as the
   text of the error it returns (together with the NAT type and relay URL).  decode_poll_response_reason is
   decode_poll_response with that error class split off; the reason comes back byte for byte. *)
Theorem C12_poll_response_reason_refines : forall v,
  decode_poll_response v = match decode_poll_response_reason v with PROk r => Ok r | _ => Err end.
Proof. exact poll_response_reason_refines. Qed.

Theorem C12_roundtrip_poll_response_reason : forall offer nat relay reason,
  reason <> [] -> reason <> CLIENT_MATCH -> reason <> NO_MATCH ->
  decode_poll_response_reason (encode_poll_response offer false nat relay reason) = PRReason reason NAT_UNKNOWN [].
Proof. exact roundtrip_poll_response_reason. Qed.

Theorem C12_poll_response_reason_is_status : forall v s n u,
  decode_poll_response_reason v = PRReason s n u ->
  s = fstr v "Status" /\ n = nat_default (fstr v "NAT") /\ u = fstr v "RelayURL" /\
  s <> [] /\ s <> CLIENT_MATCH /\ s <> NO_MATCH.
Proof. exact poll_response_reason_is_status. Qed.

Example C12_poll_response_reason_example :
  decode_poll_response_reason (encode_poll_response [] false [] [] (bs "broker is 100% busy")) =
  PRReason (bs "broker is 100% busy") NAT_UNKNOWN [].
Proof. vm_compute. reflexivity. Qed.

Theorem C12_roundtrip_answer_request : forall answer sid,
  answer <> [] -> sid <> [] ->
  decode_answer_request (encode_answer_request answer sid) = Ok (answer, sid).
Proof. exact roundtrip_answer_request. Qed.

Theorem C12_roundtrip_answer_response : forall b, decode_answer_response (encode_answer_response b) = Ok b.
Proof. exact roundtrip_answer_response. Qed.

Theorem C12_roundtrip_client_poll_request : forall offer nat fp,
  offer <> [] -> valid_nat nat -> fingerprint_valid (fp_default fp) ->
  decode_client_poll_body (encode_client_poll offer nat fp) = Ok (offer, nat_default nat, fp_default fp).
Proof. exact roundtrip_client_poll_body. Qed.

Theorem C12_roundtrip_client_poll_response : forall answer error,
  answer <> [] \/ error <> [] ->
  decode_client_response (encode_client_response answer error) = Ok (answer, error).
Proof. exact roundtrip_client_response. Qed.

(* byte level, over the library: parse (print v) = Some v for the printable values *)
Theorem C12_roundtrip_bytes : forall (parse : bytes -> option json) (print : json -> bytes) (printable : json -> Prop),
  (forall v, printable v -> parse (print v) = Some v) ->
  forall (A : Type) (d : json -> result A) v r, printable v -> d v = r -> opt_decode d (parse (print v)) = r.
Proof. exact roundtrip_bytes. Qed.

Theorem C12_roundtrip_client_poll_request_bytes :
  forall (parse : bytes -> option json) (print : json -> bytes) (printable : json -> Prop),
  (forall v, printable v -> parse (print v) = Some v) ->
  forall offer nat fp, printable (encode_client_poll offer nat fp) ->
  offer <> [] -> valid_nat nat -> fingerprint_valid (fp_default fp) ->
  decode_client_poll parse (encode_client_poll_bytes print offer nat fp) = Ok (offer, nat_default nat, fp_default fp).
Proof. exact roundtrip_client_poll_bytes. Qed.

Theorem C12_int_field_roundtrip : forall z, int64 z -> parse_int64 (print_int z) = Some z.
Proof. exact parse_print_int. Qed.

(* ---- documented defaults *)
Theorem C12_defaults :
  (forall v r, decode_proxy_poll v = Ok r -> absent "NAT" v -> pq_nat r = NAT_UNKNOWN) /\
  (forall v r, decode_proxy_poll v = Ok r -> known_type (fstr v "Type") = false -> pq_type r = PROXY_UNKNOWN) /\
  (forall v r, decode_proxy_poll v = Ok r -> known_type (fstr v "Type") = true -> pq_type r = fstr v "Type") /\
  (forall v r, decode_proxy_poll v = Ok r -> absent "AcceptedRelayPattern" v -> pq_aware r = false /\ pq_pattern r = []) /\
  (forall v r p, decode_proxy_poll v = Ok r -> fptr v "AcceptedRelayPattern" = Some p -> pq_aware r = true /\ pq_pattern r = p) /\
  (forall v o n u, decode_poll_response v = Ok (o, n, u) -> absent "NAT" v -> n = NAT_UNKNOWN) /\
  (forall v o n f, decode_client_poll_body v = Ok (o, n, f) -> absent "nat" v -> n = NAT_UNKNOWN) /\
  (forall v o n f, decode_client_poll_body v = Ok (o, n, f) -> absent "fingerprint" v -> f = DEFAULT_FINGERPRINT).
Proof. exact defaults. Qed.

(* ---- rejection: for EVERY JSON value, Err exactly for the protocol's reasons; accepted
   values decode to the message's fields *)
Theorem C12_reject_iff_proxy_poll : forall v,
  decode_proxy_poll v = Err <->
  ~ well_typed poll_req_schema v \/ before_dot (fstr v "Version") <> bs "1" \/ fstr v "Sid" = []
  \/ ~ valid_nat (fstr v "NAT").
Proof. exact reject_iff_proxy_poll. Qed.

Theorem C12_accept_proxy_poll : forall v r, decode_proxy_poll v = Ok r ->
  r = {| pq_sid := fstr v "Sid"; pq_type := norm_type (fstr v "Type"); pq_nat := nat_default (fstr v "NAT");
         pq_clients := fint v "Clients";
         pq_pattern := match fptr v "AcceptedRelayPattern" with Some p => p | None => [] end;
         pq_aware := match fptr v "AcceptedRelayPattern" with Some _ => true | None => false end |}.
Proof. exact accept_proxy_poll. Qed.

Theorem C12_reject_iff_proxy_poll_legacy : forall v,
  decode_proxy_poll_legacy v = Err <->
  decode_proxy_poll v = Err \/ exists r, decode_proxy_poll v = Ok r /\ pq_pattern r <> [].
Proof. exact legacy_proxy_poll. Qed.

Theorem C12_reject_iff_poll_response : forall v,
  decode_poll_response v = Err <->
  ~ well_typed poll_resp_schema v \/ fstr v "Status" = []
  \/ (fstr v "Status" = CLIENT_MATCH /\ fstr v "Offer" = [])
  \/ (fstr v "Status" <> CLIENT_MATCH /\ fstr v "Status" <> NO_MATCH).
Proof. exact reject_iff_poll_response. Qed.

Theorem C12_accept_poll_response : forall v r, decode_poll_response v = Ok r ->
  r = ((if beq (fstr v "Status") CLIENT_MATCH then fstr v "Offer" else []),
       nat_default (fstr v "NAT"), fstr v "RelayURL").
Proof. exact accept_poll_response. Qed.

Theorem C12_reject_iff_poll_response_legacy : forall v,
  decode_poll_response_legacy v = Err <->
  decode_poll_response v = Err \/ exists o n u, decode_poll_response v = Ok (o, n, u) /\ u <> [].
Proof. exact legacy_poll_response. Qed.

Theorem C12_reject_iff_answer_request : forall v,
  decode_answer_request v = Err <->
  ~ well_typed answer_req_schema v \/ before_dot (fstr v "Version") <> bs "1" \/ fstr v "Sid" = []
  \/ fstr v "Answer" = [].
Proof. exact reject_iff_answer_request. Qed.

Theorem C12_accept_answer_request : forall v r, decode_answer_request v = Ok r -> r = (fstr v "Answer", fstr v "Sid").
Proof. exact accept_answer_request. Qed.

Theorem C12_reject_iff_answer_response : forall v,
  decode_answer_response v = Err <-> ~ well_typed answer_resp_schema v \/ fstr v "Status" = [].
Proof. exact reject_iff_answer_response. Qed.

Theorem C12_accept_answer_response : forall v b, decode_answer_response v = Ok b ->
  (b = true <-> fstr v "Status" = SUCCESS).
Proof. exact accept_answer_response. Qed.

Theorem C12_reject_iff_client_poll_request : forall (parse : bytes -> option json) data,
  decode_client_poll parse data = Err <->
  ~ In 10 data
  \/ exists ver body, split_nl data = Some (ver, body) /\
       (ver <> CLIENT_VERSION \/ parse body = None \/
        exists v, parse body = Some v /\
          (~ well_typed client_req_schema v \/ fstr v "offer" = []
           \/ ~ fingerprint_valid (fp_default (fstr v "fingerprint")) \/ ~ valid_nat (fstr v "nat"))).
Proof.
  intros parse data. rewrite reject_iff_client_poll. split.
  - intros [H|(ver & body & S & [H|[H|(v & P & E)]])]; [left; assumption | right; exists ver, body; split; [assumption|]..].
    + left; assumption.
    + right; left; assumption.
    + right; right. exists v. split; [assumption|]. apply reject_iff_client_poll_body. assumption.
  - intros [H|(ver & body & S & [H|[H|(v & P & E)]])]; [left; assumption | right; exists ver, body; split; [assumption|]..].
    + left; assumption.
    + right; left; assumption.
    + right; right. exists v. split; [assumption|]. apply reject_iff_client_poll_body. assumption.
Qed.

Theorem C12_split_version_line : forall l a b, split_nl l = Some (a, b) -> l = a ++ 10 :: b /\ ~ In 10 a.
Proof. exact split_nl_some. Qed.

Theorem C12_accept_client_poll_request : forall (parse : bytes -> option json) data r,
  decode_client_poll parse data = Ok r ->
  exists body v, data = CLIENT_VERSION ++ 10 :: body /\ parse body = Some v /\
    r = (fstr v "offer", nat_default (fstr v "nat"), fp_default (fstr v "fingerprint")).
Proof.
  intros parse data r H. destruct (client_poll_accept parse data r H) as (body & v & D & P & E).
  exists body, v. split; [assumption|]. split; [assumption|]. apply accept_client_poll_body. assumption.
Qed.

Theorem C12_reject_iff_client_poll_response : forall v,
  decode_client_response v = Err <->
  ~ well_typed client_resp_schema v \/ (fstr v "answer" = [] /\ fstr v "error" = []).
Proof. exact reject_iff_client_response. Qed.

Theorem C12_accept_client_poll_response : forall v r, decode_client_response v = Ok r -> r = (fstr v "answer", fstr v "error").
Proof. exact accept_client_response. Qed.

(* every decoder over bytes: Err iff the library refuses the bytes or the value is rejected *)
Theorem C12_reject_iff_bytes : forall (parse : bytes -> option json) (A : Type) (d : json -> result A) data,
  opt_decode d (parse data) = Err <-> parse data = None \/ exists v, parse data = Some v /\ d v = Err.
Proof. exact reject_iff_bytes. Qed.

(* ---- "return an error, never a panic".  Model/MessagesPanic.v: the decoders at the granularity at which
   the Go code can panic - parts[0] / parts[1] after bytes.SplitN, strings.Split(v, ".")[0], the dereference
   *message.AcceptedRelayPattern, (and reading a struct field at its static type, a model artefact) are steps
   that yield [DPanic]; [CODE] = the two checks as written, [GO] = executable models of the two library calls
   (tied to the real ones by the ops vsplit / nsplit).  For EVERY byte string, through the library parser
   (None = not one valid JSON text), none of the eight exported decoders reaches DPanic.
   encoding/json's own panic freedom is observed on every case, not proved. *)
Theorem C12_decoders_never_panic : forall (parse : bytes -> option json) (data : bytes) (w : dwhy),
  opt_decode_g decode_proxy_poll_code (parse data) <> DPanic w                 (* DecodeProxyPollRequestWithRelayPrefix *)
  /\ opt_decode_g decode_proxy_poll_legacy_code (parse data) <> DPanic w       (* DecodeProxyPollRequest *)
  /\ opt_decode_g decode_poll_response_g (parse data) <> DPanic w              (* DecodePollResponseWithRelayURL *)
  /\ opt_decode_g decode_poll_response_legacy_g (parse data) <> DPanic w       (* DecodePollResponse *)
  /\ opt_decode_g decode_answer_request_code (parse data) <> DPanic w          (* DecodeAnswerRequest *)
  /\ opt_decode_g decode_answer_response_g (parse data) <> DPanic w            (* DecodeAnswerResponse *)
  /\ decode_client_poll_code parse data <> DPanic w                            (* DecodeClientPollRequest *)
  /\ opt_decode_g decode_client_response_g (parse data) <> DPanic w.           (* DecodeClientPollResponse *)
Proof. exact decoders_never_panic. Qed.

(* the same for any library whose Split returns at least one element (all the code needs of strings.Split;
   of bytes.SplitN it needs nothing: `len(parts) < 2` covers every slice) *)
Theorem C12_decoders_never_panic_any_library : forall (L : libs), (forall s, l_split L s <> []) ->
  forall (parse : bytes -> option json) (data : bytes), never_panics L parse data.
Proof. exact decoders_never_panic_lib. Qed.

Example C12_any_library_nonvacuous : (forall s, l_split GO s <> []) /\ (forall s, l_split (mkLibs (fun s => [s]) (fun _ => [])) s <> []).
Proof. split; [exact GO_split_ok | intros s; discriminate]. Qed.

(* the executable models of the two library calls are the library's specification *)
Theorem C12_split_spec : forall s : bytes,
  nth_error (split_dot s) 0 = Some (before_dot s)
  /\ List.length (split_dot s) = S (count_dots s)
  /\ join [46] (split_dot s) = s
  /\ Forall (fun p => ~ In 46 p) (split_dot s).
Proof. intros s. split; [apply split_dot_head | apply split_dot_spec]. Qed.

Theorem C12_splitn_spec : forall data : bytes,
  (splitn_nl data = [data] /\ ~ In 10 data)
  \/ exists a b, splitn_nl data = [a; b] /\ data = a ++ 10 :: b /\ ~ In 10 a.
Proof. exact splitn_nl_spec. Qed.

(* refinement: the fine decoders return exactly what the decoders of Model/Messages.v return, so every
   theorem above (round trips, defaults, reject_iff, accept) is a theorem about them *)
Theorem C12_decoders_refine : forall (parse : bytes -> option json) (data : bytes),
  opt_decode_g decode_proxy_poll_code (parse data) = DVal (opt_decode decode_proxy_poll (parse data))
  /\ opt_decode_g decode_proxy_poll_legacy_code (parse data) = DVal (opt_decode decode_proxy_poll_legacy (parse data))
  /\ opt_decode_g decode_poll_response_g (parse data) = DVal (opt_decode decode_poll_response (parse data))
  /\ opt_decode_g decode_poll_response_legacy_g (parse data) = DVal (opt_decode decode_poll_response_legacy (parse data))
  /\ opt_decode_g decode_answer_request_code (parse data) = DVal (opt_decode decode_answer_request (parse data))
  /\ opt_decode_g decode_answer_response_g (parse data) = DVal (opt_decode decode_answer_response (parse data))
  /\ decode_client_poll_code parse data = DVal (decode_client_poll parse data)
  /\ opt_decode_g decode_client_response_g (parse data) = DVal (opt_decode decode_client_response (parse data)).
Proof. exact decoders_refine. Qed.

Theorem C12_decoders_refine_values :
  (forall v, decode_proxy_poll_code v = DVal (decode_proxy_poll v))
  /\ (forall v, decode_proxy_poll_legacy_code v = DVal (decode_proxy_poll_legacy v))
  /\ (forall v, decode_poll_response_g v = DVal (decode_poll_response v))
  /\ (forall v, decode_poll_response_legacy_g v = DVal (decode_poll_response_legacy v))
  /\ (forall v, decode_answer_request_code v = DVal (decode_answer_request v))
  /\ (forall v, decode_answer_response_g v = DVal (decode_answer_response v))
  /\ (forall v, decode_client_poll_body_g v = DVal (decode_client_poll_body v))
  /\ (forall v, decode_client_response_g v = DVal (decode_client_response v)).
Proof.
  repeat split; [apply proxy_poll_refines | apply proxy_poll_legacy_refines | apply poll_response_refines
                | apply poll_response_legacy_refines | apply answer_request_refines | apply answer_response_refines
                | apply client_poll_body_refines | apply client_response_refines].
Qed.

(* each check the code makes is the reason its step is safe: without it there is an input on which the
   function panics, which the code as written answers with an error / a value *)
Theorem C12_len_guard_needed : forall parse : bytes -> option json,
  decode_client_poll_g (mkGuards false true) GO parse (bs "1.0") = DPanic WIndex
  /\ decode_client_poll_code parse (bs "1.0") = DVal Err.
Proof. exact len_guard_needed. Qed.

Theorem C12_nil_guard_needed :
  let v := JObj [(bs "Sid", JStr (bs "x")); (bs "Version", JStr (bs "1.2"))] in
  decode_proxy_poll_g (mkGuards true false) GO v = DPanic WNilDeref
  /\ decode_proxy_poll_code v =
     DVal (Ok {| pq_sid := bs "x"; pq_type := bs "unknown"; pq_nat := bs "unknown"; pq_clients := 0%Z;
                 pq_pattern := []; pq_aware := false |}).
Proof. exact nil_guard_needed. Qed.

(* strings.Split(message.Version, ".")[0] has no check: it rests on the library (C12_split_spec); and
   `len(parts) < 2` is enough even for a SplitN that returned an empty slice *)
Theorem C12_split_contract_needed :
  let L := mkLibs (fun _ => []) splitn_nl in
  decode_proxy_poll_g CODE L (JObj [(bs "Sid", JStr (bs "x")); (bs "Version", JStr (bs "1.2"))]) = DPanic WIndex
  /\ decode_answer_request_g L (JObj []) = DPanic WIndex.
Proof. exact split_contract_needed. Qed.

Theorem C12_len_guard_suffices :
  decode_client_poll_g CODE (mkLibs split_dot (fun _ => [])) (fun _ => None) [] = DVal Err
  /\ decode_client_poll_g (mkGuards false true) (mkLibs split_dot (fun _ => [])) (fun _ => None) [] = DPanic WIndex.
Proof. exact len_guard_suffices. Qed.

(* encoders: the only partial operation is the pointer receiver of EncodeClientPollRequest (every call site
   in the repository passes the address of a struct literal); EncodePollResponse on a nil receiver marshals null *)
Theorem C12_encoders_never_panic :
  (forall offer nat fp, encode_client_poll_g (Some (offer, nat, fp)) = DVal (Ok (encode_client_poll offer nat fp)))
  /\ (forall resp w, encode_client_response_g resp <> DPanic w).
Proof. split; [exact encode_client_poll_safe | intros resp w; apply not_panic; apply encode_client_response_safe]. Qed.

Theorem C12_encode_nil_receiver :
  encode_client_poll_g None = DPanic WNilDeref /\ encode_client_response_g None = DVal (Ok JNull).
Proof. exact encode_nil_receiver. Qed.

(* ---- non-vacuity *)
Definition ex_poll : json :=
  JObj [(bs "Sid", JStr (bs "x")); (bs "version", JStr (bs "1.3")); (bs "Sid", JNull); (bs "clients", JNum (bs "8"))].

Example ex_poll_accepted :
  decode_proxy_poll ex_poll =
  Ok {| pq_sid := bs "x"; pq_type := bs "unknown"; pq_nat := bs "unknown"; pq_clients := 8%Z; pq_pattern := []; pq_aware := false |}.
Proof. vm_compute. reflexivity. Qed.
Example ex_poll_defaults_hyps : absent "NAT" ex_poll /\ absent "AcceptedRelayPattern" ex_poll /\ known_type (fstr ex_poll "Type") = false.
Proof.
  repeat split; try (intros key x [H|[H|[H|[H|[]]]]]; injection H as <- <-; vm_compute; discriminate).
Qed.
Example ex_poll_pattern :
  let v := JObj [(bs "Sid", JStr (bs "x")); (bs "Version", JStr (bs "1")); (bs "acceptedrelaypattern", JStr (bs "^a$"))] in
  fptr v "AcceptedRelayPattern" = Some (bs "^a$") /\ exists r, decode_proxy_poll v = Ok r.
Proof. split; [vm_compute; reflexivity | eexists; vm_compute; reflexivity]. Qed.
Example ex_poll_response_no_nat :
  let v := JObj [(bs "Status", JStr (bs "client match")); (bs "Offer", JStr (bs "o"))] in
  absent "NAT" v /\ decode_poll_response v = Ok (bs "o", bs "unknown", []).
Proof.
  split; [|vm_compute; reflexivity].
  intros key x [H|[H|[]]]; injection H as <- <-; vm_compute; discriminate.
Qed.
Example ex_client_body_defaults :
  let v := JObj [(bs "offer", JStr (bs "o"))] in
  absent "nat" v /\ absent "fingerprint" v /\ decode_client_poll_body v = Ok (bs "o", bs "unknown", DEFAULT_FINGERPRINT).
Proof.
  repeat split; try (intros key x [H|[]]; injection H as <- <-; vm_compute; discriminate).
Qed.
Example ex_poll_rejected : decode_proxy_poll (JObj [(bs "Sid", JStr (bs "x")); (bs "Version", JStr (bs "10.0"))]) = Err.
Proof. vm_compute. reflexivity. Qed.
Example ex_roundtrip_hyps : bs "sid" <> [] /\ valid_nat (bs "restricted") /\ int64 (-9223372036854775808)%Z
  /\ fingerprint_valid (fp_default []) /\ (bs "a" <> [] \/ (@nil N) <> []).
Proof.
  repeat split; try discriminate.
  - right; right; left; reflexivity.
  - apply fingerprint_ok_iff. vm_compute. reflexivity.
  - left. discriminate.
Qed.
Example ex_client_poll :
  decode_client_poll (fun _ => Some (JObj [(bs "offer", JStr (bs "o")); (bs "fingerprint", JStr (bs "00"))])) (bs "1.0" ++ 10 :: bs "{}") = Err
  /\ decode_client_poll (fun _ => Some (JObj [(bs "offer", JStr (bs "o"))])) (bs "1.0" ++ 10 :: bs "{}")
     = Ok (bs "o", bs "unknown", DEFAULT_FINGERPRINT).
Proof. split; vm_compute; reflexivity. Qed.
Example ex_nodup : nodup_folds poll_req_schema /\ nodup_folds poll_resp_schema /\ nodup_folds answer_req_schema
  /\ nodup_folds answer_resp_schema /\ nodup_folds client_req_schema /\ nodup_folds client_resp_schema.
Proof.
  repeat split; [apply nodup_poll_req | apply nodup_poll_resp | apply nodup_answer_req | apply nodup_answer_resp
                | apply nodup_client_req | apply nodup_client_resp].
Qed.
