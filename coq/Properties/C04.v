(* C04 — Every broker request completes in bounded time; no ghost proxies.
   Over Model/Broker.v (see Properties/C02.v). Time is abstracted: a timer may fire at any step after
   it was armed (and in the implementation fires at the latest 10 s after); "bounded time" becomes
   "bounded number of the request's own steps, each of them enabled". Version V1 is the code after the
   fix "broker requests could block forever around the proxy and client timeouts"; V0 is the pinned code. *)
From Coq Require Import List NArith ZArith Bool Arith.
From Snow Require Import Model.Broker Proofs.BrokerProofs Proofs.BrokerSteps Proofs.BrokerThms Proofs.BrokerBounds Proofs.BrokerLate.
Import ListNotations.
Open Scope N_scope.

(* Progress: in every reachable state of the repaired broker every pending request (poll handler or its
   waiter, the matched client, an answer request in flight) has an enabled step of its own. *)
Theorem C04_progress : forall br s p e,
  reachable V1 br s -> nth_error (entries s) p = Some e -> entry_pending e = true ->
  exists l, internal l = true /\ target l = Some p /\ step V1 s l <> None.
Proof. exact progress_v1. Qed.

(* Boundedness of the whole system when arrivals stop: every step of the broker's own threads consumes budget; a run
   without new arrivals has at most [budget s] steps (at most 9 per registered poll plus one per pending answer
   request). (The per-request bounds that hold WITH arrivals follow below.) *)
Theorem C04_step_consumes_budget : forall s l s',
  internal l = true -> step V1 s l = Some s' -> (budget s' < budget s)%nat.
Proof. exact internal_step_decreases. Qed.

Theorem C04_bounded_completion : forall br ls s s',
  reachable V1 br s -> forallb internal ls = true -> run V1 s ls = Some s' ->
  (length ls + budget s' <= budget s)%nat.
Proof. exact bounded_completion. Qed.

(* ---- per request, under continued arrivals ("at any level of concurrency"). The run [ls] below is ARBITRARY: new
   proxy polls, client polls, answers and bridge-list installations may arrive at any point, other requests may take
   any number of steps. [count_own lab p ls] counts the steps of ls that belong to the request itself: [w_label] the
   steps of poll p's handler and waiter (timer fires, select commits to the timer, timeout critical section, receive
   the offer, forward it), [c_label] those of the client held by entry p (hand the offer over, timer fires, select
   commits, take the answer, cleanup), [a_label] the sends of the answer handlers queued on entry p.
   [pm s p] / [cmm s p] = own steps the poll / the client of entry p still has to take (5 / 4 when not yet arrived). ---- *)

(* a proxy poll takes at most 5 steps of its own before its handler has returned its response ... *)
Theorem C04_per_request_step_bound : forall br ls s s' p,
  reachable V1 br s -> run V1 s ls = Some s' ->
  (count_own w_label p ls + pm s' p <= pm s p)%nat /\ (pm s p <= 5)%nat.
Proof. exact poll_step_bound. Qed.

Theorem C04_poll_done_iff : forall s p e, nth_error (entries s) p = Some e -> e_w e <> W_Stuck ->
  (pm s p = 0%nat <-> exists r, e_w e = W_Done r).
Proof. exact poll_done_iff. Qed.

(* ... a client poll at most 4 ... *)
Theorem C04_per_client_step_bound : forall br ls s s' p,
  reachable V1 br s -> run V1 s ls = Some s' ->
  (count_own c_label p ls + cmm s' p <= cmm s p)%nat /\ (cmm s p <= 4)%nat.
Proof. exact client_step_bound. Qed.

Theorem C04_client_done_iff : forall s p e c, nth_error (entries s) p = Some e -> e_cl e = Some c ->
  (cmm s p = 0%nat <-> exists r, c_pc c = C_Done r).
Proof. exact client_done_iff. Qed.

(* ... and an answer request whose session id resolved to entry p, k-th in the queue of sends on that entry, is still
   queued at place k - n after n <= k of those sends, whatever else happens: its own (never blocking) send is the
   (k+1)-th; a send completes the request at the head. (k = number of answer requests for the same poll that were
   looked up before it and have not completed: 0 unless a proxy posts several answers at once.) *)
Theorem C04_per_answer_step_bound : forall ls s s' p k x,
  run V1 s ls = Some s' -> nth_error (senders_at s p) k = Some x -> (count_own a_label p ls <= k)%nat ->
  nth_error (senders_at s' p) (k - count_own a_label p ls) = Some x.
Proof. exact answer_step_bound. Qed.

Theorem C04_answer_served_by_send : forall s p s', step V1 s (L_AnswerPut p) = Some s' ->
  exists e aid a rest ok, nth_error (entries s) p = Some e /\ e_senders e = (aid, a) :: rest /\
    done_answers s' = (aid, e_sid e, a, ok) :: done_answers s /\ senders_at s' p = rest.
Proof. exact answer_served_by_send. Qed.

(* No request can be blocked by what others hold: in every reachable state (1) a poll whose handler has not returned
   has an enabled step of its own; (2) a client poll that has not returned has an enabled step of its own, or waits
   only for the waiter of its poll to leave the timeout critical section - that step is enabled, and it enables the
   hand-over of the offer; (3) the head of the queued answer sends is enabled (the others wait only for it). Timer
   steps count as enabled: a Go timer fires at the latest 10 s after it was armed. *)
Theorem C04_no_request_blocked : forall br s p e,
  reachable V1 br s -> nth_error (entries s) p = Some e ->
  ((forall r, e_w e <> W_Done r) -> exists l, w_label l = Some p /\ step V1 s l <> None) /\
  (forall c, e_cl e = Some c -> (forall r, c_pc c <> C_Done r) ->
     (exists l, c_label l = Some p /\ step V1 s l <> None) \/
     (c_pc c = C_Send /\ e_w e = W_TimedOut /\
      exists s1, step V1 s (L_WTimeoutCS p) = Some s1 /\ step V1 s1 (L_RvOffer p) <> None)) /\
  (e_senders e <> [] -> step V1 s (L_AnswerPut p) <> None).
Proof. exact no_request_blocked. Qed.

(* ---- repeated session ids. Nothing above assumes that the session ids of the polls are distinct: [reachable]
   ranges over label sequences with ANY sids, so every theorem of this file covers a proxy that POSTs the same poll
   again while its earlier one is pending, matched, or just answered. What the code does with such a poll, explicitly:
   AddSnowflake always creates a NEW record with its own waiter (5 own steps to go, C04_per_request_step_bound applies
   to it); the records registered before - also the one under the same id - are untouched; only the id map now
   resolves the id to the new poll (and the waiter / client that deregisters first removes the binding whichever
   record it points to: C04_quiescent_clean holds all the same). ---- *)
Theorem C04_repeated_sid_registers_anew : forall v s sd n pt cl,
  exists s', step v s (L_Poll sd n pt cl) = Some s' /\
    entries s' = entries s ++ [new_entry sd n pt cl] /\
    lookup sd (idmap s') = Some (length (entries s)) /\
    (forall p e, nth_error (entries s) p = Some e -> nth_error (entries s') p = Some e) /\
    pm s' (length (entries s)) = 5%nat.
Proof. exact poll_always_registers. Qed.

(* non-vacuity: the same sid polled three times (while pending); a client is handed the first; the answer posted
   under the shared id resolves to the newest poll and waits there; the first poll's client times out, the other two
   polls expire: every request completes (each poll in at most 5 own steps), nothing is left behind. *)
Example C04_repeated_sid_example :
  let ls := [L_Poll 1 NatUnrestricted 1 0; L_Poll 1 NatUnrestricted 1 0; L_Poll 1 NatUnrestricted 1 0;
             L_Client NatRestricted (Some 7) 100 (Some 0%nat); L_RvOffer 0; L_RvForward 0;
             L_Answer 1 500; L_AnswerPut 2;
             L_FireW 1; L_WTake 1; L_WTimeoutCS 1; L_FireW 2; L_WTake 2; L_WTimeoutCS 2;
             L_FireC 0; L_CTake 0; L_CCleanup 0] in
  exists s, run V1 (init [(7, 9)]) ls = Some s /\ quiescent s = true /\ idmap s = [] /\ gauge s = 0%Z /\
    count_own w_label 1 ls = 3%nat /\ count_own w_label 2 ls = 3%nat /\
    pm s 0 = 0%nat /\ pm s 1 = 0%nat /\ pm s 2 = 0%nat /\ cmm s 0 = 0%nat /\
    map (fun '(_, sd, a, ok) => (sd, a, ok)) (done_answers s) = [(1, 500, true)].
Proof. eexists. vm_compute. repeat split. Qed.

(* non-vacuity: poll 0 and its client complete in 5 resp. 3 (at most 4: the answer came before the timer) own steps while two more polls, another client, an
   answer and a re-installation of the bridge list arrive in between; the state (2) of C04_no_request_blocked (client
   popped the entry between the waiter's select and its critical section) occurs on the way. *)
Example C04_per_request_example :
  let ls := [L_FireW 0; L_Poll 2 NatRestricted 1 0; L_WTake 0; L_Client NatRestricted (Some 7) 100 (Some 0%nat);
             L_Install [(7, 9); (8, 10)]; L_WTimeoutCS 0; L_Poll 3 NatUnrestricted 1 0; L_RvOffer 0;
             L_Client NatUnrestricted (Some 8) 101 (Some 1%nat); L_RvForward 0; L_Answer 1 500; L_AnswerPut 0;
             L_CTakeAnswer 0; L_CCleanup 0] in
  exists s0 s, run V1 (init [(7, 9)]) [L_Poll 1 NatUnrestricted 1 0] = Some s0 /\ run V1 s0 ls = Some s /\
    pm s0 0 = 5%nat /\ cmm s0 0 = 4%nat /\ count_own w_label 0 ls = 5%nat /\ count_own c_label 0 ls = 3%nat /\
    pm s 0 = 0%nat /\ cmm s 0 = 0%nat /\ quiescent s = false.
Proof. eexists. eexists. vm_compute. repeat split. Qed.

(* ... and such a run can only stop when nothing is pending any more. *)
Theorem C04_stops_only_when_quiescent : forall br s,
  reachable V1 br s -> (forall l, internal l = true -> step V1 s l = None) -> quiescent s = true.
Proof. exact stuck_only_when_quiescent. Qed.

(* Once all requests have completed nothing is left behind: the id map is empty, no entry is in a heap,
   the available-proxies gauge is zero, no entry is eligible for any client ... *)
Theorem C04_quiescent_clean : forall v br s, reachable v br s -> quiescent s = true ->
  idmap s = [] /\ count_inheap s = 0%nat /\ gauge s = 0%Z /\
  (forall n e, In e (entries s) -> eligible n e = false).
Proof. exact quiescent_clean. Qed.

(* ... so a fresh client (naming a known bridge) is told there are no proxies. *)
Theorem C04_fresh_client_refused : forall v br s n ofp o ch s',
  reachable v br s -> quiescent s = true -> lookup (fp_of ofp) (bridges s) <> None ->
  step v s (L_Client n ofp o ch) = Some s' ->
  ch = None /\ done_clients s' = (next_cid s, n, fp_of ofp, o, CNoProxies) :: done_clients s.
Proof. exact fresh_client_refused. Qed.

(* The pinned protocol violated the property: after the schedule "poll; its timer fires and the waiter
   commits to the timeout; a client pops the entry; the waiter's critical section finds index = -1" the
   client poll and the proxy poll stay blocked along EVERY continuation ... *)
Theorem C04_v0_refuted_timeout_match :
  exists s, run V0 (init [(7, 9)]) f1_trace = Some s /\
    forall ls s', run V0 s ls = Some s' ->
      exists e c, nth_error (entries s') 0 = Some e /\ e_w e = W_Stuck /\ e_cl e = Some c /\ c_pc c = C_Send
                  /\ entry_pending e = true /\ quiescent s' = false.
Proof. exact v0_timeout_match_blocks_forever. Qed.

(* ... and an answer posted for a registered but unmatched poll that then expires blocks its request forever. *)
Theorem C04_v0_refuted_answer :
  exists s, run V0 (init [(7, 9)]) f2_trace = Some s /\
    forall ls s', run V0 s ls = Some s' ->
      exists e, nth_error (entries s') 0 = Some e /\ e_senders e <> [] /\ quiescent s' = false.
Proof. exact v0_answer_blocks_forever. Qed.

(* The same schedules complete under the repaired protocol (non-vacuity of the V1 theorems). *)
Example C04_v1_same_schedules_complete :
  (exists s, run V1 (init [(7, 9)])
     (f1_trace ++ [L_RvOffer 0; L_RvForward 0; L_FireC 0; L_CTake 0; L_CCleanup 0]) = Some s /\ quiescent s = true) /\
  (exists s, run V1 (init [(7, 9)]) (f2_trace ++ [L_AnswerPut 0]) = Some s /\ quiescent s = true).
Proof. split; [exact v1_timeout_match_completes | exact v1_answer_completes]. Qed.
