(* C04 — Every broker request completes in bounded time; no ghost proxies.
   Over Model/Broker.v (see Properties/C02.v). Time is abstracted: a timer may fire at any step after
   it was armed (and in the implementation fires at the latest 10 s after); "bounded time" becomes
   "bounded number of the request's own steps, each of them enabled". Version V1 is the code after the
   fix "broker requests could block forever around the proxy and client timeouts"; V0 is the pinned code. *)
From Coq Require Import List NArith ZArith Bool Arith.
From Snow Require Import Model.Broker Proofs.BrokerProofs Proofs.BrokerSteps Proofs.BrokerThms.
Import ListNotations.
Open Scope N_scope.

(* Progress: in every reachable state of the repaired broker every pending request (poll handler or its
   waiter, the matched client, an answer request in flight) has an enabled step of its own. *)
Theorem C04_progress : forall br s p e,
  reachable V1 br s -> nth_error (entries s) p = Some e -> entry_pending e = true ->
  exists l, internal l = true /\ target l = Some p /\ step V1 s l <> None.
Proof. exact progress_v1. Qed.

(* Boundedness: every step of the broker's own threads consumes budget; a run without new arrivals has
   at most [budget s] steps (at most 9 per registered poll plus one per pending answer request). *)
Theorem C04_step_consumes_budget : forall s l s',
  internal l = true -> step V1 s l = Some s' -> (budget s' < budget s)%nat.
Proof. exact internal_step_decreases. Qed.

Theorem C04_bounded_completion : forall br ls s s',
  reachable V1 br s -> forallb internal ls = true -> run V1 s ls = Some s' ->
  (length ls + budget s' <= budget s)%nat.
Proof. exact bounded_completion. Qed.

(* ... and such a run can only stop when nothing is pending any more. *)
Theorem C04_stops_only_when_quiescent : forall br s,
  reachable V1 br s -> (forall l, internal l = true -> step V1 s l = None) -> quiescent s = true.
Proof. exact stuck_only_when_quiescent. Qed.

(* Once all requests have completed nothing is left behind: the id map is empty, no entry is in a heap,
   the available-proxies gauge is zero, no entry is eligible for any client ... *)
Theorem C04_quiescent_clean : forall v br s, reachable v br s -> quiescent s = true ->
  idmap s = [] /\ count_inheap s = 0%nat /\ gauge s = 0%Z /\
  (forall n e, In e (entries s) -> eligible n e = false).
Proof. exact quiescent_clean. Qed.

(* ... so a fresh client (naming a known bridge) is told there are no proxies. *)
Theorem C04_fresh_client_refused : forall v br s n ofp o ch s',
  reachable v br s -> quiescent s = true -> lookup (fp_of ofp) (bridges s) <> None ->
  step v s (L_Client n ofp o ch) = Some s' ->
  ch = None /\ done_clients s' = (next_cid s, n, fp_of ofp, o, CNoProxies) :: done_clients s.
Proof. exact fresh_client_refused. Qed.

(* The pinned protocol violated the property: after the schedule "poll; its timer fires and the waiter
   commits to the timeout; a client pops the entry; the waiter's critical section finds index = -1" the
   client poll and the proxy poll stay blocked along EVERY continuation ... *)
Theorem C04_v0_refuted_timeout_match :
  exists s, run V0 (init [(7, 9)]) f1_trace = Some s /\
    forall ls s', run V0 s ls = Some s' ->
      exists e c, nth_error (entries s') 0 = Some e /\ e_w e = W_Stuck /\ e_cl e = Some c /\ c_pc c = C_Send
                  /\ entry_pending e = true /\ quiescent s' = false.
Proof. exact v0_timeout_match_blocks_forever. Qed.

(* ... and an answer posted for a registered but unmatched poll that then expires blocks its request forever. *)
Theorem C04_v0_refuted_answer :
  exists s, run V0 (init [(7, 9)]) f2_trace = Some s /\
    forall ls s', run V0 s ls = Some s' ->
      exists e, nth_error (entries s') 0 = Some e /\ e_senders e <> [] /\ quiescent s' = false.
Proof. exact v0_answer_blocks_forever. Qed.

(* The same schedules complete under the repaired protocol (non-vacuity of the V1 theorems). *)
Example C04_v1_same_schedules_complete :
  (exists s, run V1 (init [(7, 9)])
     (f1_trace ++ [L_RvOffer 0; L_RvForward 0; L_FireC 0; L_CTake 0; L_CCleanup 0]) = Some s /\ quiescent s = true) /\
  (exists s, run V1 (init [(7, 9)]) (f2_trace ++ [L_AnswerPut 0]) = Some s /\ quiescent s = true).
Proof. split; [exact v1_timeout_match_completes | exact v1_answer_completes]. Qed.
