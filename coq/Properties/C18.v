(* C18 — the bridge is told the right client address or none; the ClientID -> address memory is
   bounded.  Statements only; proofs are in Proofs/ClientIdProofs.v and Proofs/ServerAcceptProofs.v.
   Models: Model/ClientIdRing.v (clientIDMap of server/lib/turbotunnel.go), Model/ClientAddr.v
   (clientAddr of server/lib/http.go after net.ParseIP), Model/ServerCarrier.v (turbotunnelMode's Set,
   acceptStreams' Get, handleConn's RemoteAddr().String()), Model/ServerAccept.v (acceptSessions' loop and
   the per-session goroutines as an interleaving machine: accept, goroutine start, stream). *)
From Coq Require Import List NArith Bool Arith.
From Snow Require Import Lib.Wire Model.ClientIdRing Model.ClientAddr Model.ServerCarrier Model.ServerAccept
                         Proofs.ClientIdProofs Proofs.ServerAcceptProofs.
From Snow Require Import Model.ProxyClientIP Proofs.ProxyClientIPProofs.
Import ListNotations.
Open Scope nat_scope.

(* For every capacity (0 included) and every history of Set/Get calls: Get answers with the address of
   the most recent Set for that id among the last cap Sets, and with "not present" otherwise. *)
Theorem C18_ring_refines_window : forall (A : Type) (nilA : A) (cap : nat) (ops : list (op A)) (k : N),
  get A nilA (exec A nilA (new A nilA cap) ops) k = spec_get A cap (sets_rev A ops) k.
Proof. exact ring_refines_window. Qed.

(* the same for every Get made along the way *)
Theorem C18_ring_trace_refines_window : forall (A : Type) (nilA : A) (cap : nat) (ops : list (op A)),
  outputs A nilA (new A nilA cap) ops = spec_outputs A cap [] ops.
Proof. exact ring_trace_refines_window. Qed.

(* bounded memory: always exactly cap slots, at most cap ids (each once) in the lookup map, and the
   index oldest stays inside the slots *)
Theorem C18_bounded : forall (A : Type) (nilA : A) (cap : nat) (ops : list (op A)),
  let r := exec A nilA (new A nilA cap) ops in
  length (entries r) = cap /\ length (current r) <= cap /\ NoDup (map fst (current r)) /\
  (cap <> 0 -> oldest r < cap).
Proof. exact ring_bounded. Qed.

(* every index kept in the lookup map points inside the slots (so Get and Set never index out of range;
   in the model: the defaults of nth are never what is read) *)
Theorem C18_indices_in_range : forall (A : Type) (nilA : A) (cap : nat) (ops : list (op A)) (k : N) (i : nat),
  cur_get k (current (exec A nilA (new A nilA cap) ops)) = Some i ->
  i < length (entries (exec A nilA (new A nilA cap) ops)).
Proof. exact ring_indices_in_range. Qed.

Example C18_indices_hyp_satisfiable :
  cur_get 7%N (current (exec nat 0 (new nat 0 2) [OSet 7%N 1; OSet 8%N 2; OSet 7%N 3])) = Some 0.
Proof. reflexivity. Qed.

(* capacity 0: Set is a no-op (no division by zero), nothing is ever remembered *)
Theorem C18_cap0 : forall (A : Type) (nilA : A) (ops : list (op A)) (k : N),
  exec A nilA (new A nilA 0) ops = new A nilA 0 /\ get A nilA (exec A nilA (new A nilA 0) ops) k = None.
Proof. exact ring_cap0. Qed.

(* the sanitiser: empty exactly for an absent, unparsable or unspecified (0.0.0.0 / ::) address,
   otherwise the address itself joined with the stub port 1 *)
Theorem C18_sanitise : forall p : param,
  (sanitise p = [] <-> p = Absent \/ p = Unparsable \/ exists ip, p = Parsed ip /\ (ip = v4zero \/ ip = zero16)) /\
  (forall ip, p = Parsed ip -> ip <> v4zero -> ip <> zero16 ->
     sanitise p = join_host_port (ip_string ip) stub_port /\
     exists pre, sanitise p = pre ++ [COLON; 49%N]).
Proof. exact sanitise_spec. Qed.

Example C18_sanitise_hyps_satisfiable :
  let ip := (repeat 0 10 ++ [255; 255; 1; 2; 3; 4])%N in
  ip <> v4zero /\ ip <> zero16 /\ sanitise (Parsed ip) = [49; 46; 50; 46; 51; 46; 52; 58; 49]%N.   (* "1.2.3.4:1" *)
Proof. repeat split; try discriminate. Qed.

(* For every capacity and every interleaving pre of carriers and session starts: a session for cid
   established after pre is given the sanitised client_ip of the most recent carrier that presented
   cid among the last cap carriers, and the empty address if there is none. *)
Theorem C18_attribution : forall (cap : nat) (pre : list event) (cid : N),
  accept (state_after cap pre) cid = spec_attr cap (carriers_rev pre) cid.
Proof. exact attribution_spec. Qed.

(* ... and that value is what the listener hands out for the corresponding Accept event *)
Theorem C18_run_nth : forall (cap : nat) (pre : list event) (cid : N) (post : list event) (dflt : addr),
  nth (length (run cap pre)) (run cap (pre ++ Accept cid :: post)) dflt = accept (state_after cap pre) cid.
Proof. exact run_nth. Qed.

Theorem C18_run_is_spec : forall (cap : nat) (evs : list event), run cap evs = spec_attributions cap [] evs.
Proof. exact run_is_spec. Qed.

(* ---- carrier END events.  A history may say at any point that the k-th carrier has ended (HEnd k): before or after
   a session of its ClientID is established, with other carriers of the same ClientID (same or different client_ip)
   still open or not.  On this tree a carrier's end does not touch the map, so: every connection the listener hands
   out carries the address it would carry in the history without the end events (and with them everything above:
   C18_attribution, C18_conns_carry_session_address, C18_never_foreign apply to strip_ends hevs) ... *)
Theorem C18_carrier_end_changes_nothing : forall (cap : nat) (hevs : list hevent),
  run_conns_h cap hevs = run_conns cap (strip_ends hevs).
Proof. exact run_conns_h_strip. Qed.

(* ... the session established after a history with end events gets the address of the most recent carrier that
   presented its ClientID among the last cap carriers STARTED, whichever of them have ended meanwhile ... *)
Theorem C18_attribution_with_ends : forall (cap : nat) (pre : list hevent) (cid : N),
  accept (hstate_after cap pre) cid = spec_attr cap (carriers_rev (strip_ends pre)) cid.
Proof. intros. rewrite hstate_after_strip. apply attribution_spec. Qed.

(* ... and two histories that differ only in where (and whether) carriers end give the same addresses *)
Theorem C18_ends_anywhere : forall (cap : nat) (h1 h2 : list hevent),
  strip_ends h1 = strip_ends h2 -> run_conns_h cap h1 = run_conns_h cap h2.
Proof. exact ends_anywhere. Qed.

Example C18_ends_anywhere_hyp_satisfiable :
  let c := Carrier 7 (Parsed [0;0;0;0;0;0;0;0;0;0;255;255;4;4;4;4]%N) in
  strip_ends [HEv c; HEv c; HEnd 0; HEv (Accept 7)] = strip_ends [HEv c; HEv c; HEv (Accept 7); HEnd 0; HEnd 1].
Proof. reflexivity. Qed.

(* the statement tells the code from the variant in which an ending carrier clears its ClientID's entry when the entry
   still EQUALS the address it presented (a comparison of addresses, not of carriers): two carriers of one client
   (same ClientID, same client_ip), the older one ends, then the session is established -> "no address" *)
Theorem C18_end_clearing_by_address_refuted : exists (cap : nat) (hevs : list hevent),
  conns_h_clear (new addr ANil cap) [] [] hevs <> run_conns cap (strip_ends hevs) /\
  run_conns_h cap hevs = run_conns cap (strip_ends hevs).
Proof.
  exists 4, [HEv (Carrier 7 (Parsed [0;0;0;0;0;0;0;0;0;0;255;255;4;4;4;4]%N));
             HEv (Carrier 7 (Parsed [0;0;0;0;0;0;0;0;0;0;255;255;4;4;4;4]%N)); HEnd 0; HEv (Accept 7)].
  split; [vm_compute; discriminate | apply run_conns_h_strip].
Qed.

(* ALL connections of one session: run_conns lists every connection the listener hands out as
   (index of its session, RemoteAddr()) - one for each session start and one for each further stream
   a session opens later.  Whatever happens after the session was established (post: carriers of the
   same or other ClientIDs with any client_ip, evictions from the bounded map, other sessions, streams),
   every connection of that session carries the address looked up at establishment, which is the
   sanitised client_ip of the most recent carrier with this ClientID among the last cap carriers
   BEFORE the establishment (or empty). *)
Theorem C18_session_address_fixed : forall (cap : nat) (pre : list event) (cid : N) (post : list event) (a : addr),
  In (length (run cap pre), a) (run_conns cap (pre ++ Accept cid :: post)) ->
  a = accept (state_after cap pre) cid /\ a = spec_attr cap (carriers_rev pre) cid.
Proof. exact conns_address_of_establishment. Qed.

(* the same without naming the establishment: connections of session k all carry the k-th looked-up address *)
Theorem C18_conns_carry_session_address : forall (cap : nat) (evs : list event) (k : nat) (a : addr),
  In (k, a) (run_conns cap evs) -> nth_error (run cap evs) k = Some a.
Proof. exact conns_session_fixed. Qed.

(* not vacuous: the session start and every later stream of an established session do yield a connection *)
Theorem C18_conns_exist : forall (cap : nat) (pre : list event) (cid : N) (post : list event),
  In (length (run cap pre), accept (state_after cap pre) cid) (run_conns cap (pre ++ Accept cid :: post)) /\
  forall k, k < length (run cap pre) ->
    exists a, nth_error (run cap pre) k = Some a /\ In (k, a) (run_conns cap (pre ++ Stream k :: post)).
Proof. intros cap pre cid post. split; [apply conns_first_stream | intros k; apply conns_later_stream]. Qed.

(* a session with four connections; between them a carrier of the same ClientID with another address,
   one without address, and (capacity 1) a carrier of another ClientID that evicts it: all four
   connections report 1.2.3.4:1.  The variant that looks the ClientID up per stream reports 1.2.3.4:1,
   5.6.7.8:1, then no address. *)
Example C18_session_address_fixed_witness :
  let a := Parsed (repeat 0 10 ++ [255; 255; 1; 2; 3; 4])%N in
  let b := Parsed (repeat 0 10 ++ [255; 255; 5; 6; 7; 8])%N in
  let s1 := AStr ([49; 46; 50; 46; 51; 46; 52; 58; 49]%N) in
  let s2 := AStr ([53; 46; 54; 46; 55; 46; 56; 58; 49]%N) in
  let evs := [Carrier 1%N a; Accept 1%N; Carrier 1%N b; Stream 0; Carrier 2%N a; Stream 0; Carrier 1%N Absent; Stream 0] in
  run_conns 1 evs = [(0, s1); (0, s1); (0, s1); (0, s1)] /\
  conns_perstream accept (new addr ANil 1) [] evs = [(0, s1); (0, s2); (0, AStr []); (0, AStr [])].
Proof. split; reflexivity. Qed.

(* never another session's address: it is empty, or what a carrier with the SAME ClientID presented *)
Theorem C18_never_foreign : forall (cap : nat) (pre : list event) (cid : N),
  accept (state_after cap pre) cid = AStr [] \/
  exists p, In (Carrier cid p) pre /\ accept (state_after cap pre) cid = AStr (sanitise p).
Proof. exact never_foreign. Qed.

(* handleConn's RemoteAddr().String() is always defined (repaired acceptStreams) *)
Theorem C18_useraddr_defined : forall (cap : nat) (pre : list event) (cid : N),
  exists s, useraddr (accept (state_after cap pre) cid) = Some s.
Proof. exact useraddr_defined. Qed.

(* The pinned acceptStreams (v0): for EVERY capacity there is a history in which a ClientID that a
   carrier did present is given a nil net.Addr, on which handleConn calls String(). *)
Theorem C18_v0_forgotten_nil_refuted : forall cap : nat, exists (pre : list event) (cid : N) (p : param),
  In (Carrier cid p) pre /\ useraddr (accept_v0 (state_after cap pre) cid) = None.
Proof. exact v0_forgotten_nil. Qed.

Example C18_witness_cap1 :
  let a := Parsed (repeat 0 10 ++ [255; 255; 1; 2; 3; 4])%N in
  let b := Parsed (repeat 0 10 ++ [255; 255; 5; 6; 7; 8])%N in
  let evs := [Carrier 1%N a; Carrier 2%N b; Accept 2%N; Accept 1%N] in
  run_v0 1 evs = [AStr ([53; 46; 54; 46; 55; 46; 56; 58; 49]%N); ANil] /\ run 1 evs = [AStr ([53; 46; 54; 46; 55; 46; 56; 58; 49]%N); AStr []].
Proof. split; reflexivity. Qed.

(* ================================================================ the accept loop under every schedule
   Model/ServerAccept.v: acceptSessions accepts sessions (LAccept cid; session index = number of earlier
   accepts) and spawns a goroutine per session, which is scheduled at some later moment (LStart i) - after
   any number of further accepts, carriers (LCarrier) and steps of other sessions, in any order among
   the goroutines - and from then on hands out the session's streams (LStream i).  sched_conns lists every
   connection handed out as (session index, RemoteAddr()).  Shapes: InGoroutine = the code (acceptStreams
   looks up the ClientID of its own conn), AtAcceptOwn = lookup in the loop handed over by value,
   AtAcceptShared = lookup in the loop into a variable shared by all iterations (not the code). *)

(* the code, ALL schedules: a connection of session i carries the address looked up for the ClientID of
   session i (the i-th accepted) in the map as it was when the goroutine of session i started, i.e. the
   sanitised client_ip of the most recent carrier with that ClientID among the last cap carriers then *)
Theorem C18_schedule_attribution : forall (cap : nat) (evs : list alabel) (i : nat) (a : addr),
  In (i, a) (sched_conns InGoroutine cap evs) ->
  exists pre post cid, evs = pre ++ LStart i :: post /\ nth_error (accepted pre) i = Some cid /\
    nth_error (accepted evs) i = Some cid /\
    a = accept (state_after cap (carriers_of pre)) cid /\
    a = spec_attr cap (carriers_rev (carriers_of pre)) cid.
Proof. exact sched_attribution. Qed.

(* never another session's address, for all schedules: it is empty, or what a carrier presented under the
   ClientID of THIS session *)
Theorem C18_schedule_never_foreign : forall (cap : nat) (evs : list alabel) (i : nat) (a : addr),
  In (i, a) (sched_conns InGoroutine cap evs) ->
  exists cid, nth_error (accepted evs) i = Some cid /\
    (a = AStr [] \/ exists p, In (LCarrier cid p) evs /\ a = AStr (sanitise p)).
Proof. exact sched_never_foreign. Qed.

(* all connections of one session carry one address, whatever the schedule (every shape) *)
Theorem C18_schedule_address_fixed : forall (sh : shape) (cap : nat) (evs : list alabel) (i : nat) (a b : addr),
  In (i, a) (sched_conns sh cap evs) -> In (i, b) (sched_conns sh cap evs) -> a = b.
Proof. exact sched_fixed. Qed.

(* the lookup moved into the accept loop and handed to the goroutine by value: the address is the one of
   the session's ClientID at its accept, whenever its goroutine starts *)
Theorem C18_schedule_attribution_by_value : forall (cap : nat) (evs : list alabel) (i : nat) (a : addr),
  In (i, a) (sched_conns AtAcceptOwn cap evs) ->
  exists pre post cid, evs = pre ++ LAccept cid :: post /\ length (accepted pre) = i /\
    a = accept (state_after cap (carriers_of pre)) cid /\
    a = spec_attr cap (carriers_rev (carriers_of pre)) cid.
Proof. exact sched_attribution_own. Qed.

Theorem C18_schedule_never_foreign_by_value : forall (cap : nat) (evs : list alabel) (i : nat) (a : addr),
  In (i, a) (sched_conns AtAcceptOwn cap evs) ->
  exists cid, nth_error (accepted evs) i = Some cid /\
    (a = AStr [] \/ exists p, In (LCarrier cid p) evs /\ a = AStr (sanitise p)).
Proof. exact sched_never_foreign_own. Qed.

(* bursts: if no carrier starts during `burst` (any number of sessions accepted back to back, their
   goroutines started in any order, streams in any order), every connection of a session accepted in
   `burst` carries the address its own ClientID had in the map before the burst *)
Theorem C18_burst_order_irrelevant : forall (cap : nat) (pre burst : list alabel) (i : nat) (a : addr),
  forallb no_carrier burst = true -> length (accepted pre) <= i ->
  In (i, a) (sched_conns InGoroutine cap (pre ++ burst)) ->
  exists cid, nth_error (accepted (pre ++ burst)) i = Some cid /\
    a = accept (state_after cap (carriers_of pre)) cid /\
    a = spec_attr cap (carriers_rev (carriers_of pre)) cid.
Proof. exact sched_burst_order_irrelevant. Qed.

(* the histories of Model/ServerCarrier.v (C18_session_address_fixed etc.) are the schedules in which every
   goroutine starts and hands out its first connection right after its accept *)
Theorem C18_sequential_histories_are_schedules : forall (cap : nat) (evs : list event),
  run_conns cap evs = sched_conns InGoroutine cap (expand 0 evs).
Proof. exact seq_is_schedule. Qed.

(* what the `clientid burst` cases print (brun) are addresses of connections of the machine run on the
   schedule the case stands for *)
Theorem C18_burst_runner_sound : forall (sh : shape) (toks : list btok) (st : astate) (n : nat) (a : addr),
  In a (brun sh st n toks) -> exists i, In (i, a) (aconns sh st (btoks_labels n toks)).
Proof. exact brun_sound. Qed.

(* hypotheses satisfiable, and the theorems tell the shapes apart: clients 1 (1.2.3.4) and 2 (5.6.7.8)
   are accepted back to back and the goroutine of session 0 starts after the second accept.  The code
   and the by-value variant give each session its own address; the shared-variable shape gives session
   0 the address of client 2. *)
Example C18_schedule_witness :
  forallb no_carrier (skipn 2 shared_witness) = true /\
  sched_conns InGoroutine 2 shared_witness = [(0, AStr (sanitise (ip4 1 2 3 4))); (1, AStr (sanitise (ip4 5 6 7 8)))] /\
  sched_conns AtAcceptOwn 2 shared_witness = [(0, AStr (sanitise (ip4 1 2 3 4))); (1, AStr (sanitise (ip4 5 6 7 8)))] /\
  sched_conns AtAcceptShared 2 shared_witness = [(0, AStr (sanitise (ip4 5 6 7 8))); (1, AStr (sanitise (ip4 5 6 7 8)))].
Proof. split; [reflexivity | exact shared_witness_good]. Qed.

(* a burst of three sessions (one without client_ip) whose goroutines start in reverse order, one of them
   with three streams: as printed by the case runner *)
Example C18_burst_witness :
  let c1 := Carrier 1%N (ip4 1 2 3 4) in let c2 := Carrier 2%N Absent in let c3 := Carrier 3%N (ip4 5 6 7 8) in
  let toks := [BEv c1; BEv c2; BEv c3; BBurst [(1%N, 1, 2); (2%N, 3, 1); (3%N, 1, 0)]] in
  brun InGoroutine (ainit 3) 0 toks =
    [AStr (sanitise (ip4 1 2 3 4)); AStr []; AStr []; AStr []; AStr (sanitise (ip4 5 6 7 8))] /\
  brun AtAcceptShared (ainit 3) 0 toks =
    [AStr (sanitise (ip4 5 6 7 8)); AStr (sanitise (ip4 5 6 7 8)); AStr (sanitise (ip4 5 6 7 8));
     AStr (sanitise (ip4 5 6 7 8)); AStr (sanitise (ip4 5 6 7 8))].
Proof. split; vm_compute; reflexivity. Qed.

(* NOT the code - the shape the theorems above exclude: with the looked-up address in a variable shared
   by the iterations of the accept loop there is a schedule in which a connection of one client carries
   an address that no carrier presented under its ClientID and that a carrier of ANOTHER ClientID did *)
Theorem C18_shared_variable_refuted :
  exists (cap : nat) (evs : list alabel) (i : nat) (a : addr) (cid : N),
    In (i, a) (sched_conns AtAcceptShared cap evs) /\ nth_error (accepted evs) i = Some cid /\
    a <> AStr [] /\ (forall p, In (LCarrier cid p) evs -> a <> AStr (sanitise p)) /\
    (exists cid' p', cid' <> cid /\ In (LCarrier cid' p') evs /\ a = AStr (sanitise p')).
Proof. exact shared_variable_refuted. Qed.

(* ================================================================ the proxy side of the chain: the client_ip on the relay URL
   Model/ProxyClientIP.v: ONE proxy, any number of clients; each client's handler (proxy/lib/snowflake.go
   datachannelHandler) takes the relay URL the broker assigned - or the proxy's default when it assigned none -, sets
   client_ip to the remote address found for THAT client when there is one, and dials.  The handlers run concurrently:
   [prun dflt tr] for EVERY schedule tr of their steps (spawn, parse, set the query, dial), any sessions, with and
   without a known remote address, with and without an assigned relay URL. *)

(* the URL a session is dialled with is a function of the proxy's default relay and of that session ALONE
   ([relay_url_of]), under every schedule and whatever other sessions exist, ran before or run at the same time; and a
   session is dialled at most once *)
Theorem C18_proxy_dial_is_of_its_session : forall (dflt : rurl) (tr : list plabel) (i : nat) (u : rurl),
  In (i, u) (p_dials (prun dflt tr)) ->
  exists s, nth_error (p_handlers (prun dflt tr)) i = Some (s, H_Dialed) /\ u = relay_url_of dflt s.
Proof. exact dial_is_of_its_session. Qed.

Theorem C18_proxy_one_dial_per_session : forall (dflt : rurl) (tr : list plabel), NoDup (map fst (p_dials (prun dflt tr))).
Proof. exact one_dial_per_session. Qed.

(* the handlers are the spawned sessions, in spawn order, whatever the schedule *)
Theorem C18_proxy_handlers_are_spawned : forall (dflt : rurl) (tr : list plabel),
  map fst (p_handlers (prun dflt tr)) = spawned tr.
Proof. exact handlers_are_spawned. Qed.

(* the client_ip on a session's dial is that session's remote address; when the proxy knows none, the dial carries
   whatever client_ip the relay URL had by itself (none, for every relay URL in use: the default and the bridge list's
   carry no query) - never the address of another session.  The relay (base) is the session's own, too. *)
Theorem C18_proxy_client_ip_own : forall (dflt : rurl) (tr : list plabel) (i : nat) (u : rurl),
  In (i, u) (p_dials (prun dflt tr)) ->
  exists s pc, nth_error (p_handlers (prun dflt tr)) i = Some (s, pc) /\ ru_base u = ru_base (base_of dflt s) /\
    q_values CLIENT_IP (ru_query u) =
      match s_addr s with Some a => [a] | None => q_values CLIENT_IP (ru_query (base_of dflt s)) end.
Proof. exact dial_client_ip. Qed.

(* every other parameter of the relay URL goes through unchanged *)
Theorem C18_proxy_other_params_kept : forall (dflt : rurl) (s : session) (k : bytes), beq k CLIENT_IP = false ->
  q_values k (ru_query (relay_url_of dflt s)) = q_values k (ru_query (base_of dflt s)).
Proof. exact other_params_kept. Qed.

(* non-vacuity: three clients of one proxy whose handlers run all together (the query steps in reverse order): a client
   with a known address on the default relay, one WITHOUT on the default relay, one with a known address on a relay the
   broker assigned.  Each dial carries its own session's address or none. *)
Example C18_proxy_witness :
  let dflt := mk_rurl [100]%N [] in
  let a1 := [49; 46; 50; 46; 51; 46; 52]%N in let a3 := [53; 46; 54; 46; 55; 46; 56]%N in
  let ss := [mk_session None (Some a1); mk_session None None; mk_session (Some (mk_rurl [117; 49]%N [([120]%N, [49]%N)])) (Some a3)] in
  p_dials (prun dflt (conc_labels ss)) =
    [(0, mk_rurl [100]%N [(CLIENT_IP, a1)]); (1, mk_rurl [100]%N []); (2, mk_rurl [117; 49]%N [([120]%N, [49]%N); (CLIENT_IP, a3)])] /\
  In (1, mk_rurl [100]%N []) (p_dials (prun dflt (conc_labels ss))) /\
  q_values CLIENT_IP (ru_query (mk_rurl [100]%N [])) = [].
Proof. vm_compute. repeat split. right. left. reflexivity. Qed.
