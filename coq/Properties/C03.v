(* C03 — Matches respect NAT compatibility, availability and load order.
   Over Model/Broker.v (see Properties/C02.v for the reading of [reachable], entries and labels).
   [eligible n e] = entry e is still in its matching heap and belongs to the pool a client of NAT
   type n is served from; L_Client n fp o choice is the client's matchSnowflake step. *)
From Coq Require Import List NArith ZArith Bool.
From Coq Require Import Permutation.
From Snow Require Import Model.Broker Proofs.BrokerProofs Proofs.BrokerSteps Proofs.BrokerThms.
From Snow Require Import Model.GoHeap Proofs.GoHeapProofs Proofs.BrokerHeapProofs.
Import ListNotations.
Open Scope N_scope.

(* In every reachable state every matched pair is NAT compatible: a restricted or unknown client holds
   an unrestricted proxy; an unrestricted client holds a restricted or unknown proxy. *)
Theorem C03_nat_compat : forall v br s p e c,
  reachable v br s -> nth_error (entries s) p = Some e -> e_cl e = Some c ->
  compat (c_nat c) (e_nat e) = true.
Proof. exact nat_compat. Qed.

Example C03_compat_table :
  compat NatRestricted NatUnrestricted = true /\ compat NatUnknown NatUnrestricted = true /\
  compat NatRestricted NatRestricted = false /\ compat NatRestricted NatUnknown = false /\
  compat NatUnknown NatUnknown = false /\
  compat NatUnrestricted NatRestricted = true /\ compat NatUnrestricted NatUnknown = true /\
  compat NatUnrestricted NatUnrestricted = false.
Proof. repeat split. Qed.

(* "In the heap" means exactly: registered, not expired, not yet claimed by any client. *)
Theorem C03_waiting_iff_in_heap : forall v br s p e,
  reachable v br s -> nth_error (entries s) p = Some e ->
  (e_inheap e = true <-> e_cl e = None /\ w_unmatched_waiting (e_w e) = true).
Proof. exact inheap_iff_waiting. Qed.

(* A client (naming a known bridge) is refused exactly when no proxy of its eligible pool is waiting,
   and then the answer is 'no proxies' and nothing else changes. *)
Theorem C03_refusal_iff : forall v s n ofp o ch s',
  step v s (L_Client n ofp o ch) = Some s' -> lookup (fp_of ofp) (bridges s) <> None ->
  (ch = None <-> forall e, In e (entries s) -> eligible n e = false) /\
  (ch = None -> done_clients s' = (next_cid s, n, fp_of ofp, o, CNoProxies) :: done_clients s /\ entries s' = entries s).
Proof. exact refusal_iff. Qed.

(* The proxy a client is given is waiting, eligible, and has the smallest self-reported client count
   among all eligible waiting proxies. *)
Theorem C03_least_loaded : forall v s n ofp o p s',
  step v s (L_Client n ofp o (Some p)) = Some s' ->
  exists e, nth_error (entries s) p = Some e /\ eligible n e = true /\
    (forall e', In e' (entries s) -> eligible n e' = true -> e_clients e <= e_clients e') /\
    exists c, nth_error (entries s') p = Some (set_cl (Some c) (set_heap_live false (e_live e) e)) /\
              c_nat c = n /\ c_fp c = fp_of ofp /\ c_offer c = o /\ c_pc c = C_Send.
Proof. exact least_loaded. Qed.

(* The relational pool above is what the real data structure delivers: the broker's SnowflakeHeap is Go's
   container/heap (Model/GoHeap.v, validated against the standard library by the C17 correspondence) over a
   slice ordered by client count. After ANY sequence of pushes (AddSnowflake), guarded pops (matchSnowflake)
   and guarded removals (proxy timeout) the slice is heap ordered, heap.Pop returns an element whose client
   count is minimal, and the contents change only by that element. *)
Theorem C03_array_heap_invariant : forall ops, heap_ok sf sf_less (fold_left hstep ops []).
Proof. exact heap_ops_ok. Qed.

Theorem C03_array_heap_pops_least_loaded : forall ops m,
  let l := fold_left hstep ops [] in
  nth_error l 0 = Some m ->
  exists l', lpop sf_less l = (l', Some m) /\ heap_ok sf sf_less l' /\ Permutation l (m :: l') /\
             (forall y, In y l -> snd m <= snd y).
Proof. exact pop_least_loaded. Qed.

Example C03_array_heap_example :
  lpop sf_less (fold_left hstep [HPush (0%nat, 15); HPush (1%nat, 9); HPush (2%nat, 23); HRemove 2] []) =
  ([(0%nat, 15)], Some (1%nat, 9)).
Proof. vm_compute. reflexivity. Qed.

(* non-vacuity: with loads 5 and 2 waiting, the client is given the proxy with load 2 and cannot be given the other *)
Example C03_example :
  let s0 := run V1 (init [(7, 9)]) [L_Poll 1 NatUnrestricted 1 5; L_Poll 2 NatUnrestricted 1 2] in
  (exists s, s0 = Some s /\ step V1 s (L_Client NatRestricted (Some 7) 100 (Some 1%nat)) <> None /\
             step V1 s (L_Client NatRestricted (Some 7) 100 (Some 0%nat)) = None /\
             step V1 s (L_Client NatRestricted (Some 7) 100 None) = None /\
             step V1 s (L_Client NatUnrestricted (Some 7) 100 None) <> None).
Proof. eexists. split; [vm_compute; reflexivity|]. repeat split; vm_compute; congruence. Qed.

(* Absent/empty NAT on the wire (C12's decoders) composed with the pool selection: a client that sends no NAT
   type is treated as unknown and served only from the unrestricted proxies; a proxy that sends none is
   registered as unknown and kept for unrestricted clients only. *)
From Coq Require Import String.
From Snow Require Import Lib.Wire Model.JsonBoundary Model.Messages Proofs.MessagesProofs Proofs.BrokerWireProofs.

Theorem C03_wire_default_client : forall v o n f e,
  decode_client_poll_body v = Ok (o, n, f) -> absent "nat"%string v ->
  natty_of n = NatUnknown /\ eligible (natty_of n) e = e_inheap e && is_unrestricted (e_nat e).
Proof. exact client_absent_nat_served_from_unrestricted_proxies. Qed.

Theorem C03_wire_default_proxy : forall v r sd pt cl,
  decode_proxy_poll v = Ok r -> absent "NAT"%string v ->
  natty_of (pq_nat r) = NatUnknown /\
  (forall cn, eligible cn (new_entry sd (natty_of (pq_nat r)) pt cl) = is_unrestricted cn).
Proof. exact proxy_absent_nat_kept_for_unrestricted_clients. Qed.
