(* C03 — Matches respect NAT compatibility, availability and load order.
   Over Model/Broker.v (see Properties/C02.v for the reading of [reachable], entries and labels).
   [eligible n e] = entry e is still in its matching heap and belongs to the pool a client of NAT
   type n is served from; L_Client n fp o choice is the client's matchSnowflake step. *)
From Coq Require Import List NArith ZArith Bool.
From Coq Require Import Permutation.
From Snow Require Import Model.Broker Proofs.BrokerProofs Proofs.BrokerSteps Proofs.BrokerThms.
From Snow Require Import Model.GoHeap Proofs.GoHeapProofs Proofs.BrokerHeapProofs.
From Snow Require Import Model.BrokerImpl Proofs.BrokerKeys Proofs.BrokerImplProofs.
Import ListNotations.
Open Scope N_scope.

(* In every reachable state every matched pair is NAT compatible: a restricted or unknown client holds
   an unrestricted proxy; an unrestricted client holds a restricted or unknown proxy. *)
Theorem C03_nat_compat : forall v br s p e c,
  reachable v br s -> nth_error (entries s) p = Some e -> e_cl e = Some c ->
  compat (c_nat c) (e_nat e) = true.
Proof. exact nat_compat. Qed.

Example C03_compat_table :
  compat NatRestricted NatUnrestricted = true /\ compat NatUnknown NatUnrestricted = true /\
  compat NatRestricted NatRestricted = false /\ compat NatRestricted NatUnknown = false /\
  compat NatUnknown NatUnknown = false /\
  compat NatUnrestricted NatRestricted = true /\ compat NatUnrestricted NatUnknown = true /\
  compat NatUnrestricted NatUnrestricted = false.
Proof. repeat split. Qed.

(* "In the heap" means exactly: registered, not expired, not yet claimed by any client. *)
Theorem C03_waiting_iff_in_heap : forall v br s p e,
  reachable v br s -> nth_error (entries s) p = Some e ->
  (e_inheap e = true <-> e_cl e = None /\ w_unmatched_waiting (e_w e) = true).
Proof. exact inheap_iff_waiting. Qed.

(* A client (naming a known bridge) is refused exactly when no proxy of its eligible pool is waiting,
   and then the answer is 'no proxies' and nothing else changes. *)
Theorem C03_refusal_iff : forall v s n ofp o ch s',
  step v s (L_Client n ofp o ch) = Some s' -> lookup (fp_of ofp) (bridges s) <> None ->
  (ch = None <-> forall e, In e (entries s) -> eligible n e = false) /\
  (ch = None -> done_clients s' = (next_cid s, n, fp_of ofp, o, CNoProxies) :: done_clients s /\ entries s' = entries s).
Proof. exact refusal_iff. Qed.

(* The proxy a client is given is waiting, eligible, and has the smallest self-reported client count
   among all eligible waiting proxies. *)
Theorem C03_least_loaded : forall v s n ofp o p s',
  step v s (L_Client n ofp o (Some p)) = Some s' ->
  exists e, nth_error (entries s) p = Some e /\ eligible n e = true /\
    (forall e', In e' (entries s) -> eligible n e' = true -> e_clients e <= e_clients e') /\
    exists c, nth_error (entries s') p = Some (set_cl (Some c) (set_heap_live false (e_live e) e)) /\
              c_nat c = n /\ c_fp c = fp_of ofp /\ c_offer c = o /\ c_pc c = C_Send.
Proof. exact least_loaded. Qed.

(* Loads are Go ints: 64 bit, SIGNED, and the wire accepts every value of that range. The model's loads are N and the
   model only compares them; the runner feeds it emb z = z + 2^63 for the int64 value z (Model/BrokerHeap.v), under which
   the order of the model IS the order of the integers - for every pair of the range, also two counts more than
   MaxInt64 apart (MaxInt64 and -8), where a comparison by the sign of a 64-bit difference goes wrong. *)
Theorem C03_load_order_is_integer_order : forall a b, int64_range a = true -> int64_range b = true ->
  sf_less (0%nat, emb a) (1%nat, emb b) = (a <? b)%Z /\ unemb (emb a) = a.
Proof. intros a b Ha Hb. split; [exact (emb_order a b Ha Hb)|exact (unemb_emb a Ha)]. Qed.

Example C03_load_order_extreme_example :
  int64_range 9223372036854775807 = true /\ int64_range (-8) = true /\ int64_range (-9223372036854775808) = true /\
  sf_less (0%nat, emb (-8)) (1%nat, emb 9223372036854775807) = true /\
  sf_less (0%nat, emb 9223372036854775807) (1%nat, emb (-8)) = false /\
  (* the 64-bit difference of the same two counts has the wrong sign *)
  ((9223372036854775807 - -8 + 9223372036854775808) mod 18446744073709551616 - 9223372036854775808 <? 0)%Z = true /\
  fst (lpop sf_less (lpush sf_less (1%nat, emb (-8)) (lpush sf_less (0%nat, emb 9223372036854775807) []))) =
    [(0%nat, emb 9223372036854775807)].
Proof. repeat split; vm_compute; reflexivity. Qed.

(* The relational pool above is what the real data structure delivers: the broker's SnowflakeHeap is Go's
   container/heap (Model/GoHeap.v, validated against the standard library by the C17 correspondence) over a
   slice ordered by client count. After ANY sequence of pushes (AddSnowflake), guarded pops (matchSnowflake)
   and guarded removals (proxy timeout) the slice is heap ordered, heap.Pop returns an element whose client
   count is minimal, and the contents change only by that element. *)
Theorem C03_array_heap_invariant : forall ops, heap_ok sf sf_less (fold_left hstep ops []).
Proof. exact heap_ops_ok. Qed.

Theorem C03_array_heap_pops_least_loaded : forall ops m,
  let l := fold_left hstep ops [] in
  nth_error l 0 = Some m ->
  exists l', lpop sf_less l = (l', Some m) /\ heap_ok sf sf_less l' /\ Permutation l (m :: l') /\
             (forall y, In y l -> snd m <= snd y).
Proof. exact pop_least_loaded. Qed.

Example C03_array_heap_example :
  lpop sf_less (fold_left hstep [HPush (0%nat, 15); HPush (1%nat, 9); HPush (2%nat, 23); HRemove 2] []) =
  ([(0%nat, 15)], Some (1%nat, 9)).
Proof. vm_compute. reflexivity. Qed.

(* a removal that needs a sift-UP (what the poll-timeout branch does at an inner position): counts pushed
   11 | 1,2,10,12,20,3; the 11 sits at position 3 under the 10 at position 1; taking it out moves the last element
   (the 3) into the hole, where it must rise above the 10 - the next three hand-overs are then 1, 2, 3. (A removal
   that only sifts down leaves the 3 under the 10 and hands out the 10 third: scenario kind
   poll-expires-inside-heap-up of lib/checks/brokerlib.py runs this history against broker.go.) *)
Example C03_removal_needs_sift_up_example :
  let l0 := fold_left hstep [HPush (0%nat, 11); HPush (1%nat, 1); HPush (2%nat, 2); HPush (3%nat, 10); HPush (4%nat, 12);
                             HPush (5%nat, 20); HPush (6%nat, 3)] [] in
  let l1 := hstep l0 (HRemove 3) in
  nth_error l0 3 = Some (0%nat, 11) /\ nth_error l0 1 = Some (3%nat, 10) /\ nth_error l0 6 = Some (6%nat, 3) /\
  l1 = [(1%nat, 1); (6%nat, 3); (2%nat, 2); (3%nat, 10); (4%nat, 12); (5%nat, 20)] /\
  snd (lpop sf_less l1) = Some (1%nat, 1) /\
  snd (lpop sf_less (fst (lpop sf_less l1))) = Some (2%nat, 2) /\
  snd (lpop sf_less (fst (lpop sf_less (fst (lpop sf_less l1))))) = Some (6%nat, 3).
Proof. vm_compute. repeat split; reflexivity. Qed.

(* ---- the pointer level: what `broker heap` runs against broker/snowflake-heap.go (Model/BrokerHeap.v [xstep]:
   the slice of *Snowflake, every element carrying the `index` field written by Swap/Push/Pop). ---- *)

(* it is the list-level heap above, element for element, after every operation sequence ... *)
Theorem C03_pointer_heap_is_list_heap : forall ops,
  map x_el (h_arr (xrun ops sheap_empty)) = fold_left hstep ops [].
Proof. exact array_is_list_heap. Qed.

(* ... and SnowflakeHeap's index bookkeeping is consistent: after ANY sequence of Push / guarded Pop / guarded
   Remove(i) / Fix every element's `index` equals its position in the slice, and every element that was handed
   back by Pop or Remove holds index -1 (what the proxy-timeout path of broker.go relies on). *)
Theorem C03_heap_index_consistent : forall ops,
  let h := xrun ops sheap_empty in
  (forall i x, nth_error (h_arr h) i = Some x -> x_idx x = Z.of_nat i) /\
  (forall e, In e (h_out h) -> x_idx e = (-1)%Z).
Proof. exact index_consistent. Qed.

Example C03_heap_index_example :
  let h := xrun [HPush (1%nat, 5); HPush (2%nat, 2); HPush (3%nat, 2); HPop; HRemove 1; HFix 0 0] sheap_empty in
  h_arr h = [mkx (3%nat, 0) 0] /\ h_out h = [mkx (2%nat, 2) (-1); mkx (1%nat, 5) (-1)].
Proof. vm_compute. split; reflexivity. Qed.

(* ---- refinement: the matching machine over the two array heaps (Model/BrokerImpl.v [istep], run against the Go code
   as `broker irun`: AddSnowflake = heap.Push, matchSnowflake = heap.Pop when Len() > 0, the waiter's timeout
   critical section = read the element's `index`, heap.Remove unless -1) against the relational machine [step].
   [Rel st]: for each NAT class, the multiset of (poll, client count) in the slice IS the relational pool
   {entries of that class with e_inheap}, the slice is heap ordered, `index` = position, what left holds -1. ---- *)

(* every step of the array-heap machine is a step of the relational machine for the same request (for a client
   poll: with the proxy that heap.Pop returned as the relational choice), and re-establishes the relation *)
Theorem C03_array_heap_refines_pool : forall v st l st',
  Rel st -> istep v st l = Some st' ->
  (exists l', step v (i_s st) l' = Some (i_s st') /\ same_request l l') /\ Rel st'.
Proof. exact istep_refines. Qed.

(* it never refuses what the relational machine allows: heap.Pop / heap.Remove are called with valid arguments and
   what matchSnowflake returns is always a choice the relational machine admits (eligible, minimal) *)
Theorem C03_array_heap_never_refuses : forall v st l s',
  Rel st -> step v (i_s st) l = Some s' -> exists st', istep v st l = Some st'.
Proof. exact istep_enabled. Qed.

(* hence every state of an array-heap run is a reachable state of the relational machine (all of C02, C03, C04
   apply to it) and satisfies the relation *)
Theorem C03_array_heap_runs : forall v br ls st,
  irun v (iinit br) ls = Some st -> reachable v br (i_s st) /\ Rel st.
Proof. exact irun_refines. Qed.

(* C03_refusal_iff / C03_least_loaded delivered by the array implementation: after any run, a client (naming a known
   bridge) is refused only when no proxy of its pool waits, and is otherwise given an eligible waiting proxy with
   the smallest client count *)
Theorem C03_array_heap_least_loaded : forall v br ls st n ofp o ch st',
  irun v (iinit br) ls = Some st -> istep v st (L_Client n ofp o ch) = Some st' ->
  lookup (fp_of ofp) (bridges (i_s st)) <> None ->
  (forall e, In e (entries (i_s st)) -> eligible n e = false) /\ entries (i_s st') = entries (i_s st) /\
    done_clients (i_s st') = (next_cid (i_s st), n, fp_of ofp, o, CNoProxies) :: done_clients (i_s st)
  \/ exists p e, nth_error (entries (i_s st)) p = Some e /\ eligible n e = true /\
       (forall e', In e' (entries (i_s st)) -> eligible n e' = true -> e_clients e <= e_clients e') /\
       exists c, nth_error (entries (i_s st')) p = Some (set_cl (Some c) (set_heap_live false (e_live e) e)) /\ c_offer c = o.
Proof. exact impl_client_least_loaded. Qed.

(* a poll that left the pool never returns to it (used by C02_poll_gets_at_most_one_offer) *)
Theorem C03_left_pool_forever : forall v s l s' p e,
  step v s l = Some s' -> nth_error (entries s) p = Some e -> e_inheap e = false ->
  exists e', nth_error (entries s') p = Some e' /\ e_inheap e' = false.
Proof. exact left_pool_forever. Qed.

(* non-vacuity: three unrestricted proxies with loads 5, 2, 2 and a restricted one; the middle one expires (its
   waiter removes it at its index), a client is given a load-2 proxy (whatever choice was written in the label), the
   next one the load-5 proxy, the third is refused; an unrestricted client is served from the other heap. *)
Example C03_array_heap_machine_example :
  exists st, irun V1 (iinit [(7, 9)])
    [L_Poll 1 NatUnrestricted 1 5; L_Poll 2 NatUnrestricted 1 2; L_Poll 3 NatUnrestricted 1 2; L_Poll 4 NatRestricted 1 0;
     L_FireW 1; L_WTake 1; L_WTimeoutCS 1;
     L_Client NatRestricted (Some 7) 100 None; L_Client NatUnknown (Some 7) 101 None; L_Client NatRestricted (Some 7) 102 None;
     L_Client NatUnrestricted (Some 7) 103 None] = Some st /\
  map (fun e => option_map c_offer (e_cl e)) (entries (i_s st)) = [Some 101; None; Some 100; Some 103] /\
  map (fun '(cid, _, _, _, r) => (cid, r)) (done_clients (i_s st)) = [(2%nat, CNoProxies)] /\
  h_arr (i_hu st) = [] /\ map x_idx (h_out (i_hu st)) = [(-1)%Z; (-1)%Z; (-1)%Z].
Proof. eexists. vm_compute. repeat split. Qed.

(* non-vacuity: with loads 5 and 2 waiting, the client is given the proxy with load 2 and cannot be given the other *)
Example C03_example :
  let s0 := run V1 (init [(7, 9)]) [L_Poll 1 NatUnrestricted 1 5; L_Poll 2 NatUnrestricted 1 2] in
  (exists s, s0 = Some s /\ step V1 s (L_Client NatRestricted (Some 7) 100 (Some 1%nat)) <> None /\
             step V1 s (L_Client NatRestricted (Some 7) 100 (Some 0%nat)) = None /\
             step V1 s (L_Client NatRestricted (Some 7) 100 None) = None /\
             step V1 s (L_Client NatUnrestricted (Some 7) 100 None) <> None).
Proof. eexists. split; [vm_compute; reflexivity|]. repeat split; vm_compute; congruence. Qed.

(* Absent/empty NAT on the wire (C12's decoders) composed with the pool selection: a client that sends no NAT
   type is treated as unknown and served only from the unrestricted proxies; a proxy that sends none is
   registered as unknown and kept for unrestricted clients only. *)
From Coq Require Import String.
From Snow Require Import Lib.Wire Model.JsonBoundary Model.Messages Proofs.MessagesProofs Proofs.BrokerWireProofs.

Theorem C03_wire_default_client : forall v o n f e,
  decode_client_poll_body v = Ok (o, n, f) -> absent "nat"%string v ->
  natty_of n = NatUnknown /\ eligible (natty_of n) e = e_inheap e && is_unrestricted (e_nat e).
Proof. exact client_absent_nat_served_from_unrestricted_proxies. Qed.

Theorem C03_wire_default_proxy : forall v r sd pt cl,
  decode_proxy_poll v = Ok r -> absent "NAT"%string v ->
  natty_of (pq_nat r) = NatUnknown /\
  (forall cn, eligible cn (new_entry sd (natty_of (pq_nat r)) pt cl) = is_unrestricted cn).
Proof. exact proxy_absent_nat_kept_for_unrestricted_clients. Qed.

(* The Version field of a proxy poll (every string the decoder accepts: major version 1 - "1.0" ... "1.3", a bare "1",
   "1.10", "1.2.3" ...) does not enter the pool decision: two polls whose other fields agree decode alike, and for
   EVERY accepted version the poll is registered with exactly the NAT type it carries (empty = unknown), i.e. kept for
   the clients compatible with that NAT type and for no others. [unmarshal poll_req_schema v] = what json.Unmarshal
   leaves in the ProxyPollRequest struct (Model/JsonBoundary.v). *)
Theorem C03_wire_version_irrelevant : forall v1 v2 sid ver1 ver2 ty nat n pat,
  unmarshal poll_req_schema v1 = Some [VStr sid; VStr ver1; VStr ty; VStr nat; VInt n; VPtr pat] ->
  unmarshal poll_req_schema v2 = Some [VStr sid; VStr ver2; VStr ty; VStr nat; VInt n; VPtr pat] ->
  major_ok ver1 = true -> major_ok ver2 = true ->
  decode_proxy_poll v1 = decode_proxy_poll v2.
Proof. exact proxy_poll_version_irrelevant. Qed.

Theorem C03_wire_nat_for_every_version : forall v sid ver ty nat n pat,
  unmarshal poll_req_schema v = Some [VStr sid; VStr ver; VStr ty; VStr nat; VInt n; VPtr pat] ->
  major_ok ver = true -> beq sid [] = false ->
  match norm_nat nat with
  | None => decode_proxy_poll v = Err
  | Some nat' =>
      exists r, decode_proxy_poll v = Ok r /\ pq_nat r = nat' /\ pq_sid r = sid /\ pq_type r = norm_type ty /\
                pq_clients r = n /\
                (forall cn sd pt cl, eligible cn (new_entry sd (natty_of (pq_nat r)) pt cl) = compat cn (natty_of nat'))
  end.
Proof. exact proxy_poll_nat_for_every_version. Qed.

(* non-vacuity: polls carrying NAT "unrestricted" under the versions 1.0, 1, 1.10 and 1.3 (the last without the
   relay-pattern field) are all accepted with NAT unrestricted - kept for restricted/unknown clients, not for
   unrestricted ones; version 2.0 is refused *)
Example C03_wire_version_example :
  let poll ver := JObj [jstr_field (bs "Sid") (bs "s"); jstr_field (bs "Version") ver; jstr_field (bs "Type") (bs "standalone");
                        jstr_field (bs "NAT") NAT_UNRESTRICTED; (bs "Clients", JNum (bs "2"))] in
  (forall ver, In ver [bs "1.0"; bs "1"; bs "1.10"; bs "1.3"] ->
     major_ok ver = true /\
     exists r, decode_proxy_poll (poll ver) = Ok r /\ natty_of (pq_nat r) = NatUnrestricted /\
       eligible NatRestricted (new_entry 1 (natty_of (pq_nat r)) 1 0) = true /\
       eligible NatUnknown (new_entry 1 (natty_of (pq_nat r)) 1 0) = true /\
       eligible NatUnrestricted (new_entry 1 (natty_of (pq_nat r)) 1 0) = false) /\
  decode_proxy_poll (poll (bs "2.0")) = Err.
Proof.
  split; [|vm_compute; reflexivity].
  intros ver [<-|[<-|[<-|[<-|[]]]]]; (split; [vm_compute; reflexivity|]); eexists; (split; [vm_compute; reflexivity|]);
    repeat split; vm_compute; reflexivity.
Qed.
