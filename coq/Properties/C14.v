(* C14 — Every HTTP request to the broker gets a well-formed response; a legacy client request is
   treated exactly like its versioned equivalent.
   Statements over Model/BrokerHttp.v: handlers are total functions of the body read result and of the
   IPC outcome, for EVERY behaviour of the IPC layer and of the message codecs (Section variables).
   What is a theorem: no handler of the repaired code can panic (the only way a Go handler drops the
   connection without a response), the status set, and legacy == versioned. Framing of the response by
   net/http, MaxBytesReader and bounded time are observed by the raw-TCP driver, not proved. *)
From Coq Require Import List NArith Bool String.
From Snow Require Import Lib.Wire Model.BrokerHttp Proofs.BrokerHttpProofs.
Import ListNotations.
Open Scope N_scope.

Theorem C14_handlers_never_panic :
  forall enc_req dec_resp enc_err amp_dec amp_arm ipc_client ipc_proxy ipc_answer,
  (forall rd h, client_offers enc_req dec_resp ipc_client H1 rd h <> HPanic) /\
  (forall rd, proxy_polls ipc_proxy rd <> HPanic) /\
  (forall rd, proxy_answers ipc_answer rd <> HPanic) /\
  (forall ok path, amp_client_offers enc_err amp_dec amp_arm ipc_client ok path <> HPanic).
Proof. exact handlers_total_v1. Qed.

(* the legacy request and the versioned POST it is shimmed into reach the IPC layer with the same body, and
   the legacy response is the image under the total map [legacy_map] of the versioned response *)
Theorem C14_legacy_equiv :
  forall enc_req dec_resp ipc_client,
  (forall o n, is_legacy (enc_req o n) = false) ->
  forall v offer nat_header, is_legacy offer = true ->
    client_offers enc_req dec_resp ipc_client v (ReadOk offer) nat_header =
    match client_offers enc_req dec_resp ipc_client v (versioned_twin enc_req offer nat_header) nat_header with
    | HResp 200 response => legacy_map dec_resp v response
    | other => other
    end.
Proof. exact legacy_equiv. Qed.

Theorem C14_legacy_map :
  forall dec_resp response,
    match dec_resp response with
    | None => legacy_map dec_resp H1 response = HResp 500 []
    | Some r =>
        (r_error r = [] -> legacy_map dec_resp H1 response = HResp 200 (r_answer r)) /\
        (r_error r = STR_NO_PROXIES -> legacy_map dec_resp H1 response = HResp 503 []) /\
        (r_error r = STR_TIMED_OUT -> legacy_map dec_resp H1 response = HResp 504 []) /\
        (r_error r <> [] -> r_error r <> STR_NO_PROXIES -> r_error r <> STR_TIMED_OUT ->
           legacy_map dec_resp H1 response = HResp 400 [])
    end.
Proof. exact legacy_map_cases. Qed.

Theorem C14_client_status_set :
  forall enc_req dec_resp ipc_client v rd h,
    match client_offers enc_req dec_resp ipc_client v rd h with
    | HResp st _ => st = 200 \/ st = 400 \/ st = 500 \/ st = 503 \/ st = 504
    | HPanic => v = H0
    end.
Proof. exact status_set. Qed.

(* the pinned code: a legacy request whose shimmed poll is rejected with any other error string panics *)
Theorem C14_v0_refuted :
  forall enc_req dec_resp ipc_client offer h r,
    is_legacy offer = true -> ipc_client (enc_req offer h) = IpcOk r ->
    dec_resp r = Some {| r_answer := []; r_error := bs "invalid NAT type" |} ->
    client_offers enc_req dec_resp ipc_client H0 (ReadOk offer) h = HPanic.
Proof. exact v0_legacy_panics. Qed.

Example C14_nonvacuous :
  let enc := fun (o n : bytes) => bs "1.0" ++ [10] ++ o in
  let dec := fun (r : bytes) => Some {| r_answer := []; r_error := r |} in
  let ipc := fun (_ : bytes) => IpcOk (bs "invalid NAT type") in
  is_legacy (bs "{x}") = true /\
  client_offers enc dec ipc H0 (ReadOk (bs "{x}")) [] = HPanic /\
  client_offers enc dec ipc H1 (ReadOk (bs "{x}")) [] = HResp 400 [].
Proof. repeat split. Qed.
