(* C14 — Every HTTP request to the broker gets a well-formed response; a legacy client request is
   treated exactly like its versioned equivalent.
   Statements over Model/BrokerHttp.v: handlers are total functions of the body read result and of the
   IPC outcome, for EVERY behaviour of the IPC layer and of the message codecs (Section variables).
   What is a theorem: no handler of the repaired code can panic (the only way a Go handler drops the
   connection without a response), the status set, and legacy == versioned. Framing of the response by
   net/http, MaxBytesReader and bounded time are observed by the raw-TCP driver, not proved.
   Second half (from C14_no_request_panics on): the refined model - requests with method, path, header lines
   and body; the http.ResponseWriter; every index / slice / WriteHeader as a step that may panic; the routes of
   main() with /debug, /metrics, /prometheus, /robots.txt and the mux's own answers; the broker state threaded
   through the IPC calls. Concurrency (requests overlapping in time) and the http.Server of main() are not in
   the model: they are observed (soak in a child process, the broker binary over TCP). *)
From Coq Require Import List NArith Bool String.
From Snow Require Import Lib.Wire Model.BrokerHttp Proofs.BrokerHttpProofs.
Import ListNotations.
Open Scope N_scope.

Theorem C14_handlers_never_panic :
  forall enc_req dec_resp enc_err amp_dec amp_arm ipc_client ipc_proxy ipc_answer,
  (forall rd h, client_offers enc_req dec_resp ipc_client H1 rd h <> HPanic) /\
  (forall rd, proxy_polls ipc_proxy rd <> HPanic) /\
  (forall rd, proxy_answers ipc_answer rd <> HPanic) /\
  (forall ok path, amp_client_offers enc_err amp_dec amp_arm ipc_client ok path <> HPanic).
Proof. exact handlers_total_v1. Qed.

(* the legacy request and the versioned POST it is shimmed into reach the IPC layer with the same body, and
   the legacy response is the image under the total map [legacy_map] of the versioned response - within the size
   limit: [versioned_twin] is the encoded body as the handler reads it when it is POSTed directly, i.e. through the
   100 000 byte read limit; the hypothesis is about the request at hand (the real encoder embeds the offer, so no
   bound holds for all offers). Beyond the limit: C14_legacy_shim_diverges_over_limit. *)
Theorem C14_legacy_equiv :
  forall enc_req dec_resp ipc_client,
  (forall o n, is_legacy (enc_req o n) = false) ->
  forall v offer nat_header, is_legacy offer = true ->
    N.of_nat (List.length (enc_req offer nat_header)) <= READ_LIMIT_N ->
    client_offers enc_req dec_resp ipc_client v (ReadOk offer) nat_header =
    match client_offers enc_req dec_resp ipc_client v (versioned_twin enc_req offer nat_header) nat_header with
    | HResp 200 response => legacy_map dec_resp v response
    | other => other
    end.
Proof. exact legacy_equiv. Qed.

(* The shim diverges at the size limit (inherent: clientOffers hands the encoded body to IPC without putting it through
   the limit again). A legacy body that was read - hence at most 100 000 bytes - whose versioned encoding exceeds
   100 000 bytes (the encoding adds the version line, the field names, the NAT type and the default fingerprint, and
   JSON escaping grows the offer) is answered per IPC, while the same encoding POSTed directly is a 400.
   For every encoder, decoder and IPC behaviour; no hypothesis on the encoder. *)
Theorem C14_legacy_shim_diverges_over_limit :
  forall enc_req dec_resp ipc_client v offer nat_header,
    is_legacy offer = true ->
    READ_LIMIT_N < N.of_nat (List.length (enc_req offer nat_header)) ->
    client_offers enc_req dec_resp ipc_client v (ReadOk offer) nat_header =
      match ipc_client (enc_req offer nat_header) with
      | IpcOk response => legacy_map dec_resp v response
      | _ => HResp 500 []
      end /\
    client_offers enc_req dec_resp ipc_client v (versioned_twin enc_req offer nat_header) nat_header = HResp 400 [].
Proof. exact legacy_diverges_over_limit. Qed.

(* an encoder shaped like EncodeClientPollRequest: version line, then the JSON object with the offer escaped the way
   encoding/json escapes quotes and backslashes (used by the examples only) *)
Definition ex_escape (o : bytes) : bytes :=
  flat_map (fun c => if c =? 34 then [92; 34] else if c =? 92 then [92; 92] else [c]) o.
Definition ex_enc (o n : bytes) : bytes :=
  bs "1.0" ++ [10] ++ bs "{""offer"":""" ++ ex_escape o ++ bs """,""nat"":""" ++ n ++
  bs """,""fingerprint"":""2B280B23E1107BB62ABFC40DDCC8824814F80A72""}".

(* the divergence is real, and the hypotheses of C14_legacy_equiv are satisfiable by an encoder that embeds the offer:
   (1) a 9-byte legacy offer: within the limit, legacy answer = image of the twin's answer (503 for "no proxies");
   (2) a 99 930-byte legacy offer without a single character to escape: read in full, its encoding is 100 012 bytes;
   (3) a 55 001-byte legacy offer made of quotes: its encoding is 110 083 bytes.
   In (2) and (3) the legacy request is answered 503 (what IPC said), the encoding POSTed directly 400. *)
Example C14_legacy_shim_diverges_ex :
  let dec := fun r : bytes => Some {| r_answer := []; r_error := r |} in
  let ipc := fun _ : bytes => IpcOk STR_NO_PROXIES in
  let small := bs "{""sdp"":1}" in
  let plain := 123 :: repeat 120 (N.to_nat 99929) in
  let quotes := 123 :: repeat 34 (N.to_nat 55000) in
  (forall o n, is_legacy (ex_enc o n) = false) /\
  (is_legacy small = true /\ N.of_nat (List.length (ex_enc small [])) <= READ_LIMIT_N /\
   client_offers ex_enc dec ipc H1 (ReadOk small) [] = HResp 503 [] /\
   client_offers ex_enc dec ipc H1 (versioned_twin ex_enc small []) [] = HResp 200 STR_NO_PROXIES) /\
  (is_legacy plain = true /\ N.of_nat (List.length plain) = 99930 /\ N.of_nat (List.length (ex_enc plain [])) = 100012 /\
   client_offers ex_enc dec ipc H1 (read_body plain) [] = HResp 503 [] /\
   client_offers ex_enc dec ipc H1 (versioned_twin ex_enc plain []) [] = HResp 400 []) /\
  (is_legacy quotes = true /\ N.of_nat (List.length quotes) = 55001 /\ N.of_nat (List.length (ex_enc quotes [])) = 110083 /\
   client_offers ex_enc dec ipc H1 (read_body quotes) [] = HResp 503 [] /\
   client_offers ex_enc dec ipc H1 (versioned_twin ex_enc quotes []) [] = HResp 400 []).
Proof.
  split; [intros o n; reflexivity|].
  split; [vm_compute; repeat split; discriminate|].
  split; (split; [reflexivity|]; split; [vm_compute; reflexivity|]; split; [vm_compute; reflexivity|];
          split; vm_compute; reflexivity).
Qed.

Theorem C14_legacy_map :
  forall dec_resp response,
    match dec_resp response with
    | None => legacy_map dec_resp H1 response = HResp 500 []
    | Some r =>
        (r_error r = [] -> legacy_map dec_resp H1 response = HResp 200 (r_answer r)) /\
        (r_error r = STR_NO_PROXIES -> legacy_map dec_resp H1 response = HResp 503 []) /\
        (r_error r = STR_TIMED_OUT -> legacy_map dec_resp H1 response = HResp 504 []) /\
        (r_error r <> [] -> r_error r <> STR_NO_PROXIES -> r_error r <> STR_TIMED_OUT ->
           legacy_map dec_resp H1 response = HResp 400 [])
    end.
Proof. exact legacy_map_cases. Qed.

Theorem C14_client_status_set :
  forall enc_req dec_resp ipc_client v rd h,
    match client_offers enc_req dec_resp ipc_client v rd h with
    | HResp st _ => st = 200 \/ st = 400 \/ st = 500 \/ st = 503 \/ st = 504
    | HPanic => v = H0
    end.
Proof. exact status_set. Qed.

(* the pinned code: a legacy request whose shimmed poll is rejected with any other error string panics *)
Theorem C14_v0_refuted :
  forall enc_req dec_resp ipc_client offer h r,
    is_legacy offer = true -> ipc_client (enc_req offer h) = IpcOk r ->
    dec_resp r = Some {| r_answer := []; r_error := bs "invalid NAT type" |} ->
    client_offers enc_req dec_resp ipc_client H0 (ReadOk offer) h = HPanic.
Proof. exact v0_legacy_panics. Qed.

Example C14_nonvacuous :
  let enc := fun (o n : bytes) => bs "1.0" ++ [10] ++ o in
  let dec := fun (r : bytes) => Some {| r_answer := []; r_error := r |} in
  let ipc := fun (_ : bytes) => IpcOk (bs "invalid NAT type") in
  is_legacy (bs "{x}") = true /\
  client_offers enc dec ipc H0 (ReadOk (bs "{x}")) [] = HPanic /\
  client_offers enc dec ipc H1 (ReadOk (bs "{x}")) [] = HResp 400 [].
Proof. repeat split. Qed.

(* ===================== the refined model: partial operations, routes, broker state ===================== *)

(* no request - any method, path, header lines, body - makes a handler of the repaired code panic, whatever the
   IPC layer and the codecs return: every body[0] is behind its length test, every path[n:] behind HasPrefix,
   every WriteHeader code within 100..999 *)
Theorem C14_no_request_panics :
  forall (St : Type) view enc_req dec_resp enc_err amp_dec amp_arm (ipc_client ipc_proxy ipc_answer : St -> bytes -> ipcres * St) r s q,
  fst (handle St view enc_req dec_resp enc_err amp_dec amp_arm ipc_client ipc_proxy ipc_answer H1 r s q) <> Panicked /\
  fst (serve_req St view enc_req dec_resp enc_err amp_dec amp_arm ipc_client ipc_proxy ipc_answer H1 s q) <> Panicked.
Proof. exact serve_never_panics_v1. Qed.

Theorem C14_v0_request_panics :
  forall (St : Type) view enc_req dec_resp enc_err amp_dec amp_arm (ipc_client ipc_proxy ipc_answer : St -> bytes -> ipcres * St) s q offer r s',
  route_of (q_path q) = RClient -> beq (q_method q) OPTIONS = false ->
  read_body (q_sent q) = ReadOk offer -> is_legacy offer = true ->
  ipc_client s (enc_req offer (header_get (q_hdrs q) NAT_HEADER)) = (IpcOk r, s') ->
  dec_resp r = Some {| r_answer := []; r_error := bs "invalid NAT type" |} ->
  fst (serve_req St view enc_req dec_resp enc_err amp_dec amp_arm ipc_client ipc_proxy ipc_answer H0 s q) = Panicked.
Proof. exact serve_v0_panics. Qed.

(* the mux hands ampClientOffers only paths that start with /amp/client/ ... *)
Theorem C14_mux_amp_prefix : forall p, route_of p = RAmp -> exists t, p = AMP_ROUTE_B ++ t.
Proof. exact route_amp_prefix. Qed.

(* ... and a path without the prefix (the handler called directly) is answered 500 without touching the state *)
Theorem C14_amp_wrong_prefix :
  forall (St : Type) enc_err amp_dec amp_arm (ipc_client : St -> bytes -> ipcres * St) s q w,
  has_prefix AMP_ROUTE_B (q_path q) = false ->
  amp_w St enc_err amp_dec amp_arm ipc_client s q w = wstatus St 500 w s.
Proof. exact amp_wrong_prefix. Qed.

(* CORS preflight on every wrapped route: empty 200 with the CORS headers, state untouched *)
Theorem C14_options_preflight :
  forall (St : Type) view enc_req dec_resp enc_err amp_dec amp_arm (ipc_client ipc_proxy ipc_answer : St -> bytes -> ipcres * St) v r s q,
  wrapped r = true -> q_method q = OPTIONS ->
  handle St view enc_req dec_resp enc_err amp_dec amp_arm ipc_client ipc_proxy ipc_answer v r s q = (Ret (set_cors rw_new), s) /\
  respond q (Ret (set_cors rw_new)) = Ret {| p_status := 200; p_body := []; p_cors := true |}.
Proof. exact options_early_return. Qed.

(* a body beyond 100000 bytes: 400 on /proxy, /client and /answer, state untouched *)
Theorem C14_oversize_400 :
  forall (St : Type) view enc_req dec_resp enc_err amp_dec amp_arm (ipc_client ipc_proxy ipc_answer : St -> bytes -> ipcres * St) v r s q,
  (r = RProxy \/ r = RClient \/ r = RAnswer) ->
  beq (q_method q) OPTIONS = false -> READ_LIMIT_N < N.of_nat (List.length (q_sent q)) ->
  handle St view enc_req dec_resp enc_err amp_dec amp_arm ipc_client ipc_proxy ipc_answer v r s q =
    (Ret {| w_code := Some 400; w_body := []; w_cors := true |}, s).
Proof. exact oversize_is_400. Qed.

(* handlers change the broker state through IPC only: a request that does not get as far as an IPC call
   (preflight, oversize body, undecodable AMP path, unknown route, /debug, /metrics, /prometheus, /robots.txt)
   leaves the state as it was ... *)
Theorem C14_state_only_through_ipc :
  forall (St : Type) view enc_req dec_resp enc_err amp_dec amp_arm (ipc_client ipc_proxy ipc_answer : St -> bytes -> ipcres * St) v s q,
  reaches_ipc amp_dec q = false ->
  snd (serve_req St view enc_req dec_resp enc_err amp_dec amp_arm ipc_client ipc_proxy ipc_answer v s q) = s.
Proof. exact no_ipc_state_unchanged. Qed.

(* ... and one that does leaves exactly the state its IPC call leaves *)
Theorem C14_state_is_ipc_state :
  forall (St : Type) view enc_req dec_resp enc_err amp_dec amp_arm (ipc_client ipc_proxy ipc_answer : St -> bytes -> ipcres * St) v s q,
  reaches_ipc amp_dec q = true ->
  exists ipc body, In ipc [ipc_client; ipc_proxy; ipc_answer] /\
    snd (serve_req St view enc_req dec_resp enc_err amp_dec amp_arm ipc_client ipc_proxy ipc_answer v s q) = snd (ipc s body).
Proof. exact ipc_state. Qed.

(* histories: removing any set of such requests from a request sequence changes no other response *)
Theorem C14_history_unaffected :
  forall (St : Type) view enc_req dec_resp enc_err amp_dec amp_arm (ipc_client ipc_proxy ipc_answer : St -> bytes -> ipcres * St) v
         (drop : hreq -> bool),
  (forall q, drop q = true -> reaches_ipc amp_dec q = false) ->
  forall qs s,
    filter (fun p => negb (drop (fst p))) (run_reqs St view enc_req dec_resp enc_err amp_dec amp_arm ipc_client ipc_proxy ipc_answer v s qs) =
    run_reqs St view enc_req dec_resp enc_err amp_dec amp_arm ipc_client ipc_proxy ipc_answer v s (filter (fun q => negb (drop q)) qs).
Proof. exact history_drop. Qed.

Theorem C14_malformed_prefix_invisible :
  forall (St : Type) view enc_req dec_resp enc_err amp_dec amp_arm (ipc_client ipc_proxy ipc_answer : St -> bytes -> ipcres * St) v pre s q,
  Forall (fun p => reaches_ipc amp_dec p = false) pre ->
  fst (serve_req St view enc_req dec_resp enc_err amp_dec amp_arm ipc_client ipc_proxy ipc_answer v s q) =
  match last (run_reqs St view enc_req dec_resp enc_err amp_dec amp_arm ipc_client ipc_proxy ipc_answer v s (pre ++ [q])) (q, Panicked) with (_, o) => o end.
Proof. exact malformed_prefix_invisible. Qed.

(* the refined client handler computes the total function the first half of this file is about *)
Theorem C14_client_refines :
  forall (St : Type) enc_req dec_resp (ipc_client : St -> bytes -> ipcres * St) v s q,
  hresp_of (fst (client_offers_w St enc_req dec_resp ipc_client v s q (set_cors rw_new))) =
  client_offers enc_req dec_resp (fun b => fst (ipc_client s b)) v (read_body (q_sent q)) (header_get (q_hdrs q) NAT_HEADER).
Proof. exact client_offers_refines. Qed.

(* legacy == versioned at the level of whole requests, within the size limit: the legacy request and the versioned
   POST of the shimmed body make the same IPC call and leave the same broker state; the legacy response is the image
   of the other. The size hypothesis is about the encoding of the request at hand (non-vacuity with an encoder that
   embeds the offer: C14_legacy_twin_ex). *)
Theorem C14_legacy_twin :
  forall (St : Type) view enc_req dec_resp enc_err amp_dec amp_arm (ipc_client ipc_proxy ipc_answer : St -> bytes -> ipcres * St),
  (forall o n, is_legacy (enc_req o n) = false) ->
  forall v s q q' offer,
  route_of (q_path q) = RClient -> route_of (q_path q') = RClient ->
  beq (q_method q) OPTIONS = false -> beq (q_method q') OPTIONS = false ->
  read_body (q_sent q) = ReadOk offer -> is_legacy offer = true ->
  q_sent q' = enc_req offer (header_get (q_hdrs q) NAT_HEADER) ->
  N.of_nat (List.length (enc_req offer (header_get (q_hdrs q) NAT_HEADER))) <= READ_LIMIT_N ->
  snd (serve_req St view enc_req dec_resp enc_err amp_dec amp_arm ipc_client ipc_proxy ipc_answer v s q) =
  snd (serve_req St view enc_req dec_resp enc_err amp_dec amp_arm ipc_client ipc_proxy ipc_answer v s q') /\
  hresp_of (fst (handle St view enc_req dec_resp enc_err amp_dec amp_arm ipc_client ipc_proxy ipc_answer v RClient s q)) =
    match hresp_of (fst (handle St view enc_req dec_resp enc_err amp_dec amp_arm ipc_client ipc_proxy ipc_answer v RClient s q')) with
    | HResp 200 response => legacy_map dec_resp v response
    | other => other
    end.
Proof. exact legacy_twin_same_state. Qed.

(* ... and beyond it the two requests part: the legacy request makes the IPC call on the encoded body whatever its
   size, leaves the state that call leaves and answers with the image of its outcome; the encoded body POSTed directly
   is answered 400 without an IPC call, the state untouched. *)
Theorem C14_legacy_twin_over_limit :
  forall (St : Type) view enc_req dec_resp enc_err amp_dec amp_arm (ipc_client ipc_proxy ipc_answer : St -> bytes -> ipcres * St),
  forall v s q q' offer,
  route_of (q_path q) = RClient -> route_of (q_path q') = RClient ->
  beq (q_method q) OPTIONS = false -> beq (q_method q') OPTIONS = false ->
  read_body (q_sent q) = ReadOk offer -> is_legacy offer = true ->
  q_sent q' = enc_req offer (header_get (q_hdrs q) NAT_HEADER) ->
  READ_LIMIT_N < N.of_nat (List.length (enc_req offer (header_get (q_hdrs q) NAT_HEADER))) ->
  let call := ipc_client s (enc_req offer (header_get (q_hdrs q) NAT_HEADER)) in
  snd (serve_req St view enc_req dec_resp enc_err amp_dec amp_arm ipc_client ipc_proxy ipc_answer v s q) = snd call /\
  hresp_of (fst (handle St view enc_req dec_resp enc_err amp_dec amp_arm ipc_client ipc_proxy ipc_answer v RClient s q)) =
    match fst call with
    | IpcOk response => legacy_map dec_resp v response
    | _ => HResp 500 []
    end /\
  handle St view enc_req dec_resp enc_err amp_dec amp_arm ipc_client ipc_proxy ipc_answer v RClient s q' =
    (Ret {| w_code := Some 400; w_body := []; w_cors := true |}, s) /\
  snd (serve_req St view enc_req dec_resp enc_err amp_dec amp_arm ipc_client ipc_proxy ipc_answer v s q') = s.
Proof. exact legacy_twin_over_limit. Qed.

(* non-vacuity of both, on whole requests, with a state that counts the client polls IPC has seen: within the limit
   both requests leave the count at 1 and the legacy answer is the image (503) of the twin's (200 + error text);
   with a quote-heavy 55 001-byte legacy offer the legacy request still reaches IPC (count 1, 503), its encoding
   POSTed directly does not (count 0, 400). *)
Example C14_legacy_twin_ex :
  let St := N in
  let view := fun _ : St => {| v_snowflakes := []; v_metrics := None; v_prom := [] |} in
  let dec := fun r : bytes => Some {| r_answer := []; r_error := r |} in
  let ipc := fun (s : St) (_ : bytes) => (IpcOk STR_NO_PROXIES, s + 1) in
  let nope := fun (s : St) (_ : bytes) => (IpcBadRequest, s) in
  let srv := serve_req St view ex_enc dec (fun e => e) (fun _ => None) (fun b => b) ipc nope nope H1 0 in
  let rq := fun hdrs body => {| q_method := bs "POST"; q_path := bs "/client"; q_hdrs := hdrs; q_sent := body |} in
  let nat := [(bs "Snowflake-NAT-Type", bs "restricted")] in
  let small := bs "{""sdp"":1}" in
  let quotes := 123 :: repeat 34 (N.to_nat 55000) in
  (N.of_nat (List.length (ex_enc small (header_get nat NAT_HEADER))) <= READ_LIMIT_N /\
   srv (rq nat small) = (Ret {| p_status := 503; p_body := []; p_cors := true |}, 1) /\
   srv (rq [] (ex_enc small (bs "restricted"))) = (Ret {| p_status := 200; p_body := STR_NO_PROXIES; p_cors := true |}, 1)) /\
  (N.of_nat (List.length quotes) = 55001 /\ READ_LIMIT_N < N.of_nat (List.length (ex_enc quotes (header_get nat NAT_HEADER))) /\
   srv (rq nat quotes) = (Ret {| p_status := 503; p_body := []; p_cors := true |}, 1) /\
   srv (rq [] (ex_enc quotes (bs "restricted"))) = (Ret {| p_status := 400; p_body := []; p_cors := true |}, 0)).
Proof. vm_compute. repeat split; discriminate. Qed.

(* the NAT type is found under any spelling of the header name with the same canonical form; the first line wins *)
Theorem C14_header_spelling : forall lines k1 k2, canon_key k1 = canon_key k2 -> header_get lines k1 = header_get lines k2.
Proof. exact header_get_spelling. Qed.

Theorem C14_header_first_wins : forall k v rest key, canon_key k = canon_key key -> header_get ((k, v) :: rest) key = trim_ows v.
Proof. exact header_get_first. Qed.

(* non-vacuity: a concrete broker state (the list of registered proxies), an IPC layer that registers a proxy on a
   well-formed poll, and a history in which malformed requests are interleaved *)
Example C14_history_nonvacuous :
  let St := list (bytes * bytes) in
  let view := fun s : St => {| v_snowflakes := s; v_metrics := None; v_prom := bs "# TYPE x counter" |} in
  let ipc_proxy := fun (s : St) (b : bytes) => if beq b (bs "poll") then (IpcOk (bs "{}"), (bs "standalone", bs "restricted") :: s) else (IpcBadRequest, s) in
  let ipc_other := fun (s : St) (b : bytes) => (IpcOk b, s) in
  let amp_dec := fun p : bytes => if beq p (bs "0/x") then Some (bs "x") else None in
  let rq := fun m p b : bytes => {| q_method := m; q_path := p; q_hdrs := [(bs "snowflake-nat-type", bs " unknown ")]; q_sent := b |} in
  let good := [rq (bs "POST") (bs "/proxy") (bs "poll"); rq (bs "GET") (bs "/debug") (bs "")] in
  let bad := [rq (bs "OPTIONS") (bs "/proxy") (bs "poll"); rq (bs "GET") (bs "/amp/client/1") (bs ""); rq (bs "POST") (bs "/nosuch") (bs "poll"); rq (bs "GET") (bs "/metrics") (bs "")] in
  let run := run_reqs St view (fun o n => 49 :: o) (fun _ => None) (fun e => e) amp_dec (fun b => b) ipc_other ipc_proxy ipc_other H1 [] in
  forallb (fun q => negb (reaches_ipc amp_dec q)) bad = true /\
  reaches_ipc amp_dec (rq (bs "POST") (bs "/proxy") (bs "poll")) = true /\
  header_get [(bs "snowflake-nat-type", bs " unknown ")] NAT_HEADER = bs "unknown" /\
  map snd (run good) =
    [Ret {| p_status := 200; p_body := bs "{}"; p_cors := true |};
     Ret {| p_status := 200; p_body := debug_body [(bs "standalone", bs "restricted")]; p_cors := true |}] /\
  map snd (filter (fun p => reaches_ipc amp_dec (fst p) || beq (q_path (fst p)) (bs "/debug"))
                  (run (bad ++ [rq (bs "POST") (bs "/proxy") (bs "poll")] ++ bad ++ [rq (bs "GET") (bs "/debug") (bs "")] ++ bad))) = map snd (run good).
Proof. vm_compute. repeat split. Qed.

Example C14_v0_request_panics_ex :
  let St := unit in
  let q := {| q_method := bs "POST"; q_path := bs "/client"; q_hdrs := [(bs "Snowflake-NAT-Type", bs "bogus")]; q_sent := bs "{x}" |} in
  let srv := serve_req St (fun _ => {| v_snowflakes := []; v_metrics := None; v_prom := [] |}) (fun o n => bs "1.0" ++ [10] ++ n)
               (fun r => Some {| r_answer := []; r_error := r |}) (fun e => e) (fun _ => None) (fun b => b)
               (fun s b => (IpcOk (bs "invalid NAT type"), s)) (fun s b => (IpcBadRequest, s)) (fun s b => (IpcBadRequest, s)) in
  fst (srv H0 tt q) = Panicked /\ fst (srv H1 tt q) = Ret {| p_status := 400; p_body := []; p_cors := true |}.
Proof. vm_compute. repeat split. Qed.
