(* placeholder until Proofs/MetricsProofs.v lands *)
From Snow Require Import Model.Round8.
