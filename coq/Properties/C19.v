(* C19 — published broker counts are rounded up to 8 and never too low; unique addresses; distinct-IP journal.
   Models: Model/Round8.v, Model/Metrics.v, Model/Journal.v, Model/BrokerJournal.v, Model/JournalConc.v.
   Proofs: Proofs/Round8Proofs.v, MetricsProofs.v, MetricsGeoProofs.v, JournalProofs.v, BrokerJournalProofs.v,
           JournalConcProofs.v. *)
From Coq Require Import List NArith ZArith Bool.
From Snow Require Import Lib.Wire Model.Round8 Model.Metrics Model.Journal Model.BrokerJournal Model.JournalConc.
From Snow Require Import Proofs.Round8Proofs Proofs.MetricsProofs Proofs.MetricsGeoProofs Proofs.JournalProofs Proofs.BrokerJournalProofs
  Proofs.JournalConcProofs.
Import ListNotations.

(* ---- binCount (float64 exact below 2^53: stated limitation, floats are not modelled) ---- *)
Theorem C19_bin_spec : forall n : N, (n <= bin n /\ bin n < n + 8 /\ N.divide 8 (bin n))%N.
Proof. exact bin_spec. Qed.

Theorem C19_bin_unique : forall n v : N, (n <= v -> v < n + 8 -> N.divide 8 v -> v = bin n)%N.
Proof. exact bin_unique. Qed.

(* ---- roundedCounter.Inc, sequential: after n Incs (total, value) = (n, bin n) ---- *)
Theorem C19_inc_seq : forall n : nat, incs n rc0 = (N.of_nat n, bin (N.of_nat n)).
Proof. exact inc_seq_from_zero. Qed.

(* ---- the pinned Inc (atomic add; plain reads; atomic add) under interleaving: REFUTED ---- *)
(* two threads: 10 Incs completed, published value 24 > bin 10 = 16 *)
Theorem C19_inc_conc_refuted :
  exists sched, let s := run0 sched init0 in
    quiescent0 2 s = true /\ done0 s = 10%nat /\ total0 s = 10%N /\ value0 s = 24%N /\ bin 10 = 16%N.
Proof. exists sched_overshoot. exact v0_overshoot. Qed.

(* nine threads: 9 Incs completed, published value 8 < 9: lower than the truth, and it stays so *)
Theorem C19_inc_conc_refuted_low :
  exists sched, let s := run0 sched init0 in
    quiescent0 9 s = true /\ done0 s = 9%nat /\ total0 s = 9%N /\ value0 s = 8%N.
Proof. exists sched_undershoot. exact v0_undershoot. Qed.

(* ---- the repaired Inc/Write (one mutex), every schedule of any number of threads ---- *)
(* whatever a scrape (Write) can read is bin(number of completed Incs), and then no Inc is in flight *)
Theorem C19_inc_conc : forall (sched : list nat) (v : N),
  observer (runr sched initr) = Some v ->
  v = bin (N.of_nat (doner (runr sched initr))) /\ startedr (runr sched initr) = doner (runr sched initr).
Proof. exact observer_exact. Qed.

(* at every intermediate point: completed <= value <= bin(started), value a multiple of 8, at most one Inc in flight *)
Theorem C19_inc_conc_always : forall sched : list nat,
  let s := runr sched initr in
  (N.of_nat (doner s) <= valuer s /\ valuer s <= bin (N.of_nat (startedr s)) /\ N.divide 8 (valuer s))%N /\
  (startedr s = doner s \/ startedr s = S (doner s)).
Proof. intros sched s. destruct (value_bounds_always sched) as [A [B [C D]]]. repeat split; assumption. Qed.

(* when all threads are outside Inc: the state is that of the sequential counter after the same number of Incs *)
Theorem C19_inc_conc_final : forall sched : list nat,
  let s := runr sched initr in
  (forall j, pcsr s j = IR) ->
  lockr s = None /\ totalr s = N.of_nat (doner s) /\ valuer s = bin (totalr s) /\ startedr s = doner s /\
  (totalr s, valuer s) = incs (doner s) rc0.
Proof. exact quiescent_exact. Qed.

(* the mutex never wedges the counter *)
Theorem C19_inc_conc_progress : forall (sched : list nat) (i : nat),
  exists j, stepr (runr sched initr) j <> None /\ (lockr (runr sched initr) = None -> j = i).
Proof. exact never_stuck. Qed.

Example C19_inc_conc_final_nonvacuous :
  let s := runr [0;0;0;0;0; 1;1;1;1]%nat initr in (forall j, pcsr s j = IR) /\ valuer s = 8%N /\ doner s = 2%nat.
Proof. cbv zeta. split; [|split; reflexivity]. intro j. destruct j as [|[|j]]; reflexivity. Qed.
Example C19_inc_conc_nonvacuous : observer (runr [0;0;0;0;0]%nat initr) = Some 8%N.
Proof. reflexivity. Qed.

(* the [sched] runner op (executed against the real roundedCounter under the same forced lock order) prints from
   [runr_trace]: its n-th state IS [runr] of the first n+1 schedule entries, the machine of the theorems above *)
Theorem C19_inc_sched_states : forall (sched : list nat) (s : str) (n : nat), (n < List.length sched)%nat ->
  nth_error (runr_trace sched s) n = Some (runr (firstn (S n) sched) s).
Proof. exact runr_trace_nth. Qed.
Example C19_inc_sched_example :
  map observer (runr_trace [0;1;0;0;1;0;0;1;1]%nat initr) =
  [None; None; None; None; None; None; Some 8%N; None; None].
Proof. reflexivity. Qed.

(* ---- broker counters: every figure of printMetrics and of the rounded prometheus counters ---- *)
Theorem C19_counts : forall (g : bool) (ops : list op),
  (forall e, r_ev (print (exec ops (minit g))) e = bin (count_ev e (flat_map log_events (since_zero ops)))) /\
  (forall k, prom_value (exec ops (minit g)) k = bin (count_key k (flat_map prom_events ops))).
Proof. intros g ops. split; [intro e; apply printed_counts | intro k; apply prom_counts]. Qed.

(* per-type unique figures = number of distinct addresses that polled with that normalised type since the last
   zeroMetrics (all unknown types share index 4); the total is their sum *)
Theorem C19_unique : forall (g : bool) (ops : list op),
  let r := print (exec ops (minit g)) in
  (forall t, r_type r t = distinct_polled t ops) /\
  r_total r = (distinct_polled 4 ops + (distinct_polled 0 ops + distinct_polled 1 ops + distinct_polled 2 ops + distinct_polled 3 ops))%N.
Proof. exact printed_unique. Qed.

Theorem C19_unique_sets : forall (g : bool) (ops : list op) (u : N),
  NoDup (tsets (exec ops (minit g)) u) /\
  (forall a, In a (tsets (exec ops (minit g)) u) <-> In a (flat_map (polled u) (since_zero ops))).
Proof. exact unique_sets. Qed.

(* Histories here include geoip reloads (LoadGeoipDatabases on SIGHUP, op [Reload ok]) at ANY point of a period.
   [period_geo g ops] = whether a table was loaded when the running period began, [first_sight g0 u a P] = the first
   accepted poll of address a under type class u in the period's ops P: (a table was loaded at that moment, the NAT
   type it reported, the country the table of that moment resolved it to). *)

(* NAT-type figures (snowflake-ips-nat-restricted / -unrestricted / -unknown; NOT binned by the code or the spec):
   the number of distinct addresses whose FIRST accepted poll of the period under some proxy type (the only poll
   UpdateCountryStats looks at) reported that NAT type while a geoip table was loaded *)
Theorem C19_nat_buckets : forall (g : bool) (ops : list op),
  let s := exec ops (minit g) in let r := print s in let P := since_zero ops in let g0 := period_geo g ops in
  (r_natr r = N.of_nat (List.length (nat_r s)) /\ NoDup (nat_r s) /\
   forall a, In a (nat_r s) <-> exists u c, first_sight g0 u a P = Some (true, 1%N, c)) /\
  (r_natu r = N.of_nat (List.length (nat_u s)) /\ NoDup (nat_u s) /\
   forall a, In a (nat_u s) <-> exists u c, first_sight g0 u a P = Some (true, 2%N, c)) /\
  (r_natk r = N.of_nat (List.length (nat_k s)) /\ NoDup (nat_k s) /\
   forall a, In a (nat_k s) <-> exists u n c, first_sight g0 u a P = Some (true, n, c) /\ n <> 1%N /\ n <> 2%N).
Proof. exact printed_nat. Qed.

(* country figures (snowflake-ips CC=NUM; not binned either): every country appears once, never with 0, and NUM is,
   summed over the five type classes, the number of distinct addresses of the class (the per-type sets of
   C19_unique_sets) whose first accepted poll of the period happened with a table loaded and resolved to CC - the
   attribution AT FIRST SIGHTING: a reload later in the period changes neither whether nor where an address counts *)
Theorem C19_countries : forall (g : bool) (ops : list op),
  let s := exec ops (minit g) in let r := print s in let P := since_zero ops in let g0 := period_geo g ops in
  NoDup (map fst (r_cc r)) /\ (forall kv, In kv (r_cc r) -> (0 < snd kv)%N) /\
  (forall u, NoDup (tsets s u) /\ forall a, In a (tsets s u) <-> In a (flat_map (polled u) P)) /\
  forall c, aget 0%N c (r_cc r) = ccsumg c g0 P (tsets s).
Proof. exact printed_countries. Qed.

(* a reload by itself changes no published figure: not the log figures, not the prometheus counters, not the
   de-duplication sets; only the table state *)
Theorem C19_geoip_reload_changes_no_figure : forall (s : mstate) (ok : bool),
  print (apply_op s (Reload ok)) = print s /\ prom (apply_op s (Reload ok)) = prom s /\
  ptotal (apply_op s (Reload ok)) = ptotal s /\ tsets (apply_op s (Reload ok)) = tsets s /\
  geo (apply_op s (Reload ok)) = ok.
Proof. exact reload_changes_no_figure. Qed.

(* the two statements as they read for histories without a reload: the table state is the start-up one throughout *)
Theorem C19_countries_no_reload : forall (g : bool) (ops : list op), no_reload ops = true ->
  let s := exec ops (minit g) in let r := print s in let P := since_zero ops in
  forall c, aget 0%N c (r_cc r) = if g then ccsum c P (tsets s) else 0%N.
Proof. exact printed_countries_no_reload. Qed.

Theorem C19_nat_buckets_no_reload : forall (g : bool) (ops : list op), no_reload ops = true ->
  let s := exec ops (minit g) in let P := since_zero ops in
  (forall a, In a (nat_r s) <-> g = true /\ exists u c, first_poll u a P = Some (1%N, c)) /\
  (forall a, In a (nat_u s) <-> g = true /\ exists u c, first_poll u a P = Some (2%N, c)) /\
  (forall a, In a (nat_k s) <-> g = true /\ exists u n c, first_poll u a P = Some (n, c) /\ n <> 1%N /\ n <> 2%N).
Proof. exact printed_nat_no_reload. Qed.

(* 65 (US) and 66 (CA) poll; the tables are replaced by a release that calls the same ranges SU and AC; 65 polls
   again and 67 (AC under the new table) polls: US=1 CA=1 AC=1 - the figures of before the reload are all still
   there, 65 is not counted again.  Then a reload fails (no table): 68 polls and is in the unique-address figure but
   in no country; after a good reload 68 polls again and STILL is in no country for the rest of the period (its first
   sighting was without a table). *)
Example C19_geoip_reload_example :
  let US := [85%N; 83%N] in let CA := [67%N; 65%N] in let SU := [83%N; 85%N] in let AC := [65%N; 67%N] in
  let ops := [ProxyPoll (Some ([65%N], US)) 0 1 true Idle; ProxyPoll (Some ([66%N], CA)) 0 2 true Idle; Reload true;
              ProxyPoll (Some ([65%N], SU)) 0 1 true Idle; ProxyPoll (Some ([67%N], AC)) 0 0 true Idle; Reload false;
              ProxyPoll (Some ([68%N], AC)) 0 1 true Idle; Reload true; ProxyPoll (Some ([68%N], AC)) 0 1 true Idle] in
  let r := print (exec ops (minit true)) in
  r_cc r = [(US, 1%N); (CA, 1%N); (AC, 1%N)] /\ r_type r 0%N = 4%N /\ r_natr r = 1%N /\ r_natu r = 1%N /\ r_natk r = 1%N /\
  first_sight true 0 [65%N] ops = Some (true, 1%N, US) /\ first_sight true 0 [68%N] ops = Some (false, 1%N, AC) /\
  no_reload ops = false /\ period_geo true ops = true.
Proof. cbv zeta. repeat split; reflexivity. Qed.
Example C19_no_reload_hyp_satisfiable :
  no_reload [ProxyPoll (Some ([65%N], [85%N; 83%N])) 0 1 true Idle; Zero; Print] = true.
Proof. reflexivity. Qed.

(* address 65 polls as standalone (restricted, US) and as webext (unrestricted, US), address 66 as standalone
   (unknown NAT, CA), then 65 again as standalone with another NAT type: US=2, CA=1; 65 is in the restricted and in
   the unrestricted set, 66 in the unknown one; the repeat changes nothing *)
Example C19_nat_countries_example :
  let ops := [ProxyPoll (Some ([65%N], [85%N; 83%N])) 0 1 true Idle; ProxyPoll (Some ([65%N], [85%N; 83%N])) 1 2 true Matched;
              ProxyPoll (Some ([66%N], [67%N; 65%N])) 0 0 false Idle; ProxyPoll (Some ([65%N], [85%N; 83%N])) 0 2 true Idle] in
  let r := print (exec ops (minit true)) in
  r_cc r = [([85%N; 83%N], 2%N); ([67%N; 65%N], 1%N)] /\ r_natr r = 1%N /\ r_natu r = 1%N /\ r_natk r = 1%N /\
  first_poll 0 [65%N] ops = Some (1%N, [85%N; 83%N]) /\ ccsum [85%N; 83%N] ops (tsets (exec ops (minit true))) = 2%N.
Proof. cbv zeta. repeat split; reflexivity. Qed.

(* the k-th report of a run is [print] of the state reached by the ops before the k-th Print *)
Theorem C19_reports : forall (pre post : list op) (g : bool),
  snd (run_ops (pre ++ Print :: post) (minit g) []) =
  snd (run_ops pre (minit g) []) ++ print (exec pre (minit g)) :: snd (run_ops post (exec pre (minit g)) []).
Proof. exact run_ops_prefix. Qed.

(* ---- distinct-IP journal (sketch = set of masked values; mask abstract) ---- *)
Theorem C19_journal_partition :
  forall (addr hash : Type) (mask : addr -> hash) (heqb : hash -> hash -> bool) (t0 interval : Z) (ops : list (jop addr)),
  mono addr t0 ops ->
  let w := jrun addr hash mask heqb ops (new_writer t0 interval) in
  exists (segs : list (list (Z * addr))) (open : list (Z * addr)),
    concat segs ++ open = flat_map (op_events addr) ops /\
    Forall2 (chunk_ok addr hash mask heqb) (w_out w) segs /\
    w_cur w = sk_of hash heqb (masks addr hash mask open) /\
    Forall (fun e => (w_last w <= fst e)%Z) open /\
    tiled hash t0 (w_out w) (w_last w).
Proof. exact partition. Qed.

Theorem C19_window :
  forall (hash : Type) (heqb : hash -> hash -> bool), (forall a b, heqb a b = true <-> a = b) ->
  forall (from to : Z) (j : list (chunk hash)),
  exists l, NoDup l /\
    (forall x, In x l <-> exists c, In c j /\ (from <= c_start c)%Z /\ (c_end c <= to)%Z /\ In x (c_sk c)) /\
    fst (count hash heqb from to j) = N.of_nat (length l) /\
    snd (count hash heqb from to j) = N.of_nat (length (filter (insideb hash from to) j)).
Proof. exact window. Qed.

(* a sketch built from a list of masked values is exactly the set of those values *)
Theorem C19_sketch_set :
  forall (hash : Type) (heqb : hash -> hash -> bool), (forall a b, heqb a b = true <-> a = b) ->
  forall hs : list hash, NoDup (sk_of hash heqb hs) /\ (forall x, In x (sk_of hash heqb hs) <-> In x hs).
Proof. exact sk_of_spec. Qed.

Theorem C19_window_test : forall (hash : Type) (from to : Z) (c : chunk hash),
  skipped hash from to c = false <-> (from <= c_start c /\ c_end c <= to)%Z.
Proof. exact skipped_spec. Qed.

Theorem C19_mask_only :
  forall (addr hash : Type) (mask : addr -> hash) (heqb : hash -> hash -> bool) (now : Z) (a b : addr) (w : writer hash),
  mask a = mask b -> add addr hash mask heqb now a w = add addr hash mask heqb now b w.
Proof. exact mask_only. Qed.

Example C19_window_hyp_satisfiable : forall a b : N, N.eqb a b = true <-> a = b.
Proof. exact N.eqb_eq. Qed.
Example C19_journal_hyp_satisfiable : mono N 0%Z [Add 1%Z 5%N; Add 7%Z 6%N; Flush 9%Z; Add 9%Z 5%N].
Proof. cbn. repeat split; discriminate. Qed.
Example C19_journal_example :
  map (fun c => (c_start c, c_end c, c_sk c))
      (w_out (jrun N N (fun x => x) N.eqb [Add 1%Z 5%N; Add 7%Z 6%N; Flush 9%Z; Add 9%Z 5%N] (new_writer 0%Z 3%Z)))
  = [(0%Z, 7%Z, [5%N]); (7%Z, 9%Z, [6%N])].
Proof. reflexivity. Qed.

(* ---- FINDING: a journal line longer than the reader's scanner buffer (64 KiB) ----
   A chunk that recorded some 21 000 distinct addresses or more is written as ONE line of more than 65 536 bytes.  The
   pinned reader (bufio.Scanner with its default buffer, Err() never examined; Model/Journal.v count_v0) ends its loop
   at that line as at the end of the file: the chunk and everything behind it are left out and NO error is returned.
   REFUTED for the pinned reader: a journal of three chunks, all inside the window, holding four distinct addresses; the
   middle line is long: (1 address, 1 chunk) is reported where the window law (C19_window) says (4, 3) *)
Theorem C19_journal_reader_long_line_refuted :
  exists (long : chunk N -> bool) (j : list (chunk N)) (from to : Z),
    Forall (fun c => (from <= c_start c /\ c_end c <= to)%Z) j /\
    count N N.eqb from to j = (4%N, 3%N) /\ count_v0 N N.eqb long from to j = (1%N, 1%N).
Proof.
  exists (fun c => (2 <=? List.length (c_sk c))%nat),
         [{| c_start := 0%Z; c_end := 1%Z; c_sk := [1%N] |}; {| c_start := 1%Z; c_end := 2%Z; c_sk := [2%N; 3%N] |};
          {| c_start := 2%Z; c_end := 3%Z; c_sk := [4%N] |}], 0%Z, 3%Z.
  split; [repeat constructor; cbn; discriminate | split; reflexivity].
Qed.

(* what the pinned reader answers: the window count of the lines in front of the first long one; it is the window
   count of the journal exactly when no line is long.  The repaired reader (scanner buffer enlarged, Err() returned)
   is [count]: C19_window holds for it whatever the line lengths *)
Theorem C19_journal_reader_v0_cut :
  forall (hash : Type) (heqb : hash -> hash -> bool) (long : chunk hash -> bool) (from to : Z) (pre : list (chunk hash)) (c : chunk hash) (post : list (chunk hash)),
  long c = true -> (forall c', In c' pre -> long c' = false) ->
  count_v0 hash heqb long from to (pre ++ c :: post) = count hash heqb from to pre.
Proof. exact count_v0_cut. Qed.

Theorem C19_journal_reader_v0_short_lines :
  forall (hash : Type) (heqb : hash -> hash -> bool) (long : chunk hash -> bool) (from to : Z) (j : list (chunk hash)),
  (forall c, In c j -> long c = false) -> count_v0 hash heqb long from to j = count hash heqb from to j.
Proof. exact count_v0_no_long. Qed.

Example C19_journal_reader_v0_cut_hyp_satisfiable :
  let long := fun c : chunk N => (2 <=? List.length (c_sk c))%nat in
  long {| c_start := 1%Z; c_end := 2%Z; c_sk := [2%N; 3%N] |} = true /\
  (forall c', In c' [{| c_start := 0%Z; c_end := 1%Z; c_sk := [1%N] |}] -> long c' = false).
Proof. cbv zeta. split; [reflexivity | intros c' [<-|[]]; reflexivity]. Qed.

(* ---- a journal sink that fails (Write error with nothing / part of the line / the whole text without the newline /
   the whole line written, Sync error), in any pattern ---- *)
(* Every chunk that can be read back from the file holds exactly the masked addresses of some recorded events, and its
   recording span [c_start, c_end] CONTAINS the instant of every one of them - so "inside the window" in C19_window
   still means "recorded inside the window".  The open sketch holds events no older than the last write the writer
   took for successful.  While no line of the file is damaged, no recorded event is lost. *)
Theorem C19_journal_failed_writes :
  forall (addr hash : Type) (mask : addr -> hash) (heqb : hash -> hash -> bool) (t0 interval : Z) (plan : list wres)
         (ops : list (jop addr)),
  mono addr t0 ops ->
  let w := fjrun addr hash mask heqb ops (fnew t0 interval plan) in
  let evs := flat_map (op_events addr) ops in
  (forall c, In (Some c) (file_of w) ->
     exists seg, c_sk c = sk_of hash heqb (masks addr hash mask seg) /\ (c_start c <= c_end c)%Z /\
                 Forall (fun e => (c_start c <= fst e <= c_end c)%Z) seg /\ incl seg evs) /\
  (exists open, f_cur w = sk_of hash heqb (masks addr hash mask open) /\ Forall (fun e => (f_last w <= fst e)%Z) open /\
     incl open evs /\
     (readable (f_lines w) = true ->
      forall e, In e evs -> In e open \/
        exists c seg, In (Some c) (f_lines w) /\ c_sk c = sk_of hash heqb (masks addr hash mask seg) /\ In e seg /\
                      (c_start c <= fst e <= c_end c)%Z)).
Proof. exact failed_writes. Qed.

(* a sink that never fails: the failing-sink writer is the writer of C19_journal_partition, line for line *)
Theorem C19_journal_never_failing_sink :
  forall (addr hash : Type) (mask : addr -> hash) (heqb : hash -> hash -> bool) (t0 interval : Z) (ops : list (jop addr)),
  let w := jrun addr hash mask heqb ops (new_writer t0 interval) in
  let fw := fjrun addr hash mask heqb ops (fnew t0 interval []) in
  file_of fw = map Some (w_out w) /\ f_cur fw = w_cur w /\ f_last fw = w_last w /\
  forall from to, fcount hash heqb from to (file_of fw) = Some (count hash heqb from to (w_out w)).
Proof. exact never_failing_sink. Qed.

(* the reader answers only when every line parses, and then with the window count of the chunks (C19_window) *)
Theorem C19_journal_reader :
  forall (hash : Type) (heqb : hash -> hash -> bool) (from to : Z) (f : list (option (chunk hash))) (r : N * N),
  fcount hash heqb from to f = Some r <-> readable f = true /\ r = count hash heqb from to (good_lines f).
Proof. exact fcount_spec. Qed.

(* the broker's journal with a failing sink: the metrics never notice, and the statement above holds with "recorded
   event" = "accepted poll" *)
Theorem C19_journal_failed_writes_broker :
  forall (hash : Type) (mask : bytes -> hash) (heqb : hash -> hash -> bool) (g : bool) (t0 k : Z) (plan : list wres) (ops : list bop),
  bmono t0 ops ->
  let s := bfrun hash mask heqb ops (bfinit hash g t0 k plan) in
  let polls := flat_map accepted ops in
  bf_m s = exec (flat_map mop_of ops) (minit g) /\
  (forall c, In (Some c) (file_of (bf_w s)) ->
     exists seg, c_sk c = sk_of hash heqb (masks bytes hash mask seg) /\ (c_start c <= c_end c)%Z /\
                 Forall (fun e => (c_start c <= fst e <= c_end c)%Z) seg /\ incl seg polls) /\
  (exists open, f_cur (bf_w s) = sk_of hash heqb (masks bytes hash mask open) /\
     Forall (fun e => (f_last (bf_w s) <= fst e)%Z) open /\ incl open polls /\
     (readable (f_lines (bf_w s)) = true ->
      forall e, In e polls -> In e open \/
        exists c seg, In (Some c) (f_lines (bf_w s)) /\ c_sk c = sk_of hash heqb (masks bytes hash mask seg) /\ In e seg /\
                      (c_start c <= fst e <= c_end c)%Z)).
Proof. exact failed_writes_broker. Qed.

(* interval 3; the auto-flushes at 5 and at 6 fail with nothing written, the flush at 9 succeeds: ONE chunk [0,9] with all three
   addresses - the span still starts at the last successful write, not at the failed one *)
Example C19_journal_failed_write_example :
  let ops := [Add 1%Z 5%N; Add 5%Z 6%N; Add 6%Z 7%N; Flush 9%Z] in
  mono N 0%Z ops /\
  map (option_map (fun c => (c_start c, c_end c, c_sk c))) (file_of (fjrun N N (fun x => x) N.eqb ops (fnew 0%Z 3%Z [WNone; WNone]))) =
    [Some (0%Z, 9%Z, [5%N; 6%N; 7%N])] /\
  fcount N N.eqb 0%Z 9%Z (file_of (fjrun N N (fun x => x) N.eqb ops (fnew 0%Z 3%Z [WNone; WNone]))) = Some (3%N, 1%N).
Proof. cbv zeta. split; [cbn; repeat split; discriminate | split; reflexivity]. Qed.

(* FINDING (robustness, not a count error): ONE short write leaves an unterminated rest in the file; the next line is
   appended behind it and the two form a line that does not parse; ClusterCounter.Count then fails for EVERY window,
   including windows that hold only intact chunks *)
Example C19_journal_short_write_blinds_reader :
  let ops := [Add 1%Z 5%N; Flush 2%Z; Add 3%Z 6%N; Flush 4%Z; Add 5%Z 7%N; Flush 6%Z] in
  let f := file_of (fjrun N N (fun x => x) N.eqb ops (fnew 0%Z 100%Z [WOk; WTorn; WOk])) in
  map (option_map (fun c => (c_start c, c_end c))) f = [Some (0%Z, 2%Z); None] /\
  fcount N N.eqb 0%Z 2%Z f = None /\ fcount N N.eqb 0%Z 6%Z f = None.
Proof. cbv zeta. repeat split; reflexivity. Qed.

(* ---- the journal behind the broker: the call site (ProxyPolls -> RecordIPAddress) ---- *)
(* A broker history = IPC/metrics ops with the writer's clock reading, and explicit flushes.  The metrics component
   is exactly [exec] of the ops (so every theorem above applies to it), and the writer component is exactly the
   writer run on one Add per ACCEPTED poll (relay pattern passed, RemoteAddr split) at that poll's instant:
   the de-duplication sets, zeroMetrics and the geoip state never enter. *)
Theorem C19_journal_call_site :
  forall (hash : Type) (mask : bytes -> hash) (heqb : hash -> hash -> bool) (g : bool) (t0 k : Z) (ops : list bop),
  let s := brun hash mask heqb ops (binit hash g t0 k) in
  b_m s = exec (flat_map mop_of ops) (minit g) /\
  b_w s = jrun bytes hash mask heqb (flat_map jop_of ops) (new_writer t0 k).
Proof. exact brun_split. Qed.

(* every accepted poll — repeated or not within the metrics period — is, in order, in exactly one emitted chunk or in
   the open sketch; chunk i holds exactly the masked addresses of the polls of segment i, which all happened inside
   the chunk's interval; the chunks tile the time line *)
Theorem C19_journal_records_every_poll :
  forall (hash : Type) (mask : bytes -> hash) (heqb : hash -> hash -> bool) (g : bool) (t0 k : Z) (ops : list bop),
  bmono t0 ops ->
  let s := brun hash mask heqb ops (binit hash g t0 k) in
  b_m s = exec (flat_map mop_of ops) (minit g) /\
  exists (segs : list (list (Z * bytes))) (open : list (Z * bytes)),
    concat segs ++ open = flat_map accepted ops /\
    Forall2 (chunk_ok bytes hash mask heqb) (w_out (b_w s)) segs /\
    w_cur (b_w s) = sk_of hash heqb (masks bytes hash mask open) /\
    Forall (fun e => (w_last (b_w s) <= fst e)%Z) open /\
    tiled hash t0 (w_out (b_w s)) (w_last (b_w s)).
Proof. exact every_poll_recorded. Qed.

(* pointwise, with no hypothesis on the metrics state: the address of an accepted poll at instant [now] is in a chunk
   whose interval contains [now], or in the open sketch begun no later than [now] *)
Theorem C19_journal_poll_in_current_chunk :
  forall (hash : Type) (mask : bytes -> hash) (heqb : hash -> hash -> bool), (forall a b, heqb a b = true <-> a = b) ->
  forall (g : bool) (t0 k : Z) (ops : list bop) (now : Z) (o : op) (ad : bytes),
  bmono t0 ops -> In (At now o) ops -> recorded o = Some ad ->
  let w := b_w (brun hash mask heqb ops (binit hash g t0 k)) in
  (exists c, In c (w_out w) /\ (c_start c <= now <= c_end c)%Z /\ In (mask ad) (c_sk c)) \/
  ((w_last w <= now)%Z /\ In (mask ad) (w_cur w)).
Proof. exact poll_in_current_chunk. Qed.

(* the reader's window count over the journal a broker history produced = number of distinct masked addresses of the
   accepted polls in the segments whose chunk lies inside the window *)
Theorem C19_journal_window_counts_polls :
  forall (hash : Type) (mask : bytes -> hash) (heqb : hash -> hash -> bool), (forall a b, heqb a b = true <-> a = b) ->
  forall (g : bool) (t0 k : Z) (ops : list bop) (from to : Z),
  bmono t0 ops ->
  let w := b_w (brun hash mask heqb ops (binit hash g t0 k)) in
  exists (segs : list (list (Z * bytes))) (open : list (Z * bytes)) (l : list hash),
    concat segs ++ open = flat_map accepted ops /\
    Forall2 (chunk_ok bytes hash mask heqb) (w_out w) segs /\
    NoDup l /\
    fst (count hash heqb from to (w_out w)) = N.of_nat (length l) /\
    (forall x, In x l <-> exists c seg e, In (c, seg) (combine (w_out w) segs) /\
                                           (from <= c_start c)%Z /\ (c_end c <= to)%Z /\ In e seg /\ x = mask (snd e)).
Proof. exact window_counts_polls. Qed.

(* one address, one proxy type, three polls in one metrics period, interval 2: counted once by the metrics, and
   present in each of the two later chunks' windows as well *)
Example C19_journal_repeat_example :
  let ops := [At 1%Z (ProxyPoll (Some ([65%N], [])) 0 0 true Idle); At 2%Z (ProxyPoll (Some ([66%N], [])) 0 0 true Idle);
              At 5%Z (ProxyPoll (Some ([67%N], [])) 0 0 true Idle); At 6%Z (ProxyPoll (Some ([65%N], [])) 0 0 true Idle);
              At 9%Z (ProxyPoll (Some ([65%N], [])) 0 0 true Idle); FlushAt 10%Z] in
  let s := brun bytes (fun x => x) beq ops (binit bytes false 0%Z 2%Z) in
  bmono 0%Z ops /\
  map (fun c => (c_start c, c_end c, c_sk c)) (w_out (b_w s)) =
    [(0%Z, 5%Z, [[65%N]; [66%N]]); (5%Z, 9%Z, [[67%N]; [65%N]]); (9%Z, 10%Z, [[65%N]])] /\
  r_type (print (b_m s)) 0%N = 3%N /\
  fst (count bytes beq 5%Z 9%Z (w_out (b_w s))) = 2%N /\ fst (count bytes beq 9%Z 10%Z (w_out (b_w s))) = 1%N.
Proof. cbv zeta. split; [cbn; repeat split; discriminate | repeat split; reflexivity]. Qed.


(* ---- the journal writer under concurrent callers: the flush is atomic w.r.t. adds BECAUSE both run under Metrics.lock ----
   Model/JournalConc.v: any number of threads calling RecordIPAddress / WriteIPSetToDisk, every call cut into its
   steps (interval test; Dump + Write; Sync returns + lastWriteTime + Reset; sketch add), the steps of different
   threads interleaved in any order, the clock advancing anywhere.  That every access of the writer's fields happens
   under Metrics.lock in the code is C20's table; here: what the mutex buys, and what is lost without it. *)

(* WITH the mutex, for EVERY schedule: the completed calls (in completion order) have clock readings that never go
   back; whenever the mutex is free the writer is exactly the sequential writer of C19_journal_partition run on
   them; and when every thread is outside, the mutex is free *)
Theorem C19_journal_conc_serial :
  forall (addr hash : Type) (mask : addr -> hash) (heqb : hash -> hash -> bool) (t0 interval : Z) (evs : list (cev addr)),
  let s := crun addr hash mask heqb true evs (cinit t0 interval) in
  mono addr t0 (c_hist s) /\
  (c_lock s = None -> c_w s = jrun addr hash mask heqb (c_hist s) (new_writer t0 interval)) /\
  ((forall j, c_pc s j = JI) -> c_lock s = None).
Proof. exact conc_serial. Qed.

(* between the two halves of a flush (Dump + Write done, Reset not yet: the disk write and fsync) no other thread is
   anywhere but outside or waiting for the mutex; the sketch still is the dumped one and lastWriteTime the chunk's start *)
Theorem C19_journal_conc_flush_undisturbed :
  forall (addr hash : Type) (mask : addr -> hash) (heqb : hash -> hash -> bool) (t0 interval : Z) (evs : list (cev addr))
         (i : nat) (now : Z) (k : option addr),
  let s := crun addr hash mask heqb true evs (cinit t0 interval) in
  c_pc s i = JW2 now k ->
  (forall j, j <> i -> c_pc s j = JI \/ exists c, c_pc s j = JWant c) /\
  exists c, w_out (c_w s) = w_out (jrun addr hash mask heqb (c_hist s) (new_writer t0 interval)) ++ [c] /\
            c_sk c = w_cur (c_w s) /\ c_start c = w_last (c_w s) /\ c_end c = now /\
            w_cur (c_w s) = w_cur (jrun addr hash mask heqb (c_hist s) (new_writer t0 interval)).
Proof. exact conc_flush_undisturbed. Qed.

(* hence C19_journal_partition / C19_journal_records_every_poll for concurrent callers: under every schedule, whenever
   the mutex is free, every completed RecordIPAddress is, in order, in exactly one emitted chunk - whose span contains
   its instant - or in the open sketch; no chunk is written twice (the chunks tile the time line) *)
Theorem C19_journal_conc_records_every_poll :
  forall (addr hash : Type) (mask : addr -> hash) (heqb : hash -> hash -> bool) (t0 interval : Z) (evs : list (cev addr)),
  let s := crun addr hash mask heqb true evs (cinit t0 interval) in
  c_lock s = None ->
  exists (segs : list (list (Z * addr))) (open : list (Z * addr)),
    concat segs ++ open = flat_map (op_events addr) (c_hist s) /\
    Forall2 (chunk_ok addr hash mask heqb) (w_out (c_w s)) segs /\
    w_cur (c_w s) = sk_of hash heqb (masks addr hash mask open) /\
    Forall (fun e => (w_last (c_w s) <= fst e)%Z) open /\
    tiled hash t0 (w_out (c_w s)) (w_last (c_w s)).
Proof. exact conc_records_every_call. Qed.

(* WITHOUT the mutex (RecordIPAddress outside the critical section): REFUTED.  A poll arriving while another one is
   in the disk write of the per-interval flush writes the same chunk a second time and its address is then wiped by the
   first flusher's Reset: completed (it is in the history at instant 6) and in no chunk and not in the open sketch *)
Theorem C19_journal_unlocked_refuted :
  exists sched, let s := crun N N (fun x => x) N.eqb false sched (cinit 0%Z 2%Z) in
    cquiet N N 2 s = true /\
    c_hist s = [Add 1%Z 1%N; Add 6%Z 3%N; Add 5%Z 2%N; Flush 9%Z] /\
    map (fun c => (c_start c, c_end c, c_sk c)) (w_out (c_w s)) = [(0%Z, 5%Z, [1%N]); (0%Z, 6%Z, [1%N]); (5%Z, 9%Z, [2%N])] /\
    w_cur (c_w s) = [] /\
    existsb (fun c => existsb (N.eqb 3%N) (c_sk c)) (w_out (c_w s)) = false /\ existsb (N.eqb 3%N) (w_cur (c_w s)) = false.
Proof. exists lost_sched. exact unlocked_loses_address. Qed.

(* the same schedule with the mutex (thread 1 waits until thread 0 has unlocked): nothing lost, nothing twice *)
Example C19_journal_conc_nonvacuous :
  let s := crun N N (fun x => x) N.eqb true (lost_sched ++ [Step 1; Step 1; Step 1; Step 1; Step 1]%nat) (cinit 0%Z 2%Z) in
  cquiet N N 2 s = true /\ c_lock s = None /\
  c_hist s = [Add 1%Z 1%N; Add 5%Z 2%N; Flush 9%Z; Add 9%Z 3%N] /\
  map (fun c => (c_start c, c_end c, c_sk c)) (w_out (c_w s)) = [(0%Z, 5%Z, [1%N]); (5%Z, 9%Z, [2%N])] /\
  w_cur (c_w s) = [3%N].
Proof. exact locked_same_schedule. Qed.
(* a state between the two halves of a flush with another thread waiting *)
Example C19_journal_conc_flush_hyp_satisfiable :
  let s := crun N N (fun x => x) N.eqb true [Tick 5; Call 0 (CPoll 2%N); Step 0; Step 0; Step 0; Call 1 (CPoll 3%N); Step 1]%nat (cinit 0%Z 2%Z) in
  c_pc s 0%nat = JW2 5%Z (Some 2%N) /\ c_pc s 1%nat = JWant (CPoll 3%N).
Proof. cbv zeta. split; reflexivity. Qed.
