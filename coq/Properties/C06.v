(* C06 — Proxies relay only to bridges inside their accepted pattern.
   Statements only; the proofs are in Proofs/NameMatcherProofs.v.
   Models: Model/NameMatcher.v (common/namematcher/matcher.go as written),
           Model/RelayCheck.v  (broker CheckProxyRelayPattern/ProxyPolls decision; proxy runSession decision).
   Strings are arbitrary [list N] (all byte strings and more); patterns are arbitrary too
   (with/without ^ and $, empty, ^/$ in the middle). *)
From Coq Require Import List NArith Bool String.
From Snow Require Import Lib.Wire Model.NameMatcher Model.RelayCheck Proofs.NameMatcherProofs.
Import ListNotations.
Open Scope N_scope.

(* ---- the matcher ---- *)

(* A pattern judged a superset of another accepts every hostname the other accepts. *)
Theorem C06_superset_sound : forall (a b : matcher) (s : bytes),
  is_superset_of a b = true -> is_member b s = true -> is_member a s = true.
Proof. exact superset_sound. Qed.

(* The same at the level of rule strings, for all rule strings. *)
Theorem C06_superset_sound_rules : forall (ra rb s : bytes),
  is_superset_of (new_matcher ra) (new_matcher rb) = true ->
  rule_accepts rb s = true -> rule_accepts ra s = true.
Proof. exact superset_sound_rules. Qed.

(* The judgement is exact: it holds iff the accepted sets are included (so a broker never
   rejects a proxy whose pattern does cover the allowed one). *)
Theorem C06_superset_is_inclusion : forall a b : matcher,
  is_superset_of a b = true <-> (forall s, is_member b s = true -> is_member a s = true).
Proof. exact superset_iff_inclusion. Qed.

(* What a rule accepts: "^x$" exactly x; "x$" (x not starting with ^) every string ending in x. *)
Theorem C06_rule_anchored : forall x s : bytes,
  rule_accepts (CARET :: x ++ [DOLLAR]) s = true <-> s = x.
Proof. exact rule_anchored_accepts. Qed.

Theorem C06_rule_suffix : forall x s : bytes, starts_with_caret x = false ->
  (rule_accepts (x ++ [DOLLAR]) s = true <-> exists p, s = p ++ x).
Proof. exact rule_suffix_accepts. Qed.

(* ---- the broker's decision ---- *)

(* A poll goes on to be registered only if its pattern (for legacy polls: the operator's presumed
   pattern) is judged a superset of the allowed pattern; otherwise it is answered with the
   rejection status.  Equivalently: only if every hostname allowed by the broker is accepted by
   the pattern the poll is judged by. *)
Theorem C06_broker_rejects : forall (cfg : broker_cfg) (pat : option bytes),
  is_superset_of (new_matcher (effective_pattern cfg pat)) (new_matcher (allowed_pattern cfg)) = false ->
  broker_accepts_poll cfg pat = false.
Proof. exact broker_rejects. Qed.

Theorem C06_broker_accepts_iff_inclusion : forall (cfg : broker_cfg) (pat : option bytes),
  broker_accepts_poll cfg pat = true <->
  (forall host, rule_accepts (allowed_pattern cfg) host = true ->
                rule_accepts (effective_pattern cfg pat) host = true).
Proof. exact broker_accepts_iff_inclusion. Qed.

(* Legacy polls (field absent or null) are judged by the presumed pattern, whatever else they carry. *)
Theorem C06_legacy_presumed : forall cfg : broker_cfg,
  broker_accepts_poll cfg None = broker_accepts_poll cfg (Some (presumed_pattern cfg)).
Proof. exact broker_legacy_presumed. Qed.

(* ---- the proxy's decision ---- *)

(* The session proceeds towards a relay dial of the broker-supplied URL only if the URL parsed,
   its hostname is a member of the proxy's own pattern, and its scheme is wss unless non-TLS
   relays were explicitly allowed (and conversely). *)
Theorem C06_proxy_never_dials : forall (cfg : proxy_cfg) (raw : bytes) (pu : parsed_url),
  proxy_relay_decision cfg raw pu = DialBrokerURL <->
  raw <> [] /\ exists scheme host, pu = Parsed scheme host
     /\ is_member (new_matcher (relay_pattern cfg)) host = true
     /\ (allow_non_tls cfg = true \/ scheme = WSS).
Proof. exact proxy_dial_broker_iff. Qed.

(* The only other way to proceed: the broker supplied the empty URL; then the operator's own
   configured relay URL is dialled, never anything the broker chose. *)
Theorem C06_proxy_configured_only_on_empty_url : forall (cfg : proxy_cfg) (raw : bytes) (pu : parsed_url),
  proxy_relay_decision cfg raw pu = DialConfigured <-> raw = [] /\ pu <> ParseError.
Proof. exact proxy_dial_configured_iff. Qed.

Theorem C06_proxy_parse_error_refused : forall (cfg : proxy_cfg) (raw : bytes),
  proxy_relay_decision cfg raw ParseError = Refuse.
Proof. exact proxy_parse_error_refused. Qed.

(* Composition: with an honest broker (poll accepted, bridge hostname inside the allowed pattern,
   wss) the proxy does not refuse — the checks are not satisfied by refusing everything. *)
Theorem C06_honest_broker_not_refused : forall (bcfg : broker_cfg) (pcfg : proxy_cfg) (raw host : bytes),
  broker_accepts_poll bcfg (Some (relay_pattern pcfg)) = true ->
  rule_accepts (allowed_pattern bcfg) host = true ->
  proxy_relay_decision pcfg raw (Parsed WSS host) <> Refuse.
Proof. exact honest_broker_not_refused. Qed.

(* ---- the hypotheses are satisfiable (non-vacuity) ---- *)

Example C06_superset_sound_nonvacuous :
  is_superset_of (new_matcher (bs "torproject.net$")) (new_matcher (bs "^snowflake.torproject.net$")) = true
  /\ is_member (new_matcher (bs "^snowflake.torproject.net$")) (bs "snowflake.torproject.net") = true
  /\ is_superset_of (new_matcher (bs "snowflake.torproject.net$")) (new_matcher (bs "02.snowflake.torproject.net$")) = true
  /\ is_member (new_matcher (bs "02.snowflake.torproject.net$")) (bs "x02.snowflake.torproject.net") = true.
Proof. vm_compute. repeat split. Qed.

Example C06_rule_suffix_nonvacuous : starts_with_caret (bs "snowflake.torproject.net") = false.
Proof. reflexivity. Qed.

Example C06_broker_rejects_nonvacuous :
  let cfg := mk_broker_cfg (bs "snowflake.torproject.net$") (bs "^snowflake.torproject.net$") in
  is_superset_of (new_matcher (effective_pattern cfg (Some (bs "^evil.net$")))) (new_matcher (allowed_pattern cfg)) = false
  /\ broker_accepts_poll cfg None = false                         (* presumed exact pattern does not cover the suffix pattern *)
  /\ broker_accepts_poll cfg (Some (bs "torproject.net$")) = true.
Proof. vm_compute. repeat split. Qed.

Example C06_proxy_decisions_nonvacuous :
  let cfg := mk_proxy_cfg (bs "snowflake.torproject.net$") false in
  proxy_relay_decision cfg (bs "wss://snowflake.torproject.net/") (Parsed (bs "wss") (bs "snowflake.torproject.net")) = DialBrokerURL
  /\ proxy_relay_decision cfg (bs "ws://snowflake.torproject.net/") (Parsed (bs "ws") (bs "snowflake.torproject.net")) = Refuse
  /\ proxy_relay_decision cfg (bs "wss://good@evil.net/") (Parsed (bs "wss") (bs "evil.net")) = Refuse
  /\ proxy_relay_decision cfg [] (Parsed [] []) = DialConfigured.
Proof. vm_compute. repeat split. Qed.

Example C06_honest_broker_nonvacuous :
  let bcfg := mk_broker_cfg (bs "^snowflake.torproject.net$") (bs "") in
  let pcfg := mk_proxy_cfg (bs "snowflake.torproject.net$") false in
  broker_accepts_poll bcfg (Some (relay_pattern pcfg)) = true
  /\ rule_accepts (allowed_pattern bcfg) (bs "snowflake.torproject.net") = true.
Proof. vm_compute. repeat split. Qed.

(* ---- the gate composed with the matching machine (Model/Broker.v): "never gives such a proxy a client" ----
   A proxy poll enters the matching machine only through the relay-pattern gate. A poll whose pattern (for a
   legacy poll: the presumed pattern) is not judged a superset of the allowed pattern is answered with the
   rejection and changes NOTHING: no entry, no heap membership, no id-map binding exists for it, so by C02
   (clients are only ever stored in entries) no client offer can reach it, in any continuation. *)
From Snow Require Import Model.Broker Proofs.BrokerProofs Proofs.BrokerGateProofs.

Theorem C06_rejected_poll_changes_nothing : forall cfg v s sd n pt cl pat,
  broker_accepts_poll cfg pat = false ->
  gstep cfg v s (G_ProxyPoll sd n pt cl pat) = Some (s, Some RejectedPattern).
Proof. exact rejected_poll_changes_nothing. Qed.

Theorem C06_registered_only_if_superset : forall cfg v s sd n pt cl pat s',
  gstep cfg v s (G_ProxyPoll sd n pt cl pat) = Some (s', Some Registered) ->
  broker_accepts_poll cfg pat = true /\ List.length (entries s') = S (List.length (entries s)).
Proof. exact registered_only_if_superset. Qed.

Theorem C06_gated_machine_refines_broker : forall cfg v s g s' r,
  gstep cfg v s g = Some (s', r) -> s' = s \/ exists l, step v s l = Some s'.
Proof. exact gstep_refines. Qed.

(* ---- histories: the decisions do not depend on earlier requests ----
   Model/RelayCheck.v broker_run: one broker context over any sequence of polls (pattern-carrying, legacy) and
   re-installations of the patterns; proxy_run: one proxy over any sequence of broker-supplied relay URLs.
   The correspondence check drives ONE long-lived BrokerContext / SnowflakeProxy through such sequences and
   compares every answer with these runs (ops pollseq, urlseq, urlseqfull). *)
From Snow Require Import Proofs.RelayHistoryProofs.

(* The answer to a poll at any position of any history is the decision for that poll alone under the
   patterns then in force ... *)
Theorem C06_broker_history_independent : forall (cfg : broker_cfg) (pre : list broker_event) (pat : option bytes)
                                                (post : list broker_event),
  nth_error (broker_run cfg (pre ++ EvPoll pat :: post)) (List.length pre)
  = Some (Some (broker_accepts_poll (broker_cfg_after cfg pre) pat)).
Proof. exact broker_poll_answer_at. Qed.

(* ... which are those of the latest installation: nothing that happened before it, and no poll answered
   since, has any influence. *)
Theorem C06_broker_decision_follows_latest_install :
  forall (cfg0 : broker_cfg) (before : list broker_event) (c : broker_cfg) (polls : list broker_event)
         (pat : option bytes) (post : list broker_event),
  forallb is_poll polls = true ->
  nth_error (broker_run cfg0 (before ++ EvInstall c :: polls ++ EvPoll pat :: post))
            (List.length before + S (List.length polls))
  = Some (Some (broker_accepts_poll c pat)).
Proof. exact broker_poll_answer_after_install. Qed.

(* With fixed patterns the run of the context is the pointwise image of the single-poll decision. *)
Theorem C06_broker_run_is_map : forall (cfg : broker_cfg) (pats : list (option bytes)),
  broker_run cfg (map EvPoll pats) = map (fun pat => Some (broker_accepts_poll cfg pat)) pats.
Proof. exact broker_run_polls. Qed.

(* A poll whose (effective) pattern is not a superset of the allowed pattern is rejected after ANY history. *)
Theorem C06_broker_rejects_after_any_history : forall (cfg : broker_cfg) (pre : list broker_event) (pat : option bytes)
                                                      (post : list broker_event),
  let cur := broker_cfg_after cfg pre in
  is_superset_of (new_matcher (effective_pattern cur pat)) (new_matcher (allowed_pattern cur)) = false ->
  nth_error (broker_run cfg (pre ++ EvPoll pat :: post)) (List.length pre) = Some (Some false).
Proof. exact broker_rejects_after_any_history. Qed.

(* The same through the matching machine: along any run of the gated machine from any state (any interleaving
   of polls, client offers, answers, timeouts) the reply to each label is a function of that label alone. *)
Theorem C06_gate_replies_history_independent : forall cfg v (gs : list glabel) s s' rs,
  grun cfg v s gs = Some (s', rs) -> rs = map (gate_reply cfg) gs.
Proof. exact grun_replies. Qed.

Theorem C06_gate_rejects_at_every_point : forall cfg v s (pre : list glabel) sd n pt cl pat (post : list glabel) s' rs,
  broker_accepts_poll cfg pat = false ->
  grun cfg v s (pre ++ G_ProxyPoll sd n pt cl pat :: post) = Some (s', rs) ->
  nth_error rs (List.length pre) = Some (Some RejectedPattern).
Proof. exact grun_rejects_at. Qed.

(* One proxy over any sequence of relay URLs: each decision is the single-URL decision ... *)
Theorem C06_proxy_history_independent : forall (cfg : proxy_cfg) (pre : list relay_offer) (raw : bytes) (pu : parsed_url)
                                               (post : list relay_offer),
  nth_error (proxy_run cfg (pre ++ (raw, pu) :: post)) (List.length pre) = Some (proxy_relay_decision cfg raw pu).
Proof. exact proxy_decision_at. Qed.

Theorem C06_proxy_run_is_map : forall (cfg : proxy_cfg) (offers : list relay_offer),
  proxy_run cfg offers = map (fun o : relay_offer => proxy_relay_decision cfg (fst o) (snd o)) offers.
Proof. exact proxy_run_map. Qed.

(* ... so after any history the broker-supplied URL is dialled only if its hostname passes the proxy's own
   pattern and its scheme is wss unless non-TLS relays were explicitly allowed. *)
Theorem C06_proxy_never_dials_after_any_history : forall (cfg : proxy_cfg) (pre : list relay_offer) (raw : bytes)
                                                         (pu : parsed_url) (post : list relay_offer),
  nth_error (proxy_run cfg (pre ++ (raw, pu) :: post)) (List.length pre) = Some DialBrokerURL ->
  raw <> [] /\ exists scheme host, pu = Parsed scheme host
     /\ is_member (new_matcher (relay_pattern cfg)) host = true
     /\ (allow_non_tls cfg = true \/ scheme = WSS).
Proof. exact proxy_never_dials_after_any_history. Qed.

(* non-vacuity: the histories of the two seeded defects this part was written for *)
Example C06_broker_history_nonvacuous :
  let cfg := mk_broker_cfg (bs "snowflake.torproject.net$") (bs "snowflake.bamsoftware.com$") in
  let cfg2 := mk_broker_cfg (bs "snowflake.torproject.net$") (bs "torproject.net$") in
  broker_run cfg [EvPoll None; EvPoll (Some (bs "snowflake.bamsoftware.com$")); EvPoll (Some []); EvPoll None;
                  EvInstall cfg2; EvPoll None; EvInstall cfg; EvPoll None]
  = [Some false; Some false; Some true; Some false; None; Some true; None; Some false]
  /\ forallb is_poll [EvPoll (Some []); EvPoll None] = true
  /\ is_superset_of (new_matcher (effective_pattern (broker_cfg_after cfg [EvPoll (Some [])]) None))
                    (new_matcher (allowed_pattern (broker_cfg_after cfg [EvPoll (Some [])]))) = false.
Proof. vm_compute. repeat split. Qed.

Example C06_gate_history_nonvacuous :
  let cfg := mk_broker_cfg (bs "snowflake.torproject.net$") (bs "snowflake.bamsoftware.com$") in
  exists s' , grun cfg V1 (init [(7, 9)])
    [G_ProxyPoll 1 NatUnrestricted 1 0 None; G_ProxyPoll 2 NatUnrestricted 1 0 (Some []);
     G_ProxyPoll 3 NatUnrestricted 1 0 None]
    = Some (s', [Some RejectedPattern; Some Registered; Some RejectedPattern])
  /\ broker_accepts_poll cfg None = false.
Proof. eexists. vm_compute. split; reflexivity. Qed.

Example C06_proxy_history_nonvacuous :
  let cfg := mk_proxy_cfg (bs "snowflake.torproject.net$") false in
  let h := bs "01.snowflake.torproject.net" in
  proxy_run cfg [(bs "wss://01.snowflake.torproject.net/", Parsed (bs "wss") h);
                 (bs "ws://01.snowflake.torproject.net/", Parsed (bs "ws") h);
                 (bs "wss://01.snowflake.torproject.net/", Parsed (bs "wss") h)]
  = [DialBrokerURL; Refuse; DialBrokerURL].
Proof. vm_compute. reflexivity. Qed.
